import os, sys, tempfile, shutil
sys.path.insert(0, os.path.dirname(os.path.dirname(os.path.abspath(__file__))))
from redun import File, Dir, Scheduler, task
from redun.file import ContentFile
import logging
logging.getLogger("redun").setLevel(logging.ERROR)

tmp = tempfile.mkdtemp(); os.chdir(tmp)

# (a) SimpleExpression wrapping a TaskExpression with a File argument
calls = []
@task(namespace="probe")
def child(f):
    calls.append("child"); return [f.read()]
@task(namespace="probe")
def parent():
    calls.append("parent")
    f = File("a.txt"); f.write("one"); return child(f)[0]
s = Scheduler(); s.load()
print("a1", s.run(parent()), calls)
with open("a.txt", "w") as o: o.write("two-two")
del calls[:]
print("a2", s.run(parent()), calls, "current content:", open("a.txt").read())

# (b) ContentFile replaced by a directory
calls = []
@task(namespace="probe")
def mk():
    calls.append("mk")
    if os.path.isdir("c.txt"): shutil.rmtree("c.txt")
    f = ContentFile("c.txt"); f.write("x"); return f
s = Scheduler(); s.load()
s.run(mk())
os.remove("c.txt"); os.mkdir("c.txt")
try:
    s.run(mk()); print("b ok", calls)
except Exception as e:
    print("b raised", type(e).__name__, e)

# (c) hidden member added to Dir
calls = []
@task(namespace="probe")
def mkd():
    calls.append("mkd"); File("d/x.txt").write("x"); return Dir("d")
s = Scheduler(); s.load()
s.run(mkd())
open("d/.hidden", "w").write("h")
s.run(mkd()); print("c", calls)
