import os, sys, time

from redun import Scheduler, task
from redun.backends.db import CallNode
redun_namespace = "p2"
MODE = {"slow": None}
@task()
def ok():
    if MODE["slow"] == "ok": time.sleep(0.5)
    return 1
@task()
def bad():
    if MODE["slow"] == "bad": time.sleep(0.5)
    raise ValueError("boom")
@task()
def main():
    return [ok(), bad()]
out = {}
for slow in ["ok", "bad"]:
    MODE["slow"] = slow
    s = Scheduler(); s.load()
    try: s.run(main())
    except ValueError: pass
    time.sleep(0.7)
    out[slow] = sorted((n, h[:8]) for n, h in s.backend.session.query(CallNode.task_name, CallNode.call_hash).all())
print(out)
