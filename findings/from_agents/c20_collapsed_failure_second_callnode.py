"""
Pre-existing (UNCHANGED code) inconsistency, independent of the seeded change:
a job collapsed (CSE) onto a pending job that later FAILS after having spawned children.

Job.collapse.fail() -> Scheduler._reject_job_main_thread(self, error) re-records a CallNode for the
collapsed job from its own (empty) child_jobs, i.e. H(task, args, error, []), while the parent's
child_jobs entry was replaced by `other_job`, so the parent's CallNode has an edge to
other_job's node H(task, args, error, [inner_fail]) instead.  Result: the collapsed Job row
(parent_id = p2) has a call_hash that is not a child edge of p2's CallNode, two different
CallNodes exist for the same failed call, and one of them is an orphan with no children.

Run: /venv/bin/python SEED/preexisting_repro.py   (prints the mismatch; exits 1 if present)
"""
import os
import sys
import time

sys.path.insert(0, os.path.dirname(os.path.dirname(os.path.abspath(__file__))))

from redun import Scheduler, task  # noqa: E402
from redun.backends.db import CallEdge, Job  # noqa: E402
from redun.scheduler import catch  # noqa: E402


@task(namespace="c20pre")
def inner_fail(x):
    raise ValueError("inner")


@task(namespace="c20pre")
def ident(x):
    return x


@task(namespace="c20pre")
def mid(x):
    time.sleep(0.3)  # stay pending long enough for the second mid(1) to be collapsed onto us
    return inner_fail(x)


@task(namespace="c20pre")
def p1():
    return mid(1)


@task(namespace="c20pre")
def p2():
    return mid(ident(1))


@task(namespace="c20pre")
def rec(e):
    return "rec"


@task(namespace="c20pre")
def top():
    return [catch(p1(), ValueError, rec), catch(p2(), ValueError, rec)]


scheduler = Scheduler()
scheduler.load()
assert scheduler.run(top()) == ["rec", "rec"]
session = scheduler.backend.session
jobs = {job.id: job for job in session.query(Job).all()}
bad = 0
for job in jobs.values():
    if job.parent_id:
        parent = jobs[job.parent_id]
        children = [e.child_id for e in session.query(CallEdge).filter_by(parent_id=parent.call_hash)]
        if job.call_hash not in children:
            bad += 1
            print(
                f"Job {job.id[:8]} {job.task.name} cached={job.cached} call_hash={job.call_hash[:8]} "
                f"is not among child edges {[c[:8] for c in children]} of parent {parent.task.name}"
            )
sys.exit(1 if bad else 0)
