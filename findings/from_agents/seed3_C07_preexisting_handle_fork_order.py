"""
PRE-EXISTING violation of C07 in the UNCHANGED code (independent of the seeded patch).

The same Handle `h` is passed to two sibling tasks use_f(h, slow_a()) and use_g(h, slow_b()).
Scheduler._preprocess_args() forks the handle with key = str(call_order), where call_order
is parent_job.handle_forks[handle_hash], incremented in the order in which the sibling jobs
reach _exec_job_main_thread, i.e. the order in which their *other* arguments finish.  So the
fork key ("1" vs "2"), the forked handle hashes, the args_hash/call_hash of use_f/use_g and
hmain, and the returned handles all depend on executor completion order.

This script exits non-zero (AssertionError) on the unchanged code.
"""
import os, sys, threading, time
sys.path.insert(0, os.path.dirname(os.path.dirname(os.path.abspath(__file__))))
from redun import Scheduler, task, Handle
from redun.config import Config
from redun.backends.db import CallNode, CallEdge, Argument, ArgumentResult

MODE = {"m": None}
EV = {}

class H(Handle):
    def __init__(self, name, *a, **k):
        pass

@task(namespace="p")
def slow_a():
    if MODE["m"] == "a_late":
        EV["b_done"].wait(5); time.sleep(0.3)
    EV["a_done"].set()
    return 1

@task(namespace="p")
def slow_b():
    if MODE["m"] == "b_late":
        EV["a_done"].wait(5); time.sleep(0.3)
    EV["b_done"].set()
    return 2

@task(namespace="p")
def use_f(h, x):
    return h

@task(namespace="p")
def use_g(h, x):
    return h

@task(namespace="p")
def hmain():
    h = H("conn")
    return [use_f(h, slow_a()), use_g(h, slow_b())]

def graph(s):
    sess = s.backend.session
    nodes = sorted((n.task_name, n.call_hash, n.args_hash, n.value_hash) for n in sess.query(CallNode))
    edges = sorted((e.parent_id, e.child_id, e.call_order) for e in sess.query(CallEdge))
    args = sorted((a.call_hash, a.arg_position, a.arg_key, a.value_hash) for a in sess.query(Argument))
    return nodes, edges, args

def run(mode, main):
    MODE["m"] = mode
    EV["a_done"] = threading.Event(); EV["b_done"] = threading.Event()
    s = Scheduler(); s.load()
    r = s.run(main())
    return r, graph(s)

r1, g1 = run("a_late", hmain)
r2, g2 = run("b_late", hmain)
h1 = [x.get_hash() for x in r1]
h2 = [x.get_hash() for x in r2]
print("returned handle hashes, slow_a finishes last :", h1)
print("returned handle hashes, slow_b finishes last :", h2)
assert h1 == h2, "returned handle hashes depend on completion order"
assert g1 == g2, "recorded call graph depends on completion order"
print("OK")
