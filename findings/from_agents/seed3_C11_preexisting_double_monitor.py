import sys, threading, time
import os; sys.path.insert(0, os.path.dirname(os.path.dirname(os.path.abspath(__file__))))
from redun import task
from redun.job_array import JobArrayer
from redun.scheduler import Job

@task(namespace="x")
def t(x): return x

errors = []; sub = []
a = JobArrayer(sub.append, errors.append, 0.05, 0.2, 2, 100)
bar = threading.Barrier(2)
class Ev(threading.Event):
    def clear(self):
        try: bar.wait(timeout=2)   # both adders are past the is_alive() check
        except threading.BrokenBarrierError: pass
        super().clear()
a._exit_flag = Ev()
jobs = [Job(t, t(i)) for i in range(2)]
ths = [threading.Thread(target=a.add_job, args=(j,)) for j in jobs]
[x.start() for x in ths]; [x.join() for x in ths]
mons = [th for th in threading.enumerate() if th is not threading.main_thread()]
print("monitor threads:", len(mons))
time.sleep(1.0)
a.stop()
print("errors:", errors, "batches:", [len(b) for b in sub], "num_pending", a.num_pending)

# Part 2: force both monitors to compute stales before either pops.
errors = []; sub = []
a = JobArrayer(sub.append, errors.append, 0.05, 0.2, 2, 100)
bar = threading.Barrier(2)
a._exit_flag = Ev()
orig = a.get_stale_descrs
bar2 = threading.Barrier(2)
def gsd():
    r = orig()
    if r:
        try: bar2.wait(timeout=2)
        except threading.BrokenBarrierError: pass
    return r
a.get_stale_descrs = gsd
jobs = [Job(t, t(i)) for i in range(2)]
ths = [threading.Thread(target=a.add_job, args=(j,)) for j in jobs]
[x.start() for x in ths]; [x.join() for x in ths]
time.sleep(1.0)
a.stop()
print("part2 errors:", [repr(e)[:60] for e in errors], "batches:", [len(b) for b in sub], "num_pending", a.num_pending)
