"""
PRE-EXISTING (unchanged code) C12 violation: a failure inside `subrun(...)` (extending the
current execution) is returned by `_subrun_root_task` as an ordinary dict {"error": ...}, so
  * the `subrun_root_task` job -- an ancestor of the failing job -- is recorded DONE, not FAILED;
  * its CallNode is a normal value, and because subrun defaults to check_valid=shallow with
    ULTIMATE allowed, a later execution replays that dict from the backend cache and re-raises the
    stored error WITHOUT executing the failing task again.
Exits non-zero when the defect is present.
"""
import os
import sys
import tempfile

sys.path.insert(0, os.path.dirname(os.path.dirname(os.path.abspath(__file__))))
from redun import Scheduler, task  # noqa: E402
from redun.backends.db import Execution  # noqa: E402
from redun.scheduler import Config, subrun  # noqa: E402

redun_namespace = "seed3_c12_subrun"
calls = []


@task
def bar_fail(x):
    calls.append("bar_fail")
    raise ValueError("BOOM")


@task
def foo_fail(x):
    return {"r": bar_fail(x)}


@task
def local_main(x):
    return {"result": subrun(foo_fail(x), executor="default", load_modules=[])}


if __name__ == "__main__":
    os.chdir(tempfile.mkdtemp())
    cfg = {
        "backend": {"db_uri": "sqlite:///redun.db"},
        "executors.default": {"type": "local", "mode": "thread"},
    }
    for _ in range(2):
        scheduler = Scheduler(config=Config(config_dict=cfg))
        scheduler.load()
        try:
            scheduler.run(local_main(5))
        except ValueError:
            pass

    statuses = []
    for execution in scheduler.backend.session.query(Execution).all():
        def walk(job, depth=0):
            statuses.append((job.task.name, job.status))
            print("  " * depth, job.task.name, job.status)
            for child in job.child_jobs:
                walk(child, depth + 1)
        walk(execution.job)
    print(calls)
    assert calls == ["bar_fail", "bar_fail"], calls  # actual: executed once, replayed once
    assert ("subrun_root_task", "DONE") not in statuses
