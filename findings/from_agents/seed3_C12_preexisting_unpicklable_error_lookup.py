"""
PRE-EXISTING (unchanged code) C12 violation: an exception class whose __init__ takes more
arguments than it forwards to Exception.__init__ pickles fine but cannot be unpickled. The failed
CallNode's ErrorValue is stored; any later lookup that reads it back (ultimate reduction with
check_valid="shallow" in a later execution, or CSE of an equal call later in the same execution)
raises TypeError out of `check_cache` before the `isinstance(result, ErrorValue)` guard, so run()
raises TypeError instead of re-executing the call / raising the task's own error.
Exits non-zero when the defect is present.
"""
import os
import sys

sys.path.insert(0, os.path.dirname(os.path.dirname(os.path.abspath(__file__))))
from redun import Scheduler, task  # noqa: E402

redun_namespace = "seed3_c12_unpickle"
calls = []


class TwoArgError(Exception):
    def __init__(self, code, detail):
        super().__init__(f"{code}: {detail}")


@task(check_valid="shallow")
def fail():
    calls.append("fail")
    raise TwoArgError(3, "BOOM")


scheduler = Scheduler()
scheduler.load()
errors = []
for _ in range(2):
    try:
        scheduler.run(fail())
    except Exception as error:
        errors.append(error)
print([repr(e) for e in errors], calls)
assert [type(e) for e in errors] == [TwoArgError, TwoArgError], errors
assert calls == ["fail", "fail"], calls
