"""
Pre-existing (UNCHANGED code) violation of C18, independent of the seeded patch.

Task.options() forwards `export_options=self._export_options` (the same set object) to
the clone, Task.__init__ keeps a non-empty set by reference (`export_options or set()`)
and then mutates it in place with `self._export_options.add("prov")` when a `prov`
option is present. TaskExpression.__init__ also keeps a non-empty set by reference.
So `t.options(prov=False)` silently adds "prov" to the exported options of `t` and of
every expression already created from `t`, *after* their hash may have been cached.

Exits non-zero (AssertionError) on the unchanged code.
"""

import os
import pickle
import sys

sys.path.insert(0, os.path.dirname(os.path.dirname(os.path.abspath(__file__))))

from redun import task  # noqa: E402
from redun.expression import TaskExpression  # noqa: E402


@task(namespace="c18pre", export_options={"executor": "default"})
def t(x):
    return x


e1 = t(1)
h1 = e1.get_hash()  # cached with export options {"executor"}
exported_before = set(e1._export_options)

t.options(prov=False)  # result discarded; mutates the shared set

fresh = TaskExpression(t.fullname, (1,), {}, export_options={"executor"})
roundtrip = pickle.loads(pickle.dumps(e1))

print("e1 exported before:", exported_before, "after:", e1._export_options)
print("e1 hash:", e1.get_hash(), "fresh{executor} hash:", fresh.get_hash())
print("roundtrip hash:", roundtrip.get_hash())

# 1. An unrelated t.options() call changed the exported options of an existing expression.
assert e1._export_options == exported_before, "exported options of e1 changed behind its back"
# 2. Same hash, different exported options.
assert not (
    e1.get_hash() == fresh.get_hash() and e1._export_options != fresh._export_options
), "same hash for different exported options"
# 3. The pickle round trip does not preserve the hash.
assert roundtrip.get_hash() == e1.get_hash(), "pickle round trip changed the hash"
