"""
Reproductions of C10 violations that exist in the UNCHANGED code (independent of
the seeded change).  Each function forces one schedule with threading.Event
hooks and raises AssertionError when a submitted job is never reported.
Both are expected to FAIL on the unchanged tree.

  /venv/bin/python SEED/preexisting.py docker
  /venv/bin/python SEED/preexisting.py glue
"""

import os
import sys
import tempfile
import threading
import time
from unittest.mock import patch

ROOT = os.path.dirname(os.path.dirname(os.path.abspath(__file__)))
sys.path.insert(0, ROOT)

from redun import File, task  # noqa: E402
from redun.config import Config  # noqa: E402
from redun.executors import aws_glue, docker  # noqa: E402
from redun.executors.scratch import SCRATCH_OUTPUT, get_job_scratch_file  # noqa: E402
from redun.scheduler import Job, Scheduler  # noqa: E402
from redun.utils import pickle_dumps  # noqa: E402


@task(namespace="c10_pre")
def add_ten(x: int) -> int:
    return x + 10


def wait_until(cond, timeout):
    deadline = time.time() + timeout
    while time.time() < deadline:
        if cond():
            return True
        time.sleep(0.01)
    return cond()


def make_job(x, name):
    job = Job(add_ten, add_ten(x))
    job.id = name
    job.eval_hash = f"eval_hash_{name}"
    job.args = ((x,), {})
    return job


def recording_scheduler():
    scheduler = Scheduler()
    scheduler.load()
    reported = {}
    scheduler.done_job = lambda job, result, job_tags=[]: reported.__setitem__(  # type: ignore
        job.id if job else None, ("done", result)
    )
    scheduler.reject_job = lambda job, error, error_traceback=None, job_tags=[]: (  # type: ignore
        reported.__setitem__(job.id if job else None, ("failed", error))
    )
    return scheduler, reported


def docker_flag_window() -> None:
    """
    DockerExecutor (same shape in AWS Batch / K8s): the monitor leaves its loop
    because nothing is pending, and only later clears `_is_running` in stop().
    A submission in between sees `_is_running == True`, starts no thread, and the
    old thread then exits: the job stays in `_pending_jobs` forever.
    The hook point is the `self.log("Shutting down executor...")` call that sits
    between the loop exit and `self.stop()`.
    """
    tmp = tempfile.mkdtemp(prefix="c10_docker_")
    scheduler, reported = recording_scheduler()
    config = Config(
        {"docker": {"image": "img", "scratch": tmp, "job_monitor_interval": "0.02",
                    "code_package": "False"}}
    )
    executor = docker.DockerExecutor("docker", scheduler, config=config["docker"])

    containers = iter(["c1", "c2"])

    def fake_run_docker(command, **kwargs):
        return next(containers)

    def fake_iter_job_status(scratch_prefix, job_id2job):
        # Every container has already finished successfully.
        for cid, job in job_id2job.items():
            (x,), _ = job.args
            File(get_job_scratch_file(scratch_prefix, job, SCRATCH_OUTPUT)).write(
                pickle_dumps(add_ten.func(x)), mode="wb"
            )
            yield {"jobId": cid, "status": "SUCCEEDED", "logs": ""}

    at_exit = threading.Event()
    resume = threading.Event()
    orig_log = executor.log

    def log(*messages, **kwargs):
        if messages and "Shutting down executor" in str(messages[0]) and not at_exit.is_set():
            at_exit.set()  # monitor decided to exit, flag not yet cleared
            resume.wait(10)
        return orig_log(*messages, **kwargs)

    executor.log = log  # type: ignore[method-assign]

    with (
        patch.object(docker, "run_docker", fake_run_docker),
        patch.object(docker, "iter_job_status", fake_iter_job_status),
    ):
        executor.submit(make_job(1, "J1"))
        assert at_exit.wait(10)
        assert reported.get("J1") == ("done", 11)
        executor.submit(make_job(2, "J2"))  # lands in the window
        resume.set()
        wait_until(lambda: "J2" in reported, 3)
        alive = executor._thread.is_alive()
        executor.stop()
        assert "J2" in reported, (
            f"J2 lost: reported={list(reported)}, pending={list(executor._pending_jobs)}, "
            f"monitor alive={alive}"
        )


def glue_in_transit_window() -> None:
    """
    AWSGlueExecutor: the submission thread pops a job from `pending_glue_jobs`,
    calls the Glue API, and only then stores it in `running_glue_jobs`.  While the
    API call is in flight both collections are empty, so a monitor poll at that
    moment ends the monitor thread (and clears is_running).  The job is then
    registered as running with nobody watching it.
    """
    tmp = tempfile.mkdtemp(prefix="c10_glue_pre_")
    scheduler, reported = recording_scheduler()
    config = Config(
        {"glue": {"s3_scratch": tmp, "role": "arn:aws:iam::123:role/r", "aws_region": "us-east-1",
                  "job_monitor_interval": "0.02", "job_retry_interval": "0.02",
                  "code_package": "False"}}
    )
    holder = {}

    def fake_submit(job, a_task, **kwargs):
        # API call is slow: the monitor polls (and exits) while it is in flight.
        wait_until(lambda: not holder["ex"]._monitor_thread.is_alive(), 10)
        return {"JobRunId": "jr_0"}

    def fake_describe(job_ids, glue_job_name, aws_region=None):
        for run_id in job_ids:
            job = holder["ex"].running_glue_jobs[run_id]
            (x,), _ = job.args
            File(get_job_scratch_file(tmp, job, SCRATCH_OUTPUT)).write(
                pickle_dumps(add_ten.func(x)), mode="wb"
            )
            yield {"Id": run_id, "JobRunState": "SUCCEEDED"}

    with (
        patch.object(aws_glue, "submit_glue_job", fake_submit),
        patch.object(aws_glue, "glue_describe_jobs", fake_describe),
    ):
        executor = holder["ex"] = aws_glue.AWSGlueExecutor("glue", scheduler, config["glue"])
        executor.glue_job_name = "fake"
        executor.redun_zip_location = "zip"
        executor.code_file = File(os.path.join(tmp, "code.zip"))
        executor.code_file.write("code")
        executor.get_jobs = lambda statuses=None: iter([])  # type: ignore[method-assign]

        executor.submit(make_job(1, "G1"))
        wait_until(lambda: "G1" in reported, 5)
        state = (
            f"reported={list(reported)}, running_glue_jobs={list(executor.running_glue_jobs)}, "
            f"monitor alive={executor._monitor_thread.is_alive()}, is_running={executor.is_running}"
        )
        executor.stop()
        assert "G1" in reported, f"G1 lost: {state}"


if __name__ == "__main__":
    which = sys.argv[1] if len(sys.argv) > 1 else "docker"
    {"docker": docker_flag_window, "glue": glue_in_transit_window}[which]()
    print("OK (no job lost)")
