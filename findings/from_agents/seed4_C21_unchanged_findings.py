"""
Reproduces C21 violations that exist in the UNCHANGED code (independent of the seeded patch).
Prints recorded (position, key, value, upstream task names) per argument; see notes.md.
"""
import os
import sys

sys.path.insert(0, os.path.dirname(os.path.dirname(os.path.abspath(__file__))))

from redun import Scheduler, catch, task  # noqa: E402
from redun.backends.db import CallNode  # noqa: E402
from redun.functools import map_  # noqa: E402
from redun.scheduler import catch_all  # noqa: E402


def ups(session, task_name):
    out = []
    for node in session.query(CallNode).filter(CallNode.task_name == task_name):
        for arg in node.arguments:
            out.append(
                (arg.arg_position, arg.arg_key, arg.value_parsed,
                 sorted(u.task_name for u in arg.upstream))
            )
    return out


def fresh():
    s = Scheduler()
    s.load()
    return s


@task(namespace="f")
def t1(x):
    if x:
        raise ValueError("BOOM")
    return x

@task(namespace="f")
def t2(x):
    return x

@task(namespace="f")
def t3(x):
    return x

@task(namespace="f")
def recover(e):
    return "rec"

@task(namespace="f")
def mainA():
    return t2(catch(t1(False), ValueError, recover))

@task(namespace="f")
def mainB():
    return t3(catch(t1(False), ValueError, recover))

# 1. catch() served from its own cache entry: the cached copy of `expr` is evaluated, the original
#    `expr` inside sexpr._upstreams never gets a call_hash -> t3's argument has no upstream.
s = fresh()
s.run(mainA())
s.run(mainB())
print("1 catch cached :", ups(s.backend.session, "f.t2"), ups(s.backend.session, "f.t3"))

@task(namespace="f")
def div(d):
    return 1.0 / d

@task(namespace="f")
def rec_all(vals):
    return "recall"

@task(namespace="f")
def mainC():
    return t2(catch_all([div(1), div(0)], ZeroDivisionError, rec_all))

# 2. catch_all() with recover: downstream arg is linked to the div calls but not to rec_all (which
#    produced the value); rec_all's own argument has no upstream at all.
s = fresh()
s.run(mainC())
print("2 catch_all    :", ups(s.backend.session, "f.t2"), ups(s.backend.session, "f.rec_all"))

@task(namespace="f")
def g(x):
    return x + 1

@task(namespace="f")
def f():
    return g

@task(namespace="f")
def mainD():
    return t2(f()(3))

# 3. lazy `call` operator: value produced by g(3), only f is linked.
s = fresh()
s.run(mainD())
print("3 lazy call    :", ups(s.backend.session, "f.t2"))

@task(namespace="f")
def h(x=g(10)):
    return x

@task(namespace="f")
def mainE():
    return h()

# 4. default parameter that is an expression: recorded as kwarg x=11 but without upstream g.
s = fresh()
s.run(mainE())
print("4 default expr :", ups(s.backend.session, "f.h"))

@task(namespace="f")
def mainF():
    return t2(map_(g, [1, 2]))

# 5. map_(): the g(...) calls are created inside the scheduler task and never linked.
s = fresh()
s.run(mainF())
print("5 map_         :", ups(s.backend.session, "f.t2"))
