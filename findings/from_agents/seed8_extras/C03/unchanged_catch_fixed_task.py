import os, sys
sys.path.insert(0, os.path.dirname(os.path.dirname(os.path.abspath(__file__))))
from redun import task, Scheduler
from redun.scheduler import catch
redun_namespace = "probe"
scheduler = Scheduler(); scheduler.load()
calls = []
@task
def boom(x):
    raise ValueError("boom")
@task
def recover(err):
    return -1
@task
def main(x):
    return catch(boom(x), ValueError, recover)
print(scheduler.run(main(1)))
@task
def boom(x):
    return x + 100
print(scheduler.run(main(1)))
