import os, sys, time
sys.path.insert(0, os.path.dirname(os.path.dirname(os.path.abspath(__file__))))
from redun import task, Scheduler
from redun.scheduler import fork_thread, join_thread
redun_namespace = "probe"

scheduler = Scheduler()
scheduler.load()
calls = []
wait = [True]

@task
def double(x):
    while wait[0]:
        time.sleep(0.01)
    calls.append("double1")
    return 2 * x

@task
def make_thread(x):
    return fork_thread(double(x))

@task
def take_thread(thread):
    wait[0] = False
    return join_thread(thread)

@task(check_valid="shallow")
def main():
    thread = make_thread(10)
    return take_thread(thread)

assert scheduler.run(main()) == 20
print(calls)
assert scheduler.run(main()) == 20
print(calls)

@task
def double(x):
    calls.append("double2")
    return 3 * x

res = scheduler.run(main())
print(res, calls)
assert res == 30, res
