import sys
import os; sys.path.insert(0, os.path.dirname(os.path.dirname(os.path.abspath(__file__))))
from redun import Scheduler, task
from redun.context import get_context
redun_namespace = "crashdemo"
calls = []

@task
def add(a, b, offset=get_context("offset", 0)):
    calls.append(offset)
    return a + b + offset

@task(check_valid="shallow")
def foo():
    return add(1, 2)

s = Scheduler(); s.load()
orig = s.backend.record_call_node_context
class Crash(BaseException): pass
state = {"n": 0}
def crashing(call_hash, context_hash, context):
    state["n"] += 1
    # add() job resolves first (n==1); crash when foo's context tag is about to be written (n==2).
    if state["n"] == 2:
        raise Crash("killed after record_call_node, before context tag")
    return orig(call_hash, context_hash, context)
s.backend.record_call_node_context = crashing
try:
    s.run(foo.update_context(offset=5)())
except BaseException as e:
    print("crashed:", type(e).__name__, e)
s.backend.record_call_node_context = orig
print("calls after crash", calls)
r = s.run(foo())
print("plain foo() ->", r, "calls", calls)
