import sys, os, time
sys.path.insert(0, os.path.dirname(os.path.dirname(os.path.abspath(__file__))))
from redun import Scheduler, task, Handle
from redun.scheduler import catch
from redun.backends.db import CallNode, Argument

DELAY = {}

class H(Handle):
    def __init__(self, name, *a, **k):
        pass

def graph(scheduler):
    s = scheduler.backend.session
    nodes = sorted((c.task_name, c.call_hash) for c in s.query(CallNode).all())
    args = sorted((a.call_hash, str(a.arg_position), str(a.arg_key), a.value_hash) for a in s.query(Argument).all())
    return nodes, args

@task(namespace="ex2")
def wait(i):
    time.sleep(DELAY[i])
    return i

@task(namespace="ex2")
def use(h, x):
    return h

@task(namespace="ex2")
def main_handle():
    h = H("conn")
    return [use(h, wait(1)), use(h, wait(2))]

@task(namespace="ex2")
def boom(i):
    time.sleep(DELAY[i])
    raise ValueError("boom")

@task(namespace="ex2")
def inner():
    return [wait(1), boom(2)]

@task(namespace="ex2")
def recover(err):
    return "recovered"

@task(namespace="ex2")
def main_catch():
    return catch(inner(), ValueError, recover)

def run(expr_fn, delays):
    DELAY.clear(); DELAY.update(delays)
    scheduler = Scheduler(); scheduler.load()
    res = scheduler.run(expr_fn())
    time.sleep(0.5)
    return res, graph(scheduler)

for fn in (main_handle, main_catch):
    a = run(fn, {1: 0.0, 2: 0.4})
    b = run(fn, {1: 0.4, 2: 0.0})
    ra = [getattr(r, 'get_hash', lambda: r)() for r in a[0]] if isinstance(a[0], list) else a[0]
    rb = [getattr(r, 'get_hash', lambda: r)() for r in b[0]] if isinstance(b[0], list) else b[0]
    print("RESULT", fn.name, ra, rb, "same_result", ra == rb, "same_nodes", a[1][0] == b[1][0], "same_args", a[1][1] == b[1][1])
    if a[1][0] != b[1][0]:
        print("  only in A:", set(a[1][0]) - set(b[1][0])); print("  only in B:", set(b[1][0]) - set(a[1][0]))
