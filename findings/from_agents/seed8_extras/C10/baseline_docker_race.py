import sys, threading, time, tempfile
import os; sys.path.insert(0, os.path.dirname(os.path.dirname(os.path.abspath(__file__))))
from unittest.mock import patch
from redun import Scheduler, task
from redun.config import Config
from redun.executors import docker
from redun.executors.docker import DockerExecutor
from redun.scheduler import Job

@task(namespace="c10")
def t(x): return x

sched = Scheduler(); sched.load()
reported = []
sched.done_job = lambda job, result, job_tags=[]: reported.append(job.id)
sched.reject_job = lambda job, error, error_traceback=None, job_tags=[]: reported.append((job, error))

with tempfile.TemporaryDirectory() as d:
    ex = DockerExecutor("docker", sched, Config({"docker": {"image": "i", "scratch": d, "job_monitor_interval": 0.02}})["docker"])
    at_exit, resume = threading.Event(), threading.Event()
    orig_log = ex.log
    def log(*a, **k):
        if a and "Shutting down" in str(a[0]):
            at_exit.set(); resume.wait(5)   # monitor has left its loop, flag not yet cleared
        return orig_log(*a, **k)
    ex.log = log
    # fake docker: every container is finished and succeeded
    fake_status = lambda prefix, jobs: iter([{"jobId": i, "status": "SUCCEEDED", "logs": ""} for i in jobs])
    n = [0]
    def fake_submit_task(*a, **k):
        n[0] += 1; return {"jobId": f"c{n[0]}"}
    with patch.object(docker, "iter_job_status", fake_status), patch.object(docker, "submit_task", fake_submit_task), \
         patch.object(docker, "parse_job_result", lambda p, j: (1, True)):
        j1, j2 = Job(t, t(1)), Job(t, t(2))
        for j in (j1, j2): j.args = ((1,), {}); j.eval_hash = j.id
        ex._code_package = False
        ex.submit(j1)
        assert at_exit.wait(5)            # j1 done, monitor decided to exit
        ex.submit(j2)                     # _start(): _is_running still True -> no new thread
        resume.set()
        time.sleep(1.0)
        print("reported:", reported == [j1.id, j2.id], "pending:", list(ex._pending_jobs), "monitor alive:", ex._thread.is_alive())
        ex.stop()
