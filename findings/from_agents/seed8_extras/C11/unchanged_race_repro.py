import os, sys, threading, time
sys.path.insert(0, "/tmp/seed8_C11")
sys.setswitchinterval(1e-6)
from redun import task
from redun.job_array import JobArrayer
from redun.scheduler import Job

@task()
def t(x): return x

def mk(i):
    j = Job(t, t(i)); j.args=((i,),{}); return j

hits = 0
for trial in range(300):
    errors=[]; batches=[]
    arr = JobArrayer(batches.append, errors.append, submit_interval=0.01, stale_time=0.02, min_array_size=2)
    bar = threading.Barrier(4)
    def w(i):
        j = mk(i)
        bar.wait()
        arr.add_job(j)
    ths=[threading.Thread(target=w,args=(i,)) for i in range(4)]
    [x.start() for x in ths]; [x.join() for x in ths]
    mons=[x for x in threading.enumerate() if x._target == arr._monitor_stale_jobs]
    time.sleep(0.08)
    if len(mons)>1 or errors:
        hits+=1
        print(trial, "monitors", len(mons), "errors", errors, "num_pending", arr.num_pending)
    arr._exit_flag.set()
    for m in mons: m.join()
print("hits", hits)
