import os
import sys
import tempfile

sys.path.insert(0, os.path.dirname(os.path.dirname(os.path.abspath(__file__))))

import sqlalchemy as sa
from sqlalchemy.orm import Session

from redun import File, Scheduler, task
from redun.backends.db import RedunBackendDb
from redun.config import Config


class Crash(BaseException):
    pass


state = {"n": 0, "at": None, "when": "before", "dead": False}
orig_commit = Session.commit


def commit(self):
    if state["dead"]:
        raise Crash()
    state["n"] += 1
    if state["at"] == state["n"]:
        if state["when"] == "before":
            state["dead"] = True
            raise Crash()
        else:
            orig_commit(self)
            state["dead"] = True
            raise Crash()
    return orig_commit(self)


Session.commit = commit


def make_tasks(edit=False, ns="w"):
    if edit:

        @task(namespace=ns, name="leaf")
        def leaf(x):
            return x + 10

    else:

        @task(namespace=ns, name="leaf")
        def leaf(x):
            return x + 1

    @task(namespace=ns, name="pair")
    def pair(a, b):
        return [a, b, {"k": a}]

    @task(namespace=ns, name="mid")
    def mid(x):
        return pair(leaf(x), leaf(x + 1))

    @task(namespace=ns, name="wfile")
    def wfile(path, y):
        f = File(path)
        f.write(str(y))
        return f

    @task(namespace=ns, name="main")
    def main(path, x=1):
        m = mid(x)
        return [m, wfile(path, leaf(x)), leaf(x)]

    return main


def new_sched(dbpath):
    sched = Scheduler(backend=RedunBackendDb(db_uri="sqlite:///" + dbpath))
    sched.load()
    return sched


def norm(r):
    return repr(
        [r[0], r[1].path if r[1] is not None else None, open(r[1].path).read(), r[2]]
    )


def consistency(dbpath):
    eng = sa.create_engine("sqlite:///" + dbpath)
    problems = []
    with eng.connect() as c:
        rows = c.execute(sa.text("PRAGMA foreign_key_check")).fetchall()
        if rows:
            problems.append(("fk", rows))
        q = {
            "task value w/o task row": "select value_hash from value where type='redun.Task' and value_hash not in (select hash from task)",
            "file value w/o file row": "select value_hash from value where type='redun.File' and value_hash not in (select value_hash from file)",
            "callnode w/o subtree": "select call_hash from call_node where call_hash not in (select call_hash from call_subtree_task)",
            "callnode w/o args": "select call_hash from call_node where call_hash not in (select call_hash from argument)",
            "job w/o end with callhash": "select id from job where end_time is null and call_hash is not null",
        }
        for k, sql in q.items():
            rows = c.execute(sa.text(sql)).fetchall()
            if rows:
                problems.append((k, rows))
    eng.dispose()
    return problems


def run_case(at, when, edit):
    tmp = tempfile.mkdtemp()
    dbpath = os.path.join(tmp, "redun.db")
    path = os.path.join(tmp, "out.txt")
    state.update(n=0, at=None, dead=False)
    sched = new_sched(dbpath)
    base = state["n"]
    state.update(at=base + at, when=when)
    crashed = False
    try:
        sched.run(make_tasks()(path))
    except Crash:
        crashed = True
    except BaseException as e:
        crashed = True
        print("  other exc", type(e), e)
    total = state["n"] - base
    state.update(at=None, dead=False)
    try:
        sched.backend.session.rollback()
    except Exception:
        pass
    sched.backend.engine.dispose()
    if not crashed:
        return None
    probs_after_crash = consistency(dbpath)
    # recovery
    sched2 = new_sched(dbpath)
    try:
        r = norm(sched2.run(make_tasks(edit)(path)))
    except BaseException as e:
        r = "EXC %r" % (e,)
    sched2.backend.engine.dispose()
    probs = consistency(dbpath)
    # third run: should be all cached and same
    sched3 = new_sched(dbpath)
    try:
        r3 = norm(sched3.run(make_tasks(edit)(path)))
    except BaseException as e:
        r3 = "EXC %r" % (e,)
    sched3.backend.engine.dispose()
    # reference
    tmp2 = tempfile.mkdtemp()
    path2 = os.path.join(tmp2, "out.txt")
    schedr = new_sched(os.path.join(tmp2, "redun.db"))
    ref = norm(schedr.run(make_tasks(edit)(path2))).replace(path2, path)
    schedr.backend.engine.dispose()
    return r, r3, ref, probs_after_crash, probs


if __name__ == "__main__":
    import logging

    logging.disable(logging.CRITICAL)
    at = 1
    while True:
        done = False
        for when in ("before", "after"):
            for edit in (False, True):
                res = run_case(at, when, edit)
                if res is None:
                    done = True
                    break
                r, r3, ref, p0, p = res
                flag = "OK" if (r == ref and r3 == ref and not p) else "BAD"
                print(at, when, edit, flag, "" if flag == "OK" else (r, r3, ref, p0, p))
            if done:
                break
        if done:
            break
        at += 1
    print("total commits", at - 1)
