import os, sys
sys.path.insert(0, os.path.dirname(os.path.dirname(os.path.abspath(__file__))))
from redun import Scheduler, task
from redun.backends.db import Execution, Job, CallNode

def scenario(transfer):
    src=Scheduler(); src.load()
    @task(version="1")
    def child(x): return x+1
    @task()
    def main(x): return child(x)
    @task(check_valid="shallow")
    def wrapper(x): return child(x)
    assert src.run(main(1))==2
    s=src.backend.session
    root_job_id = s.query(Execution).one().job_id
    if transfer:
        dest=Scheduler(); dest.load()
        roots=[i for (i,) in s.query(Execution.id)]
        dest.backend.put_records(src.backend.get_records(src.backend.iter_record_ids(roots)))
    else:
        dest=src
    r = dest.extend_run(wrapper(1), parent_job_id=root_job_id)
    print("extend_run result", r)
    cn = dest.backend.session.query(CallNode).filter_by(task_name="wrapper").one()
    print("wrapper subtree size", len(dest.backend.get_subtree_tasks(cn.call_hash)))
    @task(version="2")
    def child(x): return x+100
    return dest.run(wrapper(1))

a = scenario(False)
b = scenario(True)
print("source-only:", a, " after transfer:", b)
