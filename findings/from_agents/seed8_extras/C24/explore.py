import sys, os, random, json
sys.path.insert(0, os.path.dirname(os.path.dirname(os.path.abspath(__file__))))
from redun import Scheduler
from redun.backends.db import Tag, TagEdit
from redun.backends.base import TagEntity

VALUES = [1, 2, "a", "1", None, True, [1, 2], {"a": 1, "b": 2}, {"b": 2, "a": 1}, 1.5, ""]
KEYS = ["k", "j"]

def norm(v):
    return json.dumps(v, sort_keys=True)

def current(backend, eid):
    rows = backend.session.query(Tag).filter(Tag.entity_id == eid, Tag.is_current.is_(True)).all()
    return sorted({(t.key, norm(t.value)) for t in rows})

def acyclic(backend):
    edges = [(e.parent_id, e.child_id) for e in backend.session.query(TagEdit).all()]
    from collections import defaultdict
    g = defaultdict(list)
    for p, c in edges:
        g[p].append(c)
    state = {}
    def dfs(n):
        state[n] = 1
        for m in g[n]:
            if state.get(m) == 1:
                return False
            if m not in state and not dfs(m):
                return False
        state[n] = 2
        return True
    return all(dfs(n) for n in list(g) if n not in state)

def run(seed, nops=12, values=VALUES):
    rng = random.Random(seed)
    s = Scheduler(); s.load()
    b = s.backend
    ents = [b.record_value(100), b.record_value(200)]
    model = {e: set() for e in ents}
    hist = []
    for _ in range(nops):
        e = rng.choice(ents)
        op = rng.choice(["add", "update", "delete"])
        n = rng.choice([1, 1, 2, 3])
        pairs = [(rng.choice(KEYS), rng.choice(values)) for _ in range(n)]
        if op == "add":
            b.record_tags(TagEntity.Value, e, pairs, new=True)
            model[e] |= {(k, norm(v)) for k, v in pairs}
            hist.append((op, ents.index(e), pairs))
        elif op == "update":
            b.record_tags(TagEntity.Value, e, pairs, update=True)
            ks = {k for k, _ in pairs}
            model[e] = {(k, v) for k, v in model[e] if k not in ks} | {(k, norm(v)) for k, v in pairs}
            hist.append((op, ents.index(e), pairs))
        else:
            keys = [k for k, _ in pairs[:1]] if rng.random() < 0.3 else []
            kv = pairs[1:] if keys else pairs
            b.delete_tags(e, kv, keys)
            model[e] = {(k, v) for k, v in model[e] if k not in keys and (k, v) not in {(k2, norm(v2)) for k2, v2 in kv}}
            hist.append((op, ents.index(e), kv, keys))
        for ee in ents:
            if current(b, ee) != sorted(model[ee]):
                return hist, ents.index(ee), current(b, ee), sorted(model[ee])
        if not acyclic(b):
            return hist, "cycle"
    return None

if __name__ == "__main__":
    vals = VALUES if len(sys.argv) < 3 else json.loads(sys.argv[2])
    bad = 0
    for seed in range(int(sys.argv[1])):
        r = run(seed, values=vals)
        if r:
            bad += 1
            if bad <= 5:
                print(seed, r)
    print("bad", bad)
