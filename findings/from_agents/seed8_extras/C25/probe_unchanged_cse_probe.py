import os, sys
sys.path.insert(0, os.path.dirname(os.path.dirname(os.path.abspath(__file__))))
from redun import Handle, Scheduler, task
redun_namespace = "cse_probe"

class DbHandle(Handle):
    def __init__(self, name, db_file):
        self.db_file = db_file

calls = []

@task()
def w1(conn, x):
    calls.append("w1")
    return conn

@task()
def w2(conn, x):
    calls.append("w2")
    return conn

@task()
def after(dep):
    return 0

@task()
def main():
    conn = DbHandle("conn", "data.db")
    a = w1(conn.fork("x"), 0)
    b = w2(conn.fork("x"), after(a))
    c = w1(conn.fork("x"), after(b))
    return [a, b, c]

s = Scheduler(); s.load()
a, b, c = s.run(main())
print("calls", calls)
print("a==c hash", a.get_hash() == c.get_hash())
print("valid a,b,c:", [bool(s.backend.is_valid_handle(h)) for h in (a, b, c)])
