import os, sys, pickle
sys.path.insert(0, os.path.dirname(os.path.dirname(os.path.abspath(__file__))))
from redun import Handle, Scheduler, task
from redun.backends.db import HandleEdge
redun_namespace = "fork_probe"

class DbHandle(Handle):
    def __init__(self, name, db_file):
        self.db_file = db_file

def build(mode, version):
    @task(name="inner", namespace="fork_probe", version=version)
    def inner(conn):
        out = conn.fork("k")
        if mode == "pickled":
            # What any out-of-process executor does with the task result.
            out = pickle.loads(pickle.dumps(out))
        return out
    return inner

for mode in ("inproc", "pickled"):
    s = Scheduler(); s.load()
    conn = DbHandle("conn", "data.db")
    out1 = s.run(build(mode, "1")(conn))
    out2 = s.run(build(mode, "2")(conn))
    n_edges = s.backend.session.query(HandleEdge).count()
    print(mode, "edges", n_edges, "out1 valid after edit:", bool(s.backend.is_valid_handle(out1)), "out2 valid:", bool(s.backend.is_valid_handle(out2)))
