import sys, os, pickle
sys.path.insert(0, os.path.dirname(os.path.dirname(os.path.abspath(__file__))))
from sqlalchemy import text, inspect
from redun.backends.db import RedunBackendDb, REDUN_DB_VERSIONS


def h(s):
    import hashlib
    return hashlib.sha1(s.encode()).hexdigest()


def populate(b, n_exec=3):
    s = b.session
    insp = inspect(b.engine)
    tables = set(insp.get_table_names())
    jobcols = {c["name"] for c in insp.get_columns("job")}
    ex = lambda sql, **kw: s.execute(text(sql), kw)
    # tasks: t0 has a value row, t1 lonely
    for i in range(3):
        ex("insert into task (hash,name,namespace,source) values (:h,:n,:ns,:src)", h=h(f"task{i}"), n=f"task{i}", ns="ns" if i else "", src=f"def task{i}(): pass")
    ex("insert into value (value_hash,type,format,value) values (:h,'redun.Task','application/python-pickle',:v)", h=h("task0"), v=b"ORIGINAL-TASK-BLOB")
    for i in range(6):
        ex("insert into value (value_hash,type,format,value) values (:h,'builtins.int','application/python-pickle',:v)", h=h(f"val{i}"), v=pickle.dumps(i))
    ex("insert into subvalue (value_hash,parent_value_hash) values (:a,:b)", a=h("val1"), b=h("val0"))
    ex("insert into file (value_hash,path) values (:a,'/tmp/x')", a=h("val2"))
    ex("insert into handle (hash,fullname,value_hash,key,is_valid) values (:a,'H',:v,'k',1)", a=h("h0"), v=h("val3"))
    ex("insert into handle (hash,fullname,value_hash,key,is_valid) values (:a,'H',:v,'k',0)", a=h("h1"), v=h("val3"))
    ex("insert into handle_edge (parent_id,child_id) values (:a,:b)", a=h("h0"), b=h("h1"))
    for i in range(4):
        ex("insert into call_node (call_hash,task_name,task_hash,args_hash,value_hash,timestamp) values (:c,:tn,:t,:a,:v,:ts)",
           c=h(f"call{i}"), tn=f"task{i%3}", t=h(f"task{i%3}"), a=h(f"args{i}"), v=h(f"val{i}"), ts=f"2021-0{i+1}-15 12:34:56.123456")
    ex("insert into call_edge (parent_id,child_id,call_order) values (:a,:b,0)", a=h("call0"), b=h("call1"))
    ex("insert into call_subtree_task (call_hash,task_hash) values (:a,:b)", a=h("call0"), b=h("task1"))
    ex("insert into argument (arg_hash,call_hash,value_hash,arg_position,arg_key) values (:a,:c,:v,0,null)", a=h("arg0"), c=h("call1"), v=h("val4"))
    ex("insert into argument_result (arg_hash,result_call_hash) values (:a,:c)", a=h("arg0"), c=h("call2"))
    if "evaluation" in tables:
        ex("insert into evaluation (eval_hash,task_hash,args_hash,value_hash) values (:e,:t,:a,:v)", e=h("eval0"), t=h("task0"), a=h("args0"), v=h("val0"))
    # jobs: n_exec trees. tree k: root + 2 children + 1 grandchild.
    for k in range(n_exec):
        ids = [f"job{k}-{j}" for j in range(4)]
        parents = [None, ids[0], ids[0], ids[1]]
        eid = f"exec{k}"
        for j, (jid, pid) in enumerate(zip(ids, parents)):
            cols = dict(id=jid, start_time=f"2021-07-0{k+1} 10:00:0{j}.654321", end_time=None if j == 3 else f"2021-07-0{k+1} 11:00:0{j}.000001",
                        task_hash=h(f"task{j%3}"), cached=j % 2, call_hash=h(f"call{j}") if j != 3 else None, parent_id=pid)
            if "execution_id" in jobcols:
                nullable = [c for c in insp.get_columns("job") if c["name"] == "execution_id"][0]["nullable"]
                cols["execution_id"] = eid if (k != 1 or not nullable) else None  # tree 1 recorded before the column existed
            names = ",".join(cols)
            ex(f"insert into job ({names}) values ({','.join(':'+c for c in cols)})", **cols)
        if k != 2 or "tag" in tables:
            # tree 2 has no execution row in old dbs
            ex("insert into execution (id,args,job_id) values (:i,:a,:j)", i=eid, a='["redun","run"]', j=ids[0])
    if "tag" in tables:
        ex("insert into tag (tag_hash,entity_type,entity_id,key,value,is_current) values (:h,'Job','job0-0','k','\"v\"',1)", h=h("tag0"))
        ex("insert into tag (tag_hash,entity_type,entity_id,key,value,is_current) values (:h,'Job','job0-0','k','\"w\"',0)", h=h("tag1"))
        ex("insert into tag_edit (parent_id,child_id) values (:a,:b)", a=h("tag1"), b=h("tag0"))
    s.commit()


def snapshot(b):
    insp = inspect(b.engine)
    snap = {}
    for t in insp.get_table_names():
        cols = [c["name"] for c in insp.get_columns(t)]
        rows = b.session.execute(text(f'select * from "{t}"')).fetchall()
        snap[t] = (cols, [dict(zip(cols, r)) for r in rows])
    b.session.rollback()
    return snap


def diff(before, after, ignore=()):
    problems = []
    for t, (cols, rows) in before.items():
        if t in ("alembic_version", "redun_version"):
            continue
        if t not in after:
            continue
        acols, arows = after[t]
        shared = [c for c in cols if c in acols and (t, c) not in ignore]
        def key(r):
            return tuple(repr(r[c]) for c in shared)
        a = sorted(key(r) for r in arows)
        for r in rows:
            if key(r) not in a:
                problems.append((t, {c: r[c] for c in shared}))
    return problems


if __name__ == "__main__":
    for v in REDUN_DB_VERSIONS[:-1]:
        import tempfile
        d = tempfile.mkdtemp()
        uri = f"sqlite:///{d}/redun.db"
        b = RedunBackendDb(db_uri=uri)
        b.create_engine()
        b.migrate(v)
        populate(b)
        before = snapshot(b)
        b.session.close(); b.engine.dispose()
        b = RedunBackendDb(db_uri=uri)
        try:
            b.load()
        except Exception as e:
            print(v.major, v.minor, "UPGRADE FAILED", type(e).__name__, str(e)[:300])
            continue
        after = snapshot(b)
        probs = diff(before, after)
        probs2 = diff(before, after, ignore={("job","start_time"),("job","end_time"),("job","execution_id")})
        print(v.major, v.minor, "problems:", len(probs), "ignoring job times/execution_id:", len(probs2))
        probs = probs2
        print("   job sample after:", after["job"][1][0], "ok" if b.is_db_compatible() else "INCOMPAT")
        for p in probs[:6]:
            print("    ", p)
