import os, sys, tempfile
ROOT = os.path.dirname(os.path.dirname(os.path.dirname(os.path.abspath(__file__))))
sys.path.insert(0, ROOT)
from redun import task, Scheduler
from redun.config import Config
from redun.scheduler import subrun

redun_namespace = "explore4"

def define(version, delta):
    @task(name="foo", version=version)
    def foo(x):
        return x + delta
    return foo

@task(version="1")
def main_direct(x):
    return define.foo(x)

@task(version="1")
def main_sub(x, new_execution=False):
    return subrun(define.foo(x), executor="default", new_execution=new_execution)

def mk():
    d = tempfile.mkdtemp()
    cfg = {"backend": {"db_uri": f"sqlite:///{d}/redun.db"}}
    s = Scheduler(config=Config(config_dict=cfg))
    s.load()
    return s

for label, mkexpr in [("direct", lambda: main_direct(1)), ("sub-extend", lambda: main_sub(1)), ("sub-new", lambda: main_sub(1, True))]:
    s = mk()
    define.foo = define("1", 1)
    r1 = s.run(mkexpr())
    define.foo = define("2", 100)
    r2 = s.run(mkexpr())
    print(label, r1, r2)
