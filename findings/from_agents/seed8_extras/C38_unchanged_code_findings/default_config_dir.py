import os, sys, tempfile
ROOT = os.path.dirname(os.path.dirname(os.path.dirname(os.path.abspath(__file__))))
sys.path.insert(0, ROOT)
from redun import task
from redun.cli import setup_scheduler
from redun.scheduler import subrun

redun_namespace = "explore3"

@task(version="1")
def foo(x):
    return x + 1

@task(version="1")
def main_sub(x, new_execution=False):
    return subrun(foo(x), executor="default", new_execution=new_execution)

d = tempfile.mkdtemp()
os.chdir(d)
s = setup_scheduler()
print("config", s.config.get_config_dict())
print("fwd", s.config.get_config_dict(replace_config_dir="."))
try:
    print("extend ->", s.run(main_sub(1)))
except Exception as e:
    print("extend error", type(e).__name__, e)
print(os.listdir(d), os.listdir(os.path.join(d, ".redun")))
