import os, sys, tempfile
sys.path.insert(0, os.path.dirname(os.path.dirname(os.path.dirname(os.path.abspath(__file__)))))
from redun import task, Scheduler
from redun.config import Config
from redun.scheduler import subrun

redun_namespace = "explore1"
state = {"fail": True, "calls": 0}

@task(version="1")
def flaky(x):
    state["calls"] += 1
    if state["fail"]:
        raise ValueError("BOOM")
    return x + 1

@task(version="1")
def main_direct(x):
    return flaky(x)

@task(version="1")
def main_sub(x, new_execution=False):
    return subrun(flaky(x), executor="default", new_execution=new_execution)

def mk():
    d = tempfile.mkdtemp()
    cfg = {"backend": {"db_uri": f"sqlite:///{d}/redun.db"}}
    s = Scheduler(config=Config(config_dict=cfg))
    s.load()
    return s

for label, mkexpr in [("direct", lambda: main_direct(1)), ("sub-extend", lambda: main_sub(1)), ("sub-new", lambda: main_sub(1, True))]:
    s = mk()
    state.update(fail=True, calls=0)
    try:
        s.run(mkexpr())
    except ValueError as e:
        print(label, "first run error", e)
    state["fail"] = False
    try:
        print(label, "second run ->", s.run(mkexpr()), "calls", state["calls"])
    except ValueError as e:
        print(label, "second run error", e, "calls", state["calls"])
