import os, sys, tempfile, threading
sys.path.insert(0, os.path.dirname(os.path.dirname(os.path.dirname(os.path.abspath(__file__)))))
from redun import task, Scheduler
from redun.config import Config
from redun.scheduler import subrun

redun_namespace = "explore2"

class Unpicklable(Exception):
    def __init__(self, msg):
        super().__init__(msg)
        self.lock = threading.Lock()

@task(version="1")
def bad(x):
    raise Unpicklable("BOOM")

@task(version="1")
def main_direct(x):
    return bad(x)

@task(version="1")
def main_sub(x, new_execution=False):
    return subrun(bad(x), executor="default", new_execution=new_execution)

def mk():
    d = tempfile.mkdtemp()
    cfg = {"backend": {"db_uri": f"sqlite:///{d}/redun.db"}}
    s = Scheduler(config=Config(config_dict=cfg))
    s.load()
    return s

for label, mkexpr in [("direct", lambda: main_direct(1)), ("sub-extend", lambda: main_sub(1)), ("sub-new", lambda: main_sub(1, True))]:
    s = mk()
    try:
        s.run(mkexpr())
    except BaseException as e:
        print(label, "error", type(e).__name__, e)
