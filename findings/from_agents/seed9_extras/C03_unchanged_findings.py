"""
Probes of the UNCHANGED code (independent of the seeded change). Each probe prints whether a
shallow replay stayed stale after editing a task that ran beneath the shallow task.

Run:  cd /tmp/seed9_C03 && /venv/bin/python SEED/unchanged_findings.py
"""

import os
import sys

sys.path.insert(0, os.path.dirname(os.path.dirname(os.path.abspath(__file__))))

from redun import Scheduler, task  # noqa: E402
from redun.backends.db import CallNode, CallSubtreeTask  # noqa: E402
from redun.functools import no_prov  # noqa: E402
from redun.scheduler import catch, fork_thread, join_thread  # noqa: E402


def _in_subtree(scheduler: Scheduler, root_task, some_task) -> bool:
    """Is `some_task` a recorded subtree task of the (only) CallNode of `root_task`?"""
    session = scheduler.backend.session
    call_hashes = [
        call_hash
        for (call_hash,) in session.query(CallNode.call_hash).filter_by(task_hash=root_task.hash)
    ]
    assert len(call_hashes) == 1
    return (
        session.query(CallSubtreeTask)
        .filter_by(call_hash=call_hashes[0], task_hash=some_task.hash)
        .count()
        == 1
    )


def _scheduler() -> Scheduler:
    scheduler = Scheduler()
    scheduler.load()
    return scheduler


def probe_fork_thread() -> str:
    """A task started with fork_thread() outlives the job that forked it."""
    scheduler = _scheduler()

    @task(namespace="f1", version="1")
    def double(x):
        return 2 * x

    @task(namespace="f1")
    def make_thread(x):
        return fork_thread(double(x))

    @task(namespace="f1")
    def take_thread(thread):
        return join_thread(thread)

    @task(namespace="f1", check_valid="shallow")
    def main(x):
        return take_thread(make_thread(x))

    assert scheduler.run(main(10)) == 20
    recorded = _in_subtree(scheduler, main, double)

    @task(namespace="f1", version="2")  # noqa: F811
    def double(x):
        return 3 * x

    result = scheduler.run(main(10))
    return (
        f"fork_thread: double in main's recorded subtree tasks: {recorded}; "
        f"after editing double(): main(10) == {result} (expected 30)"
    )


def probe_failed_no_prov_child() -> str:
    """A failed prov=False job has no call_hash, so its parent drops it from its subtree tasks."""
    scheduler = _scheduler()

    @task(namespace="f2", version="1")
    def risky(x):
        raise ValueError("boom")

    @task(namespace="f2")
    def recover(error):
        return -1

    @task(namespace="f2")
    def guarded(x):
        return catch(risky(x), ValueError, recover)

    @task(namespace="f2", check_valid="shallow")
    def main(x):
        return no_prov(guarded(x))

    assert scheduler.run(main(1)) == -1
    recorded = _in_subtree(scheduler, main, risky)

    @task(namespace="f2", version="2")  # noqa: F811
    def risky(x):
        return x + 1

    result = scheduler.run(main(1))
    return (
        f"failed no-prov child: risky in main's recorded subtree tasks: {recorded}; "
        f"after editing risky(): main(1) == {result} (expected 2)"
    )


def probe_failed_child_control() -> str:
    """Control with provenance on: risky IS recorded; the stale -1 then comes from catch's own cache."""
    scheduler = _scheduler()

    @task(namespace="f3", version="1")
    def risky(x):
        raise ValueError("boom")

    @task(namespace="f3")
    def recover(error):
        return -1

    @task(namespace="f3")
    def guarded(x):
        return catch(risky(x), ValueError, recover)

    @task(namespace="f3", check_valid="shallow")
    def main(x):
        return guarded(x)

    assert scheduler.run(main(1)) == -1
    recorded = _in_subtree(scheduler, main, risky)

    @task(namespace="f3", version="2")  # noqa: F811
    def risky(x):
        return x + 1

    result = scheduler.run(main(1))
    return (
        f"control (prov on): risky in main's recorded subtree tasks: {recorded}; "
        f"after editing risky(): main(1) == {result} (expected 2)"
    )


if __name__ == "__main__":
    lines = [probe_fork_thread(), probe_failed_no_prov_child(), probe_failed_child_control()]
    print("\n".join(lines))
