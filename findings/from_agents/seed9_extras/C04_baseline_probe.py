import os, sys, tempfile, collections
sys.path.insert(0, os.path.dirname(os.path.dirname(os.path.abspath(__file__))))
from redun import Scheduler, task, File, Dir
from redun.file import ContentFile

tmp = tempfile.mkdtemp()
calls = collections.Counter()

@task(namespace="probe")
def od(path: str):
    calls["od"] += 1
    f = File(path); f.write("x" * (calls["od"]))
    return collections.OrderedDict(a=f)

@task(namespace="probe")
def mkdir(path: str):
    calls["dir"] += 1
    d = Dir(path)
    d.file("a.txt").write("a"); d.file(".hidden").write("h")
    return Dir(path)

@task(namespace="probe")
def mk(path: str):
    calls["mk"] += 1
    f = File(path); f.write("y" * calls["mk"])
    return f

s = Scheduler(); s.load()
p = os.path.join(tmp, "od.txt")
s.run(od(p)); os.remove(p); r = s.run(od(p))
print("OrderedDict: calls", calls["od"], "exists", os.path.exists(p))

dp = os.path.join(tmp, "d1")
s.run(mkdir(dp)); os.remove(os.path.join(dp, ".hidden")); s.run(mkdir(dp))
print("dotfile: calls", calls["dir"])
dp = os.path.join(tmp, "d[1]")
calls["dir"] = 0
s.run(mkdir(dp)); os.remove(os.path.join(dp, "a.txt")); s.run(mkdir(dp))
print("bracket dir: calls", calls["dir"])

p = os.path.join(tmp, "mk.txt")
try:
    s.run(mk(p), execution_id="E1"); os.remove(p); s.run(mk(p), execution_id="E1")
    print("same execution_id: calls", calls["mk"], "exists", os.path.exists(p))
except Exception as e:
    print("same execution_id raised", type(e), e)
