import os, sys, tempfile
sys.path.insert(0, os.path.dirname(os.path.dirname(os.path.abspath(__file__))))
from redun import task, Scheduler
from redun.scheduler import Config, subrun
from redun.backends.db import Execution, Job

redun_namespace = "explore1"
tmp = tempfile.mkdtemp()
os.chdir(tmp)
CONFIG = {"backend": {"db_uri": "sqlite:///redun.db"}, "executors.default": {"type": "local", "mode": "thread"}}

@task
def bar_fail(x):
    with open("calls.txt", "a") as f:
        f.write("x\n")
    raise ValueError("BOOM")

@task
def foo_fail(x):
    return {"r": bar_fail(x)}

@task
def local_main(x):
    return {"result": subrun(foo_fail(x), executor="default")}

for i in range(2):
    s = Scheduler(config=Config(config_dict=CONFIG))
    s.load()
    try:
        s.run(local_main(5))
    except ValueError as e:
        print("raised", e)
    print("calls", len(open("calls.txt").read().split()))
    for ex in s.backend.session.query(Execution).all():
        def walk(j, d=0):
            print("  "*d, j.task.name, j.status, j.cached)
            for c in j.child_jobs: walk(c, d+1)
        walk(ex.job)
