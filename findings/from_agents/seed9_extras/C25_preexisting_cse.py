import os, sys
sys.path.insert(0, os.path.dirname(os.path.dirname(os.path.abspath(__file__))))
from redun import Handle, Scheduler, task

calls = []

class Conn(Handle):
    def __init__(self, name, *a, **k):
        pass

h = Conn("xconn").fork("k")

@task(namespace="x")
def inc(c):
    calls.append("inc")
    return c

@task(namespace="x")
def dbl(c, dep):
    calls.append("dbl")
    return c

@task(namespace="x")
def late(dep):
    return inc(h)

@task(namespace="x")
def main():
    x = inc(h)
    y = dbl(h, x)
    z = late(y)
    return [x, y, z]

s = Scheduler(); s.load()
x, y, z = s.run(main())
print(calls)
print("x valid", s.backend.is_valid_handle(x), "y valid", s.backend.is_valid_handle(y), "z valid", s.backend.is_valid_handle(z), "z==x", z.get_hash()==x.get_hash())
