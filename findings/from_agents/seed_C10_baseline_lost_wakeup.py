"""
NOT the seeded defect: reproduces a lost wake-up that is already present in the
UNCHANGED code (fails with and without SEED/patch.diff).

DockerExecutor._monitor leaves its loop when nothing is pending, logs
"Shutting down executor..." and only then calls stop() which clears
`_is_running`.  A submission that lands in that window adds the job to
`_pending_jobs`, sees `_is_running == True` in `_start()` and therefore starts
no new monitor thread; the old one then exits.  The job is never reported.
The window is forced here by submitting from inside the monitor's log call.
"""

import os
import sys
import tempfile
import time
from unittest.mock import patch

sys.path.insert(0, os.path.dirname(os.path.dirname(os.path.abspath(__file__))))

from redun import task  # noqa: E402
from redun.config import Config  # noqa: E402
from redun.executors.docker import SUCCEEDED, DockerExecutor  # noqa: E402
from redun.scheduler import Job  # noqa: E402
from redun.tests.utils import mock_scheduler  # noqa: E402

redun_namespace = "seed_c10_baseline"


@task()
def t(x: int) -> int:
    return x


def make_job(i):
    job = Job(t, t(i))
    job.id = "job_%d" % i
    job.eval_hash = "eval_hash_%d" % i
    job.args = ((i,), {})
    return job


def test_submission_while_monitor_is_shutting_down() -> None:
    scheduler = mock_scheduler()
    with tempfile.TemporaryDirectory() as tmp:
        config = Config(
            {"docker": {"image": "img", "scratch": tmp, "job_monitor_interval": 0.01,
                        "code_package": False}}
        )
        executor = DockerExecutor("docker", scheduler, config["docker"])
        counter = [0]

        def fake_submit_task(image, scratch, job, a_task, **kw):
            counter[0] += 1
            return {"jobId": "container-%d" % counter[0], "redun_job_id": job.id}

        def fake_iter_job_status(scratch, job_id2job):
            for job_id in job_id2job:
                yield {"jobId": job_id, "status": SUCCEEDED, "logs": ""}

        job2 = make_job(2)
        orig_log = executor.log
        injected = []

        def log_hook(*args, **kwargs):
            # Runs on the monitor thread between loop exit and stop().
            if args and "Shutting down executor" in str(args[0]) and not injected:
                injected.append(True)
                executor.submit(job2)  # models the scheduler thread submitting right now
            return orig_log(*args, **kwargs)

        executor.log = log_hook
        with (
            patch("redun.executors.docker.submit_task", fake_submit_task),
            patch("redun.executors.docker.iter_job_status", fake_iter_job_status),
            patch("redun.executors.docker.parse_job_result", lambda s, j: (j.args[0][0], True)),
        ):
            executor.submit(make_job(1))
            deadline = time.time() + 3
            while time.time() < deadline and "job_2" not in scheduler.job_results:
                time.sleep(0.02)
            try:
                assert injected, "hook never fired"
                assert "job_1" in scheduler.job_results
                assert "job_2" in scheduler.job_results, (
                    "job_2 was submitted but never reported; is_running=%s thread_alive=%s pending=%s"
                    % (executor._is_running, executor._thread.is_alive(), list(executor._pending_jobs))
                )
            finally:
                executor.stop()


if __name__ == "__main__":
    test_submission_while_monitor_is_shutting_down()
    print("OK")
