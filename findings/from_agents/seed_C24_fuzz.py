import os, sys, random, json, itertools
sys.path.insert(0, os.path.dirname(os.path.dirname(os.path.abspath(__file__))))
from collections import Counter
from redun import Scheduler
from redun.backends.db import Tag, TagEdit
from redun.backends.base import TagEntity

VALUES = [1, "1", "a", True, [1], {"a": 1}, 2, 1.5, 0, False, "", 1.0, "true", "null", [], {}]
KEYS = ["k", "j"]

def jd(v): return json.dumps(v, sort_keys=True)

def current(backend, eids):
    rows = backend.session.query(Tag).filter(Tag.is_current.is_(True), Tag.entity_id.in_(eids)).all()
    return {e: Counter((t.key, jd(t.value)) for t in rows if t.entity_id == e) for e in eids}

def acyclic(backend):
    edges = [(e.parent_id, e.child_id) for e in backend.session.query(TagEdit).all()]
    from graphlib import TopologicalSorter
    ts = TopologicalSorter()
    for p, c in edges: ts.add(c, p)
    list(ts.static_order())

def run(seed, nvals, steps=12):
    rng = random.Random(seed)
    vals = rng.sample(VALUES, nvals)
    s = Scheduler(); s.load(); b = s.backend
    eids = [b.record_value(100), b.record_value(200)]
    model = {e: set() for e in eids}
    hist = []
    for _ in range(steps):
        e = rng.choice(eids); op = rng.choice(["add", "update", "rm", "rmkey"])
        n = rng.choice([1, 1, 2])
        kvs = [(rng.choice(KEYS), rng.choice(vals)) for _ in range(n)]
        if len({(k, jd(v)) for k, v in kvs}) < len(kvs): kvs = kvs[:1]
        hist.append((eids.index(e), op, kvs))
        if op == "add":
            b.record_tags(TagEntity.Value, e, kvs, new=True)
            model[e] |= {(k, jd(v)) for k, v in kvs}
        elif op == "update":
            b.record_tags(TagEntity.Value, e, kvs, update=True)
            ks = {k for k, _ in kvs}
            model[e] = {(k, v) for k, v in model[e] if k not in ks} | {(k, jd(v)) for k, v in kvs}
        elif op == "rm":
            b.delete_tags(e, kvs, [])
            model[e] -= {(k, jd(v)) for k, v in kvs}
        else:
            ks = [k for k, _ in kvs]
            b.delete_tags(e, [], ks)
            model[e] = {(k, v) for k, v in model[e] if k not in ks}
        cur = current(b, eids)
        for x in eids:
            if set(cur[x]) != model[x]:
                return hist, dict(cur[x]), model[x]
        acyclic(b)
    return None

if __name__ == "__main__":
    bad = 0
    for seed in range(int(sys.argv[1]) if len(sys.argv) > 1 else 300):
        r = run(seed, 3)
        if r:
            bad += 1
            if bad <= 5:
                print("seed", seed); print(*r[0], sep="\n"); print("actual", r[1]); print("model", r[2]); print()
    print("bad", bad)
