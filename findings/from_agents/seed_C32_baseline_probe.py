"""
Probes of UNCHANGED-code behaviour (independent of the seeded change). Prints findings; always exits 0.
"""
import importlib, os, sys, tempfile
from typing import cast
from unittest.mock import Mock, patch

ROOT = os.path.dirname(os.path.dirname(os.path.abspath(__file__)))
sys.path.insert(0, ROOT)

from redun import Scheduler
from redun.cli import RedunClient
from redun.config import Config
from redun.executors import docker as docker_mod
from redun.executors.command import get_oneshot_command
from redun.executors.docker import DockerExecutor
from redun.scheduler import Job
from redun.task import CacheScope, hash_args_eval
from redun.value import get_type_registry

WORKFLOW = '''
import os
from redun import task

@task(cache=False)
def flaky(flag: str) -> str:
    if not os.path.exists(flag):
        raise ValueError("flag is gone")
    return "ok"

class TwoArgError(Exception):
    def __init__(self, a, b):
        super().__init__(f"{a}:{b}")
        self.a, self.b = a, b

@task()
def raises_custom(x: int) -> int:
    raise TwoArgError("bad", x)
'''

def run_remote(executor, scheduler, a_task, args, kwargs, job_options):
    scratch = executor._scratch_prefix
    os.makedirs(scratch, exist_ok=True)
    job = Job(a_task, a_task(*args, **kwargs))
    job.eval_hash, job.args_hash = hash_args_eval(get_type_registry(), a_task, args, kwargs)
    job.args = (args, kwargs)
    command = get_oneshot_command(scratch, job, a_task, args, kwargs, job_options=job_options)
    try:
        RedunClient().execute(command)
    except Exception:
        pass
    scheduler.done_job.reset_mock(); scheduler.reject_job.reset_mock()
    executor._pending_jobs["c1"] = job
    with patch.object(docker_mod.subprocess, "check_output", return_value=b""):
        statuses = list(docker_mod.iter_job_status(scratch, {"c1": job}))
    executor._process_job_status(statuses[0])
    if scheduler.done_job.called:
        return "done", scheduler.done_job.call_args[0][1]
    return "reject", scheduler.reject_job.call_args[0][1]

with tempfile.TemporaryDirectory() as tmpdir:
    tmpdir = os.path.realpath(tmpdir)
    os.chdir(tmpdir); sys.path.insert(0, tmpdir)
    open("workflow_c32b.py", "w").write(WORKFLOW)
    wf = importlib.import_module("workflow_c32b")
    scheduler = Scheduler(); scheduler.load()
    scheduler.done_job = Mock(); scheduler.reject_job = Mock()
    config = Config({"docker": {"image": "i", "scratch": os.path.join(tmpdir, "scratch"), "code_package": "false"}})
    executor = DockerExecutor("docker", scheduler, config=config["docker"])

    flag = os.path.join(tmpdir, "flag")
    open(flag, "w").write("x")
    opts = {"cache_scope": CacheScope.NONE}
    print("A1", run_remote(executor, scheduler, wf.flaky, (flag,), {}, opts))
    os.remove(flag)
    print("A2 (local would raise ValueError('flag is gone')):", run_remote(executor, scheduler, wf.flaky, (flag,), {}, opts))

    print("B (local would raise TwoArgError):", run_remote(executor, scheduler, wf.raises_custom, (3,), {}, {}))
