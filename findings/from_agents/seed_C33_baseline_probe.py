import sys
import os; sys.path.insert(0, os.path.dirname(os.path.dirname(os.path.abspath(__file__))))
import pytest
from redun import Scheduler, task
from redun.backends.db import Job, CallNode, Value, Execution
from redun.backends.db.query import CallGraphQuery
from redun.scheduler import scheduler_task, catch

held = []

@scheduler_task(namespace="probe")
def peek(scheduler, parent_job, sexpr):
    # Runs on the main thread: look at the parent job's record while it is running.
    from redun.promise import Promise
    db_job = scheduler.backend.session.query(Job).filter_by(id=parent_job.id).one()
    held.append((db_job, db_job.status))
    return Promise(lambda resolve, reject: resolve(1))

@task(namespace="probe")
def main():
    return peek()

@task(namespace="probe")
def bad(x):
    return 1 / x

@task(namespace="probe")
def parent(x):
    return bad(x)

s = Scheduler(); s.load()
assert s.run(main()) == 1
session = s.backend.session
db_job, seen = held[0]
print("seen while running:", seen)
found = [j for j in CallGraphQuery(session).filter_job_statuses(["DONE"]).all() if j.id == db_job.id]
print("DONE filter returns it:", bool(found), "same object:", found and found[0] is db_job, "displayed status now:", found and found[0].status, "end_time:", db_job.end_time)

with pytest.raises(ZeroDivisionError):
    s.run(parent(0))
root = session.query(Job).join(Execution, Execution.job_id == Job.id).order_by(Job.start_time.desc()).first()
rows = (session.query(Job, Value.type)
    .outerjoin(CallNode, Job.call_hash == CallNode.call_hash)
    .outerjoin(Value, CallNode.call_hash == Value.value_hash)
    .filter(Job.parent_id == root.id).all())
for job, t in rows:
    print("console child view: result_type", t, "-> calc_status", job.calc_status(t), "; filter FAILED contains:", job.id in {j.id for j in CallGraphQuery(session).filter_job_statuses(["FAILED"]).all()})
