"""Baseline (unchanged code) probes for C36. Run: /venv/bin/python SEED/baseline_probe.py"""
import os, sys, sqlite3, tempfile, time
sys.path.insert(0, os.path.dirname(os.path.dirname(os.path.abspath(__file__))))
os.environ["TZ"] = "UTC"; time.tzset()
from redun.backends.db import RedunBackendDb, parse_db_version

def mk(version):
    path = os.path.join(tempfile.mkdtemp(), "redun.db")
    b = RedunBackendDb(db_uri=f"sqlite:///{path}")
    b.create_engine(); b.migrate(parse_db_version(version))
    b.session.close(); b.engine.dispose()
    return path

def up(path):
    b = RedunBackendDb(db_uri=f"sqlite:///{path}")
    try:
        b.load()
    finally:
        b.session.close(); b.engine.dispose()

h = lambda i: f"{i:040x}"

# Probe 1: sub-second part of job.start_time/end_time is dropped by 3.3 -> 3.4 on sqlite.
p = mk("3.3")
con = sqlite3.connect(p)
con.execute("insert into task values (?,?,?,?)", (h(1), "t", "ns", "src"))
con.execute("insert into job (id,start_time,end_time,task_hash,cached,call_hash,parent_id,execution_id) values "
            "('j1','2021-01-02 03:04:05.123456','2021-01-02 03:04:06.654321',?,0,NULL,NULL,'e1')", (h(1),))
con.execute("insert into execution (id,args,job_id) values ('e1','[]','j1')")
con.commit(); con.close()
up(p)
print("probe1 job times after upgrade:", sqlite3.connect(p).execute("select start_time, end_time from job").fetchall())

# Probe 2: a lonely task (no companion value) whose name is not a valid identifier aborts 2.0 -> 2.1.
p = mk("2.0")
con = sqlite3.connect(p)
con.execute("insert into task values (?,?,?,?)", (h(1), "my-task", "ns", "src"))
con.commit(); con.close()
try:
    up(p); print("probe2: upgrade ok")
except Exception as e:
    print("probe2: upgrade raised", type(e).__name__, str(e)[:100])
