"""
Probes of the UNCHANGED code (not part of the seeded defect). Each probe prints whether subrun
diverges from direct evaluation. Run: /venv/bin/python SEED/baseline_probe.py
"""

import os
import sys
import tempfile

sys.path.insert(0, os.path.dirname(os.path.dirname(os.path.abspath(__file__))))

from redun import Scheduler, task  # noqa: E402
from redun.config import Config  # noqa: E402
from redun.scheduler import subrun  # noqa: E402

redun_namespace = "seed_c38_probe"

STATE = {"fail": True}
CALLS = []


def make_scheduler(tmpdir):
    config = Config(
        config_dict={
            "backend": {"db_uri": f"sqlite:///{tmpdir}/redun.db"},
            "executors.default": {"type": "local", "mode": "thread"},
        }
    )
    scheduler = Scheduler(config=config)
    scheduler.load()
    return scheduler


def probe_error_replay(new_execution):
    """
    B2: a task fails in execution 1 and succeeds in execution 2 (transient failure). Direct
    evaluation re-runs failed tasks in a later execution; what does subrun do?
    """

    @task
    def flaky(x):
        CALLS.append("flaky")
        if STATE["fail"]:
            raise ValueError("transient")
        return x + 1

    @task
    def direct_main(x):
        return flaky(x)

    @task
    def subrun_main(x):
        return subrun(flaky(x), executor="default", new_execution=new_execution, load_modules=[])

    out = {}
    for name, main in [("direct", direct_main), ("subrun", subrun_main)]:
        with tempfile.TemporaryDirectory() as tmpdir:
            scheduler = make_scheduler(tmpdir)
            STATE["fail"] = True
            try:
                first = scheduler.run(main(1))
            except ValueError as error:
                first = repr(error)
            STATE["fail"] = False
            del CALLS[:]
            try:
                second = scheduler.run(main(1))
            except ValueError as error:
                second = repr(error)
            out[name] = (first, second, list(CALLS))
    return out


def probe_code_change(new_execution):
    """
    B1: the inner task's code changes between two executions.
    """
    out = {}
    for name in ["direct", "subrun"]:
        with tempfile.TemporaryDirectory() as tmpdir:
            scheduler = make_scheduler(tmpdir)
            results = []
            for version in (1, 2):
                if version == 1:

                    @task(name="calc")
                    def calc(x):
                        return x**2

                else:

                    @task(name="calc")
                    def calc(x):  # noqa: F811
                        return x**3

                @task(name="direct_main2")
                def direct_main(x):
                    return calc(x)

                @task(name="subrun_main2")
                def subrun_main(x):
                    return subrun(
                        calc(x), executor="default", new_execution=new_execution, load_modules=[]
                    )

                main = direct_main if name == "direct" else subrun_main
                results.append(scheduler.run(main(5)))
            out[name] = results
    return out


if __name__ == "__main__":
    report = []
    for new_execution in (False, True):
        report.append(("error_replay", new_execution, probe_error_replay(new_execution)))
        report.append(("code_change", new_execution, probe_code_change(new_execution)))
    print()
    for name, new_execution, out in report:
        diverges = out["direct"] != out["subrun"]
        print(f"{name} new_execution={new_execution}: diverges={diverges} {out}")
