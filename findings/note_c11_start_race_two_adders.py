"""
Pre-existing (unchanged code) issue: JobArrayer.start() is check-then-act without a lock.
Two threads calling add_job concurrently can both see `not is_alive()` and each start a
monitor thread. Both monitors then see the same stale descr; the second pop() raises
KeyError, which is reported via on_error (i.e. "the monitor fails").
Forced here by making Thread.is_alive rendezvous the two adders.
"""
import os, sys, threading, time
sys.path.insert(0, os.path.dirname(os.path.dirname(os.path.abspath(__file__))))
from redun import task
from redun.job_array import JobArrayer
from redun.scheduler import Job

@task(namespace="seed_c11")
def work(x: int) -> int:
    return x

submitted, errors = [], []
def submit(jobs):
    time.sleep(0.05)  # widen the window between get_stale_descrs and pop in the other monitor
    submitted.append(list(jobs))

arr = JobArrayer(submit, errors.append, submit_interval=0.05, stale_time=0.05, min_array_size=2)
barrier = threading.Barrier(2)
orig_start = arr.start
def racy_start():
    # both adders pass the is_alive() check before either starts a thread
    if not arr._monitor_thread.is_alive():
        try: barrier.wait(1)
        except threading.BrokenBarrierError: pass
        arr._exit_flag.clear()
        arr._monitor_thread = threading.Thread(target=arr._monitor_stale_jobs, daemon=True)
        arr._monitor_thread.start()
arr.start = racy_start  # same statements as start(), with a rendezvous after the check
orig_get = arr.get_stale_descrs
b2 = threading.Barrier(2)
def get_stale():
    # schedule point: both monitors finish the scan before either pops
    st = orig_get()
    if st:
        try: b2.wait(0.5)
        except threading.BrokenBarrierError: b2.reset()
    return st
arr.get_stale_descrs = get_stale
jobs = [Job(work, work(i)) for i in range(2)]
ts = [threading.Thread(target=arr.add_job, args=(j,)) for j in jobs]
[t.start() for t in ts]; [t.join() for t in ts]
time.sleep(0.2)
for i in range(20):
    arr.add_job(Job(work, work(100 + i)))
    time.sleep(0.12)
    if errors: break
arr._exit_flag.set()
print("monitor threads alive:", sum(1 for t in threading.enumerate() if t.name.startswith("Thread") and t.is_alive()))
print("errors:", errors)
handed = [j.id for b in submitted for j in b]
print("duplicates:", len(handed) - len(set(handed)))
