import logging
logging.disable(logging.CRITICAL)
from redun import Scheduler, task
from redun.scheduler import catch, DryRunResult
from redun.config import Config
from redun.backends.db import CallSubtreeTask, Job as DbJob, RedunBackendDb
from redun.backends.db.query import CallGraphQuery
from sqlalchemy.exc import OperationalError
redun_namespace = "probe5"

# F-C33: CSE-failed job: status displayed vs CACHED filter
@task()
def boom(x): raise ValueError("boom")
@task()
def rec(e): return "r"
@task()
def main33():
    return [catch(boom(1), ValueError, rec), after(catch(boom(1), ValueError, rec))]
@task()
def after(x): return catch(boom(1), ValueError, rec)
s = Scheduler(); s.load()
print(s.run(main33()))
sess = s.backend.session
q = CallGraphQuery(sess).filter_types(["Job"]).filter_job_statuses(["CACHED"])
bad = [(j.task.name, j.status) for j in q.all() if j.status != "CACHED"]
print("F-C33 jobs returned by CACHED filter whose displayed status differs:", bad)

# F-C03: CallNode without subtree rows (as after import / interrupted record) => shallow hit despite child edit
def define(v):
    @task(name="child", namespace="p5c")
    def child(): return v
    @task(name="parent", namespace="p5c", check_valid="shallow")
    def parent(): return child()
    return parent
s2 = Scheduler(); s2.load()
calls = []
p = define("v1"); print("run1", s2.run(p()))
s2.backend.session.query(CallSubtreeTask).delete(); s2.backend.session.commit()
p = define("v2"); print("F-C03 run2 after child edit, subtree rows absent ->", s2.run(p()), "(fresh backend would give v2)")

# F-C08b: dry-run + unknown executor
@task(executor="nope", limits=["y"])
def unk(): return 1
s3 = Scheduler(); s3.load()
try:
    s3.run(unk(), dryrun=True)
except Exception as e:
    print("dryrun raised", type(e).__name__)
print("F-C08b limits_used after dryrun:", dict(s3.limits_used))

# F-C22c: record_job_start retry after transient error
@task()
def one(): return 1
s4 = Scheduler(); s4.load()
b = s4.backend; b._db_retries_backoff = 0.0
orig_commit = b.session.commit
state = {"n": 0}
def flaky_commit():
    state["n"] += 1
    if state["n"] == 2:   # fail once, at the commit inside record_job_start (1st = record_value(task))
        raise OperationalError("stmt", {}, Exception("transient"))
    return orig_commit()
import types
def run4():
    b.session.commit = flaky_commit
    try:
        return s4.run(one())
    finally:
        b.session.commit = orig_commit
try:
    print("F-C22c result", run4())
except Exception as e:
    print("F-C22c run raised after one transient error:", type(e).__name__, e)
