"""
UNCHANGED-code observation: a CSE hit on a *failed* call takes {own task} as its subtree tasks
(Scheduler._reject_job_main_thread uses job.calc_subtree_tasks(), not the recorded call node),
so a shallow parent that catches it records an incomplete subtree-task set.
"""
import os, sys
sys.path.insert(0, sys.argv[1] if len(sys.argv) > 1 else "/repo")
from redun import task, Scheduler
from redun.scheduler import catch
from redun.backends.db import CallNode
redun_namespace = "probe"

scheduler = Scheduler()
scheduler.load()
calls = []

@task
def G(x):
    calls.append("G")
    return x

@task
def boom(x):
    raise ValueError("boom")

@task
def F(x):
    return boom(G(x))

@task
def recover(err):
    return -1

@task
def recover2(err):
    return -2

@task
def Q(x):
    return catch(F(x), ValueError, recover)

@task(check_valid="shallow")
def P(x, dep):
    calls.append("P")
    # dep forces P to run after Q, so F(x) is a CSE hit (of a failed call) here.
    return catch(F(x), ValueError, recover2)

@task
def main(x):
    q = Q(x)
    return [q, P(x, q)]

assert scheduler.run(main(1)) == [-1, -2]
assert calls == ["G", "P"], calls

node = scheduler.backend.session.query(CallNode).filter_by(task_name="probe.P").one()
subtree = {t.task.name for t in node.task_set}
print("P subtree tasks:", sorted(subtree))

missing = {"G", "boom", "F"} - subtree
assert not missing, f"P's recorded subtree task set lacks {sorted(missing)}: an edit there is invisible to P's shallow replay"
print("OK")
