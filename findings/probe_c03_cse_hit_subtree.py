import sys, os
sys.path.insert(0, os.path.dirname(os.path.dirname(os.path.abspath(__file__))))
from redun import Scheduler, task
from redun.backends.db import CallSubtreeTask, CallNode

calls = []

def define(version):
    @task(name="C", namespace="ex", version=str(version))
    def C(x):
        calls.append("C")
        return x + version

    @task(name="P", namespace="ex")
    def P(x):
        calls.append("P")
        return C(x)

    @task(name="G", namespace="ex")
    def G(x):
        calls.append("G")
        return P(x)

    @task(name="H", namespace="ex", check_valid="shallow")
    def H(x, a):
        calls.append("H")
        return P(x)

    @task(name="main", namespace="ex")
    def main(x):
        a = G(x)
        return H(x, a)
    return main, H, C, P

s = Scheduler()
s.load()
main, H, C, P = define(1)
print(s.run(main(10)), calls)
sess = s.backend.session
for cn in sess.query(CallNode).all():
    print(cn.task_name, sorted(t.task_hash[:6] for t in sess.query(CallSubtreeTask).filter_by(call_hash=cn.call_hash)))
print("C", C.hash[:6], "P", P.hash[:6], "H", H.hash[:6])
calls.clear()
main, H, C, P = define(2)
print(s.run(H(10, 11)), calls)
# Expected 12 (C now adds 2); the unchanged code replays the stale 11.
result = s.run(H(10, 11))
assert result == 12, f"stale shallow replay on UNCHANGED code: got {result}, expected 12"
