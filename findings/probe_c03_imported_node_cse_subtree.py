"""
NOT the seeded change: reproduces a C03 violation that the UNCHANGED code already has.

A CallNode imported from another repository has no CallSubtreeTask rows, and re-running the call
locally never adds them (record_call_node skips an existing call_hash). A later CSE hit on that
call in the same execution takes its subtree tasks from the backend (`Scheduler._get_subtree_tasks`)
and gets the EMPTY set, so the enclosing job records a subtree-task set that lacks the child's task.
The enclosing shallow task is then replayed although the child's code changed.

Fails (AssertionError) on the unchanged code as well as with the seeded change.
"""

import os
import sys

sys.path.insert(0, os.environ.get("REDUN_ROOT", os.getcwd()))

from redun import Scheduler, task  # noqa: E402
from redun.backends.db import Execution  # noqa: E402

NS = "seed7_c03_preexisting"
calls = []


def define_leaf(version):
    if version == 1:

        @task(name="leaf", namespace=NS)
        def leaf(x):
            calls.append("leaf_v1")
            return x + 1

    else:

        @task(name="leaf", namespace=NS)
        def leaf(x):
            calls.append("leaf_v2")
            return x + 100

    return leaf


leaf = define_leaf(1)


@task(namespace=NS)
def first(x):
    return leaf(x)


@task(namespace=NS, check_valid="shallow")
def second(y, x):
    # `y` only orders this call after first(); leaf(x) is then a CSE hit within the execution.
    return leaf(x)


@task(namespace=NS)
def main(x):
    return second(first(x), x)


# Repository A records leaf(1).
repo_a = Scheduler()
repo_a.load()
assert repo_a.run(leaf(1)) == 2

# Transfer all records of A into repository B (what `redun push/pull` does).
exec_ids = [e.id for e in repo_a.backend.session.query(Execution).all()]
records = list(repo_a.backend.get_records(list(repo_a.backend.iter_record_ids(exec_ids))))
repo_b = Scheduler()
repo_b.load()
repo_b.backend.put_records(records)

# Run in B: first() runs leaf(1) (same call_hash as the imported CallNode, subtree rows are not
# added), second() gets leaf(1) as a CSE hit and is recorded with subtree tasks == {second}.
assert repo_b.run(main(1)) == 2

# Edit leaf and replay second(2, 1) with check_valid="shallow".
leaf = define_leaf(2)
calls.clear()
result = repo_b.run(second(2, 1))
assert result == 101 and calls == ["leaf_v2"], (
    f"stale shallow replay after editing leaf: result={result!r}, calls={calls!r}"
)
print("OK")
