import os, sys, tempfile
sys.path.insert(0, os.path.dirname(os.path.dirname(os.path.abspath(__file__))))
from sqlalchemy.orm import Session
from redun import Scheduler, task
from redun.config import Config
import sqlalchemy as sa

class Crash(BaseException):
    pass

def make_scheduler(db_path):
    s = Scheduler(config=Config({"backend": {"db_uri": "sqlite:///" + db_path}}))
    s.load()
    return s

def define(version):
    @task(namespace="p", version=version)
    def f(x):
        return x + (1 if version == "1" else 100)

    @task(namespace="p")
    def const(y):
        return 0

    @task(namespace="p", check_valid="shallow")
    def second(y, x):
        # calls f(x) again after first f(x) finished -> CSE
        return [y, f(x)]

    @task(namespace="p")
    def parent(x):
        return second(const(f(x)), x)

    @task(namespace="p")
    def main(x):
        return parent(x)
    return main, f

def run(db, version, crash_in_call_node_of=None):
    import redun.backends.db as rdb
    orig = rdb.RedunBackendDb._record_args
    s = make_scheduler(db)
    main, f = define(version)
    if crash_in_call_node_of:
        def _record_args(self, call_hash, expr_args, eval_args):
            orig(self, call_hash, expr_args, eval_args)
            row = self.session.query(rdb.CallNode).filter_by(call_hash=call_hash).one()
            if row.task_name == crash_in_call_node_of:
                raise Crash()
        rdb.RedunBackendDb._record_args = _record_args
    try:
        return s.run(main(1))
    finally:
        rdb.RedunBackendDb._record_args = orig
        s.backend.session.close(); s.backend.engine.dispose()

d = tempfile.mkdtemp()
db = os.path.join(d, "r.db")
try:
    run(db, "1", "p.f")
except Crash:
    print("crashed")
print(run(db, "1"))
print(run(db, "2"), "expected", [0, 101])
