import logging, os, tempfile
logging.disable(logging.CRITICAL)
from redun import Scheduler, task, Handle, File, Dir
from redun.file import ContentFile
from redun.config import Config
from redun.scheduler import catch
from redun.task import CacheScope
redun_namespace = "probe3"

# C18
e1 = catch.options(cache_scope=CacheScope.NONE)(1, ValueError, None)
e2 = catch(1, ValueError, None)
print("C18 sched-expr options differ, same hash:", e1.get_hash() == e2.get_hash(), e1._options, e2._options)

# C30 Dir.copy_to stale hash
tmp = tempfile.mkdtemp()
src = Dir(os.path.join(tmp, "src")); File(os.path.join(tmp, "src", "a.txt")).write("hello")
dst = Dir(os.path.join(tmp, "dst")); h0 = dst.hash
src.copy_to(dst)
print("C30 Dir.copy_to hash fresh:", dst.hash == Dir(os.path.join(tmp, "dst")).hash)

# C04 ContentFile deleted
p = os.path.join(tmp, "c.txt"); cf = ContentFile(p); cf.write("x"); h = cf.hash
os.remove(p)
try:
    print("C04 is_valid", cf.is_valid())
except Exception as e:
    print("C04 is_valid raises", type(e).__name__)

# C07 handle call order under limits
class H(Handle):
    def __init__(self, name, namespace=None): pass

import time
@task(limits=["r"], cache=False)
def use(h, i):
    time.sleep(0.05)
    return h
@task()
def main7():
    h = H("conn")
    return [use(h, 1), use(h, 2)]

def run(limit):
    s = Scheduler(config=Config({"limits": {"r": str(limit)}})); s.load()
    res = s.run(main7())
    return sorted(x.__handle__.hash[:8] for x in res)
a = run(2); b = run(1)
print("C07 handle hashes limit=2:", a, "limit=1:", b, "equal:", a == b)
