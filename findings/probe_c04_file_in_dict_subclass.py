"""C04.9 probe: a File inside an OrderedDict (any dict/set subclass) is never validated.  exit 1 = defect present."""
import os, sys, tempfile
from collections import OrderedDict
sys.path.insert(0, os.environ.get("REDUN_ROOT", os.getcwd()))
from redun import File, Scheduler, task

redun_namespace = "probe_c04_odict"
calls = []
d = tempfile.mkdtemp()


@task()
def make():
    calls.append(1)
    f = File(os.path.join(d, "out.txt"))
    f.write("x")
    return OrderedDict(a=f)


s = Scheduler()
s.load()
s.run(make())
os.remove(os.path.join(d, "out.txt"))
s.run(make())
print("task calls:", len(calls))
if len(calls) != 2:
    print("DEFECT: cached result holding a deleted File was replayed")
    sys.exit(1)
print("OK")
