"""C04: a cached PartialTask result is replayed although a File bound in its arguments changed."""
import sys, os, tempfile; sys.path.insert(0, sys.argv[1] if len(sys.argv) > 1 else '/repo')
from redun import Scheduler, task, File
redun_namespace = "p04"
calls = []
@task()
def process(f, n):
    return f.read() * n
@task()
def make_partial(path):
    calls.append("make_partial")
    return process.partial(File(path))
@task()
def main(path):
    p = make_partial(path)
    return p
with tempfile.TemporaryDirectory() as d:
    path = os.path.join(d, "in.txt")
    File(path).write("a")
    s = Scheduler(); s.load()
    p1 = s.run(main(path))
    File(path).write("bb")          # the bound File's bytes and hash change
    calls.clear()
    p2 = s.run(main(path))
    print("re-executed:", calls, " bound file hash unchanged in replayed value:", p1.args[0].hash == p2.args[0].hash)
    assert calls == ["make_partial"], "stale PartialTask (bound File no longer valid) was replayed from the cache"
print("OK")
