import logging
logging.disable(logging.CRITICAL)
from redun import Scheduler, task
from redun.config import Config
from redun.context import get_context
from redun.tags import format_tag_value
from redun.value import get_type_registry
from redun.task import hash_args_eval
redun_namespace = "probe2"

# C34
for v in ["[abc", "{x", '"q']:
    try:
        print("C34", repr(v), format_tag_value(v))
    except Exception as e:
        print("C34 raises", repr(v), type(e).__name__, e)

# C35
c = Config()
c.read_string("[a]\nx = pre$$post\n")
d = c.get_config_dict()
print("C35 dict", d)
try:
    c2 = Config(config_dict=d)
    print("C35 roundtrip", c2["a"]["x"])
except Exception as e:
    print("C35 raises", type(e).__name__, e)

# C16 frozenset / nested set
r = get_type_registry()
print("C16 type for frozenset:", type(r.get_value(frozenset({"a","b"}))).__name__, "nested list-with-set:", type(r.get_value([{"a","b"}])).__name__)

# C15 variadic + config arg
@task(config_args=["k"])
def f(a, *rest, k=1):
    return a
h1 = hash_args_eval(r, f, (1, 2, 3), {})
h2 = hash_args_eval(r, f, (1, 2, 4), {})
print("C15 variadic third positional ignored:", h1 == h2)

# C05: ctx then no-ctx in same execution
@task()
def leaf(x):
    return get_context("v", "none")
@task()
def inner(x):
    return leaf(x)
@task()
def main5():
    a = inner.update_context({"v": "ctx"})(1)
    return [a, seq_after(a)]
@task()
def seq_after(_):
    return inner(1)
s = Scheduler(); s.load()
print("C05", s.run(main5()))
