"""C05.7 probe: catch caches recover(error) under a context-free key.  exit 1 = defect present."""
import os, sys
sys.path.insert(0, os.environ.get("REDUN_ROOT", os.getcwd()))
from redun import Scheduler, task
from redun.context import get_context
from redun.scheduler import catch

redun_namespace = "probe_c05_catch"


@task()
def divider(denom: int = get_context("denom", 1)):
    return 1.0 / denom


@task()
def recover(error):
    return -1.0


@task()
def main():
    return catch(divider(), ZeroDivisionError, recover)


s = Scheduler()
s.load()
a = s.run(main.update_context({"denom": 0})())
b = s.run(main())
print("with denom=0:", a, " without context:", b)
if b != 1.0:
    print("DEFECT: the context-free run replayed the recover expression cached under the denom=0 context")
    sys.exit(1)
print("OK")
