import os, sys
sys.path.insert(0, os.path.dirname(os.path.dirname(os.path.abspath(__file__))))
from redun import Scheduler, task
from redun.context import get_context

@task(namespace="c05probe")
def read_offset(offset: int = get_context("offset", 0)) -> int:
    return offset

@task(namespace="c05probe", check_valid="shallow")
def calc() -> int:
    return read_offset()

@task(namespace="c05probe")
def main_with() -> int:
    return calc.update_context(offset=5)()

@task(namespace="c05probe")
def main_without() -> int:
    return calc()

s = Scheduler(); s.load()
orig = s.backend.record_call_node_context
class Crash(BaseException): pass
n = {"i": 0}
def crashing(call_hash, context_hash, context):
    n["i"] += 1
    if n["i"] == 2:   # 1st = read_offset's node, 2nd = calc's node
        raise Crash("process dies between record_call_node and record_call_node_context")
    return orig(call_hash, context_hash, context)
s.backend.record_call_node_context = crashing
try:
    s.run(main_with())
except BaseException as e:
    print("crashed:", type(e).__name__, e)
s.backend.record_call_node_context = orig
try:
    s.backend.session.rollback()
except Exception as e:
    print("rollback", e)
s2 = Scheduler(backend=s.backend)
print("context-free result:", s2.run(main_without()), "(expected 0)")
