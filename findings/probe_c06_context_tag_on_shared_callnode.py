"""
C06 probe: a context-free call must be deduplicated (CSE) against its finished context-free twin
of the same execution, even when a call of the same task/args under a context produced the same
CallNode in between and tagged it with its context.

Run from the worktree root:  /venv/bin/python FX/probe.py   (exit 1 = defect present, 0 = ok)
"""

import os
import sys

sys.path.insert(0, os.path.dirname(os.path.dirname(os.path.abspath(__file__))))

from redun import Scheduler, task  # noqa: E402
from redun.logging import logger  # noqa: E402

logger.setLevel("ERROR")

redun_namespace = "fx_ctxtagshared"


def run_case(cache_scope, order):
    """
    `order` is the sequence of calls of f(1), each one created after the previous finished:
    "-" is a call without context, a letter is a call under context {"k": letter}.
    Returns the list of contexts under which f was handed to the executor.
    """
    calls = []

    @task(cache_scope=cache_scope)
    def f(x):
        calls.append(x)
        return x

    @task(cache_scope="NONE")  # The drivers themselves always run; only f is measured.
    def step(prev, ctx):
        if ctx == "-":
            return f(1)
        return f.update_context({"k": ctx})(1)

    @task()
    def main():
        prev = None
        results = []
        for ctx in order:
            prev = step(prev, ctx)
            results.append(prev)
        return results

    scheduler = Scheduler()
    scheduler.load()
    result = scheduler.run(main())
    assert result == [1] * len(order), result
    return len(calls)


def run_soundness():
    """
    Guard for the repair: a context-free call must still not reuse the result of a twin that ran
    under a context (whose children read the context).
    """
    from redun.context import get_context

    @task(cache_scope="CSE")
    def inner(k=get_context("k", "none")):
        return k

    @task(cache_scope="CSE")
    def outer(x):
        return inner()

    @task(cache_scope="NONE")
    def step2(prev, ctx):
        if ctx == "-":
            return outer(1)
        return outer.update_context({"k": ctx})(1)

    @task()
    def main2():
        r1 = step2(None, "a")
        r2 = step2(r1, "-")
        r3 = step2(r2, "a")
        r4 = step2(r3, "-")
        return [r1, r2, r3, r4]

    scheduler = Scheduler()
    scheduler.load()
    return scheduler.run(main2())


def main():
    failures = []
    results = run_soundness()
    print("context-dependent results for order 'a-a-':", results)
    if results != ["a", "none", "a", "none"]:
        failures.append(("soundness", results))

    # (cache_scope, order, upper bound of executor hand-overs = number of distinct contexts)
    cases = [
        ("CSE", "--", 1),  # baseline: plain CSE works
        ("CSE", "-a-", 2),  # the reported schedule
        ("CSE", "a-a-", 2),  # context first
        ("CSE", "-ab-ab", 3),  # two contexts on one CallNode
        ("BACKEND", "-a-", 2),  # default scope (single reduction ignores the context: 1 run)
    ]
    for cache_scope, order, expected in cases:
        n = run_case(cache_scope, order)
        status = "ok" if 1 <= n <= expected else "DEFECT"
        print(f"cache_scope={cache_scope} order={order!r}: f(1) ran {n}x, at most {expected}: {status}")
        if not 1 <= n <= expected:
            failures.append((cache_scope, order, n, expected))

    if failures:
        print("FAIL: a call was handed to an executor more than once per (task, args, context):")
        for failure in failures:
            print("   ", failure)
        return 1
    print("OK")
    return 0


if __name__ == "__main__":
    sys.exit(main())
