"""
C06 probe: an opted-out twin (prov=False or cache_scope=NONE) must not disturb the
Scheduler._pending_jobs entry that ordinary equal calls deduplicate against.

Exit 1 (defect present) / exit 0 (behaviour right).
Run from the worktree root:  /venv/bin/python FX/probe.py
"""

import os
import sys
import threading

sys.path.insert(0, os.path.dirname(os.path.dirname(os.path.abspath(__file__))))

from redun import Scheduler, task  # noqa: E402

redun_namespace = "fx_pendingtwin"

WAIT = 10  # upper bound for every forced wait; a healthy run never comes close.


class Calls:
    """Counts executor hand-overs of f and forces the interleaving."""

    def __init__(self, blocked):
        self.lock = threading.Lock()
        self.n = 0
        self.started = {i: threading.Event() for i in range(1, 6)}
        self.gate = {i: threading.Event() for i in blocked}

    def enter(self):
        with self.lock:
            self.n += 1
            n = self.n
        self.started[n].set()
        if n in self.gate:
            self.gate[n].wait(WAIT)
        return n

    def open_all(self):
        for ev in self.gate.values():
            ev.set()


def run_scenario(name, twin_options, order):
    """
    order == "A_then_B_done":  A=f(1) running, twin B starts after A, B finishes, then C=f(1).
    order == "A_and_B_running": A and twin B both running, then C=f(1).
    order == "B_then_A":        twin B running, A starts, B finishes (A still running), then C=f(1).
    Expected hand-overs of f(1): 2 (A and the opted-out B). C must wait for A.
    """
    blocked = {"A_then_B_done": [1], "A_and_B_running": [1, 2], "B_then_A": [1, 2]}[order]
    calls = Calls(blocked)

    @task()
    def f(x):
        calls.enter()
        return x

    @task()
    def when_started(n, x):
        # Finishes once the n-th call of f is inside the executor.
        assert calls.started[n].wait(WAIT)
        return x

    @task()
    def release_first_when_second_started(x):
        assert calls.started[2].wait(WAIT)
        calls.gate[1].set()
        return x

    @task()
    def later(prev):
        # C: an ordinary equal call from another parent job. If it is deduplicated it waits for
        # the running call, so let that one finish a little later.
        threading.Timer(0.5, calls.open_all).start()
        return f(1)

    @task()
    def main():
        twin = f.options(**twin_options)
        if order == "A_then_B_done":
            a = f(1)
            b = twin(when_started(1, 1))
            return [a, b, later(b)]
        if order == "A_and_B_running":
            a = f(1)
            b = twin(when_started(1, 1))
            return [a, b, later(when_started(2, 0))]
        if order == "B_then_A":
            b = twin(1)
            a = f(when_started(1, 1))
            return [a, b, later([b, release_first_when_second_started(0)])]
        raise AssertionError(order)

    scheduler = Scheduler()
    scheduler.load()
    try:
        result = scheduler.run(main())
    finally:
        calls.open_all()
    problems = []
    if result != [1, 1, 1]:
        problems.append(f"{name}: wrong result {result!r}")
    if calls.n != 2:
        problems.append(
            f"{name}: f(1) was handed to an executor {calls.n} times, expected 2 "
            "(first call + its opted-out twin); the third equal call ran while its twin "
            "was still running"
        )
    return problems


def main():
    problems = []
    for twin_name, twin_options in [
        ("prov=False", {"prov": False}),
        ("cache_scope=NONE", {"cache_scope": "NONE"}),
    ]:
        for order in ["A_then_B_done", "A_and_B_running", "B_then_A"]:
            if order == "B_then_A" and "cache_scope" in twin_options:
                # A legitimately collapses onto a running cache_scope=NONE twin (it records
                # provenance), so this order cannot be forced for that option.
                continue
            problems += run_scenario(f"{twin_name}/{order}", twin_options, order)
    if problems:
        print("DEFECT PRESENT:")
        for p in problems:
            print("  " + p)
        return 1
    print("OK: every ordinary duplicate waited for / reused its running twin")
    return 0


if __name__ == "__main__":
    sys.exit(main())
