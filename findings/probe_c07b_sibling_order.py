"""
F-C07b reproduction: the fork key of a Handle passed to two sibling jobs depends on
the order in which the siblings become ready (which upstream finishes first).

Two runs of the same program against fresh backends differ only in which of two
upstream tasks sleeps longer.  The args_hash recorded for use_a / use_b swaps.
Documentation only; not part of any check.
"""
import sys
import time

from redun import Handle, Scheduler, task
from redun.backends.db import CallNode

redun_namespace = "probe_c07b"


class Conn(Handle):
    def __init__(self, name, uri):
        self.uri = uri


@task(cache=False)
def slow(x, delay):
    time.sleep(delay)
    return x


@task()
def use_a(conn, x):
    return conn


@task()
def use_b(conn, x):
    return conn


@task()
def main(da, db_):
    conn = Conn("conn", "uri")
    return [use_a(conn, slow(1, da)), use_b(conn, slow(2, db_))]


def run(da, db_):
    s = Scheduler()
    s.load()
    s.run(main(da, db_))
    out = {}
    for cn in s.backend.session.query(CallNode).all():
        if cn.task_name.endswith("use_a") or cn.task_name.endswith("use_b"):
            out[cn.task_name.split(".")[-1]] = cn.args_hash[:10]
    return out


if __name__ == "__main__":
    r1 = run(0.05, 0.6)  # use_a ready first
    r2 = run(0.6, 0.05)  # use_b ready first
    print("use_a first:", r1)
    print("use_b first:", r2)
    print("F-C07b recorded args_hash depends on arrival order:", r1 != r2)
    sys.exit(0)
