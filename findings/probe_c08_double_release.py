import sys, logging
logging.disable(logging.CRITICAL)
from redun import Scheduler, task
from redun.scheduler import catch
from redun.config import Config

redun_namespace = "probe"

@task(limits=["x"], cache=False)
def child_fail():
    raise ValueError("boom")

@task(limits=["x"], cache=False)
def parent():
    return child_fail()

@task()
def recover(err):
    return "recovered"

@task()
def main():
    return catch(parent(), ValueError, recover)

s = Scheduler(config=Config({"limits": {"x": "5"}}))
s.load()
print(s.run(main()))
print("limits_used after run:", dict(s.limits_used))
