"""
C09 probe: an async task that holds a resource limit while it `await`s a child
expression needing the same limit.

Exit 0: every execution below terminated with the right value.
Exit 1: at least one execution hung (the watchdog had to break the scheduler loop).
"""
import os
import sys
import threading

sys.path.insert(0, os.path.dirname(os.path.dirname(os.path.abspath(__file__))))

from redun import Scheduler, task  # noqa: E402
from redun.config import Config  # noqa: E402

redun_namespace = "probe_asynclimits"
TIMEOUT = 8.0


class Hang(BaseException):
    pass


def run(scheduler, expr):
    """scheduler.run(expr), but a watchdog raises Hang inside the event loop after TIMEOUT."""
    finished = threading.Event()

    def bomb():
        raise Hang()

    def watchdog():
        if not finished.wait(TIMEOUT):
            scheduler.events_queue.put(bomb)

    threading.Thread(target=watchdog, daemon=True).start()
    try:
        return scheduler.run(expr)
    finally:
        finished.set()


# Case 1: the reported program. Neither job asks for more than the limit (1 of 1).
@task(limits=["api"], cache=False)
async def child(x):
    return x + 1


@task(limits=["api"], cache=False)
async def parent(x):
    y = await child(x)
    return y + 10


# Case 2: same, but the awaited child is an ordinary sync task.
@task(limits=["api"], cache=False)
def sync_child(x):
    return x + 1


@task(limits=["api"], cache=False)
async def parent_of_sync(x):
    y = await sync_child(x)
    return y + 10


# Control: the lazy (sync) spelling of case 1 must work (parent releases before child runs).
@task(limits=["api"], cache=False)
def add10(y):
    return y + 10


@task(limits=["api"], cache=False)
def lazy_parent(x):
    return add10(sync_child(x))


def attempt(name, expr, expected):
    scheduler = Scheduler(config=Config({"limits": {"api": "1"}}))
    scheduler.load()
    try:
        result = run(scheduler, expr)
    except Hang:
        waiting = [job.task.fullname for job, _ in scheduler._jobs_pending_limits]
        holding = [
            f"{job.task.fullname}:{job.status}" for job in scheduler._jobs if job.limits_held
        ]
        print(
            f"FAIL {name}: execution hung. limits_used={dict(scheduler.limits_used)} "
            f"holding={holding} waiting_for_limits={waiting}"
        )
        return False
    if result != expected:
        print(f"FAIL {name}: result {result!r} != {expected!r}")
        return False
    print(f"ok   {name}: {result!r}")
    return True


def main():
    ok = attempt("control lazy parent/child share limit", lazy_parent(1), 12)
    ok &= attempt("async parent awaits async child, same limit", parent(1), 12)
    ok &= attempt("async parent awaits sync child, same limit", parent_of_sync(1), 12)
    sys.stdout.flush()
    # The async loop thread / stuck coroutines may keep the interpreter alive.
    os._exit(0 if ok else 1)


if __name__ == "__main__":
    main()
