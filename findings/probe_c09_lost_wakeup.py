"""F-C09 reproduction (found by a seeding sub-agent on unchanged code): a job that waited for resource limits is
re-nominated by _check_jobs_pending_limits, re-enters _exec_job_main_thread and leaves through the duplicate-call
shortcut (or a cache hit) WITHOUT consuming the units that were projected for it -- and without waking the rest of the
wait queue.  Nobody releases, so the remaining queued jobs wait forever with every resource free and run() never returns.
Run: /venv/bin/python probe_c09_lost_wakeup.py   (exit 1 + message when the execution hangs)."""
import sys  # noqa: F401
import threading
import time

from redun import Scheduler, task
from redun.config import Config

redun_namespace = "probe_c09"


@task(limits=["api"])
def work(i):
    time.sleep(0.05)
    return i


@task()
def wrap(tag, i):
    return work(i)


@task()
def main():
    return [wrap("a", i) for i in range(3)] + [wrap("b", i) for i in range(3)]


cfg = Config({"limits": {"api": 1}})
s = Scheduler(config=cfg)
s.load()


def watchdog():
    time.sleep(20)
    print("HANG: run() did not return; waiting jobs:", [j.task.name for j, _ in s._jobs_pending_limits], "limits_used:", dict(s.limits_used), flush=True)
    import os

    os._exit(1)


threading.Thread(target=watchdog, daemon=True).start()
print("ok", s.run(main()))
