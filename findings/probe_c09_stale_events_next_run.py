"""
PRE-EXISTING (unchanged code) C12 violation: events of jobs that were still running when a
workflow failed stay in `Scheduler.events_queue` (executor.stop() waits for them, nobody drains
the queue) and are processed at the start of the NEXT `run()` on the same Scheduler. The stale
`_resolve_job_main_thread` -> `_finalize_job` does `self._jobs.remove(job)` on the cleared set, so
the later execution dies with KeyError: the failed call is not executed again and run() does not
raise the task's error. Exits non-zero when the defect is present.
"""
import os
import sys
import time

sys.path.insert(0, os.path.dirname(os.path.dirname(os.path.abspath(__file__))))
from redun import Scheduler, task  # noqa: E402

redun_namespace = "seed3_c12_stale"
calls = []


@task()
def fail():
    calls.append("fail")
    raise ValueError("BOOM")


@task()
def slow():
    time.sleep(0.5)
    return 1


@task()
def main():
    return [fail(), slow()]


scheduler = Scheduler()
scheduler.load()
errors = []
for _ in range(2):
    try:
        scheduler.run(main())
    except Exception as error:
        errors.append(error)
print([type(e).__name__ for e in errors], calls)
assert [type(e) for e in errors] == [ValueError, ValueError], errors  # 2nd is KeyError
assert calls == ["fail", "fail"], calls  # 2nd run never re-executes fail()
