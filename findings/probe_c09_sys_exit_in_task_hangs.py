"""Probe (not a check): a task that ends with sys.exit() (SystemExit is not an Exception) on the local thread executor is never settled:
LocalExecutor's completion callback catches only Exception, concurrent.futures swallows what escapes a callback, and run() blocks for ever.
Usage: probe [repo-root]; exit 1 if run() has not returned after 10 s."""
import os, subprocess, sys, tempfile, shutil

root = sys.argv[1] if len(sys.argv) > 1 else "/repo"
child = r'''
import sys
sys.path.insert(0, %r)
from redun import Scheduler, task
redun_namespace = "probe_c09"
@task()
def quits(x):
    sys.exit(3)
@task()
def main():
    return quits(1)
s = Scheduler()
s.load()
try:
    s.run(main())
except BaseException as e:
    print("run() raised", type(e).__name__, e)
''' % root
tmp = tempfile.mkdtemp()
script = os.path.join(tmp, "child_c09.py")
open(script, "w").write(child)
try:
    out = subprocess.run([sys.executable, script], capture_output=True, text=True, timeout=10)
    print(out.stdout[-300:])
    rc = 0
except subprocess.TimeoutExpired:
    print("run() did not return within 10 s: the job that called sys.exit() was never settled")
    rc = 1
shutil.rmtree(tmp)
sys.exit(rc)
