"""
Probe for property C10: "Remote-executor monitors never lose a submitted job".

Part 1 (AWS Batch) / Part 2 (GCP Batch):
    A `debug=True` job (routed to the inner DockerExecutor) is in flight while an
    ordinary batch job finishes.  The batch monitor thread drains its own pending
    set and shuts itself down.  The docker job finishes a moment later and must
    still be reported to the scheduler.

Part 3 (JobArrayer):
    `JobArrayer.stop()` has set the exit flag but the arrayer thread has not
    returned yet (it is inside the submit callback).  A job added in that window
    (add_job -> start()) must still be flushed to the submit callback.

Exit status: 1 when any part shows a lost job, 0 when all jobs are reported.
No network, no real docker, no real AWS/GCP: every API boundary is mocked.
"""

import os
import sys
import tempfile
import threading
import time
from unittest.mock import Mock, patch

ROOT = os.path.dirname(os.path.dirname(os.path.abspath(__file__)))
sys.path.insert(0, ROOT)

from redun import task  # noqa: E402
from redun.config import Config  # noqa: E402
from redun.job_array import JobArrayer  # noqa: E402
from redun.scheduler import Job, Scheduler  # noqa: E402

assert os.path.abspath(sys.modules["redun"].__file__).startswith(ROOT), sys.modules["redun"]

SUCCEEDED = "SUCCEEDED"
WAIT = 5.0


@task()
def task1(x):
    return x + 10


def wait_until(cond, timeout=WAIT, interval=0.02):
    deadline = time.time() + timeout
    while time.time() < deadline:
        if cond():
            return True
        time.sleep(interval)
    return cond()


def make_scheduler():
    scheduler = Scheduler()
    scheduler.load()
    reported = {}

    def done_job(job, result, job_tags=[]):
        reported[job.id] = ("done", result)

    def reject_job(job, error, error_traceback=None, job_tags=[]):
        reported[job.id if job else None] = ("failed", error)

    scheduler.done_job = done_job
    scheduler.reject_job = reject_job
    scheduler.add_job_tags = lambda job, tags: None
    return scheduler, reported


def make_job(x, eval_hash, **options):
    t = task1.options(**options) if options else task1
    job = Job(t, t(x))
    job.eval_hash = eval_hash
    job.args = ((x,), {})
    return job


def mixed_debug_schedule(name, executor, reported, batch_state, docker_state, batch_pending):
    """
    Common schedule for parts 1 and 2.  Returns a list of problems.
    """
    problems = []
    docker = executor._docker_executor
    try:
        # 1. debug job -> inner DockerExecutor; its container keeps running.
        debug_job = make_job(1, "hash_debug", debug=True)
        executor.submit(debug_job)
        assert list(docker._pending_jobs.values()) == [debug_job], docker._pending_jobs
        assert docker._thread and docker._thread.is_alive()

        # 2. ordinary job -> cloud batch; monitor thread starts.
        batch_job = make_job(2, "hash_batch")
        executor.submit(batch_job)
        assert wait_until(lambda: len(batch_pending()) == 1), "batch job was not submitted"
        batch_thread = executor._thread
        assert batch_thread is not None

        # 3. the batch job succeeds; the batch monitor drains and shuts itself down.
        batch_state["done"] = True
        if not wait_until(lambda: batch_job.id in reported):
            problems.append(f"{name}: ordinary batch job never reported (setup problem)")
            return problems
        batch_thread.join(WAIT)
        assert not batch_thread.is_alive(), "batch monitor did not wind down"

        # 4. only now does the docker container finish.
        still_pending = len(docker._pending_jobs)
        docker_alive = bool(docker._thread and docker._thread.is_alive())
        docker_state["done"] = True
        if not wait_until(lambda: debug_job.id in reported, timeout=3.0):
            problems.append(
                f"{name}: debug=True job LOST: never reported to the scheduler after the batch "
                f"monitor drained its own jobs (docker monitor alive={docker_alive}, "
                f"docker _is_running={docker._is_running}, "
                f"docker jobs still pending={still_pending})"
            )
        elif reported[debug_job.id] != ("done", 11):
            problems.append(f"{name}: debug job reported wrongly: {reported[debug_job.id]}")
        if None in reported:
            problems.append(f"{name}: scheduler-level error reported: {reported[None]!r}")
    finally:
        executor.stop()
    return problems


def docker_patches(docker_state):
    def iter_job_status(scratch_prefix, pending):
        if docker_state["done"]:
            for job_id in pending:
                yield {"jobId": job_id, "status": SUCCEEDED, "logs": ""}

    return [
        patch("redun.executors.docker.run_docker", return_value="container-1"),
        patch("redun.executors.docker.iter_job_status", side_effect=iter_job_status),
        patch("redun.executors.docker.parse_job_result", return_value=(11, True)),
    ]


def part_aws(tmp):
    from redun.executors.aws_batch import AWSBatchExecutor

    scheduler, reported = make_scheduler()
    config = Config(
        {
            "batch": {
                "image": "my-image",
                "queue": "queue",
                "s3_scratch": "s3://example-bucket/redun/",
                "debug_scratch": os.path.join(tmp, "aws_debug"),
                "job_monitor_interval": 0.02,
                "job_stale_time": 0.01,
                "min_array_size": 0,
                "code_package": False,
            }
        }
    )
    batch_state = {"done": False}
    docker_state = {"done": False}

    def iter_batch_job_status(job_ids, pending_truncate=10, aws_region=None):
        if batch_state["done"]:
            for job_id in job_ids:
                yield {"jobId": job_id, "status": SUCCEEDED, "container": {"logStreamName": "l"}}

    patches = docker_patches(docker_state) + [
        patch("redun.executors.aws_utils.get_aws_user", return_value="alice"),
        patch("redun.executors.aws_batch.submit_task", return_value={"jobId": "batch-1"}),
        patch("redun.executors.aws_batch.iter_batch_job_status", side_effect=iter_batch_job_status),
        patch("redun.executors.aws_batch.parse_job_result", return_value=(12, True)),
    ]
    for p in patches:
        p.start()
    try:
        executor = AWSBatchExecutor("batch", scheduler, config["batch"])
        executor.get_jobs = Mock(return_value=[])
        executor.get_array_child_jobs = Mock(return_value=[])
        return mixed_debug_schedule(
            "aws_batch",
            executor,
            reported,
            batch_state,
            docker_state,
            lambda: executor.pending_batch_jobs,
        )
    finally:
        for p in patches:
            p.stop()


def part_gcp(tmp):
    try:
        from google.cloud import batch_v1
    except ImportError:
        print("gcp_batch: google-cloud-batch not installed; part skipped")
        return []

    batch_state = {"done": False}
    docker_state = {"done": False}

    def get_task(client, task_name):
        state = (
            batch_v1.TaskStatus.State.SUCCEEDED
            if batch_state["done"]
            else batch_v1.TaskStatus.State.RUNNING
        )
        return batch_v1.Task(name=task_name, status=batch_v1.TaskStatus(state=state))

    patches = docker_patches(docker_state) + [
        patch("redun.executors.gcp_utils.get_gcp_batch_client"),
        patch("redun.executors.gcp_utils.get_gcp_compute_client"),
        patch("redun.executors.gcp_utils.list_jobs", return_value=[]),
        patch("redun.executors.gcp_utils.get_task", side_effect=get_task),
        patch("redun.executors.gcp_batch.parse_job_result", return_value=(12, True)),
    ]
    for p in patches:
        p.start()
    try:
        from redun.executors.gcp_batch import GCPBatchExecutor

        scheduler, reported = make_scheduler()
        config = Config(
            {
                "gcp_batch": {
                    "gcs_scratch": "gs://example-bucket/redun",
                    "debug_scratch": os.path.join(tmp, "gcp_debug"),
                    "project": "project",
                    "region": "region",
                    "image": "image",
                    "job_monitor_interval": 0.02,
                    "job_stale_time": 0.01,
                    "min_array_size": 0,
                    "code_package": False,
                }
            }
        )
        executor = GCPBatchExecutor("gcp_batch", scheduler, config["gcp_batch"])

        # Stand-in for the cloud submission itself (the only stubbed executor method).
        def submit_single_job(job):
            executor.pending_batch_tasks[f"group-{job.id}/tasks/0"] = job

        executor._submit_single_job = submit_single_job
        return mixed_debug_schedule(
            "gcp_batch",
            executor,
            reported,
            batch_state,
            docker_state,
            lambda: executor.pending_batch_tasks,
        )
    finally:
        for p in patches:
            p.stop()


def part_arrayer():
    """
    Schedule: arrayer thread T is inside the submit callback for job A (blocked on an Event);
    thread S calls arrayer.stop() (sets the exit flag, joins T); main thread calls
    add_job(B) -> start(); then T is released and returns.
    """
    problems = []
    submitted = []
    in_callback = threading.Event()
    release = threading.Event()

    def submit_jobs(jobs):
        submitted.extend(jobs)
        if not in_callback.is_set():
            in_callback.set()
            release.wait(WAIT)

    errors = []
    arrayer = JobArrayer(
        submit_jobs, errors.append, submit_interval=0.02, stale_time=0.01, min_array_size=2
    )
    job_a = make_job(1, "hash_a")
    job_b = make_job(2, "hash_b", memory=8)  # different description => separate group
    try:
        arrayer.add_job(job_a)
        assert in_callback.wait(WAIT), "arrayer thread never flushed job A"
        old_thread = arrayer._monitor_thread

        stopper = threading.Thread(target=arrayer.stop)
        stopper.start()
        assert wait_until(arrayer._exit_flag.is_set), "stop() did not set the exit flag"
        assert old_thread.is_alive()

        # The window: exit flag set, old thread still alive.  add_job() may block until the
        # old thread is gone, so release the old thread shortly after from a timer.
        threading.Timer(0.2, release.set).start()
        arrayer.add_job(job_b)

        stopper.join(WAIT)
        old_thread.join(WAIT)
        assert not old_thread.is_alive()

        if not wait_until(lambda: job_b in submitted, timeout=3.0):
            problems.append(
                "job_array: job added while JobArrayer.stop() was in flight was NEVER flushed "
                f"(num_pending={arrayer.num_pending}, "
                f"monitor thread alive={arrayer._monitor_thread.is_alive()}, "
                f"exit flag set={arrayer._exit_flag.is_set()})"
            )
        if errors:
            problems.append(f"job_array: on_error called: {errors!r}")
    finally:
        release.set()
        arrayer.stop()
    return problems


def main():
    problems = []
    with tempfile.TemporaryDirectory() as tmp:
        for name, part in [
            ("aws_batch", lambda: part_aws(tmp)),
            ("gcp_batch", lambda: part_gcp(tmp)),
            ("job_array", part_arrayer),
        ]:
            found = part()
            print(f"[{name}] {'FAIL' if found else 'ok'}")
            problems.extend(found)

    for problem in problems:
        print("DEFECT:", problem)
    # Anything non-daemon still alive would hang interpreter exit; report it.
    leftovers = [t for t in threading.enumerate() if t is not threading.main_thread() and not t.daemon]
    if leftovers:
        print("note: non-daemon threads still alive:", leftovers)
    return 1 if problems else 0


if __name__ == "__main__":
    sys.exit(main())
