"""
C10 probe: AWSGlueExecutor must not lose a job whose Glue StartJobRun call is in
flight while the monitor thread evaluates its loop guard.

Schedule forced (per scenario, single job, fresh executor):
  submit(job) -> submission thread takes the job and enters the (slow) Glue API
  call -> the call is held until the monitor thread has evaluated its
  `while is_running and (running or pending)` guard at least twice (or died)
  -> the call returns (scenario A: a run id; scenario B: first a
  ConcurrentRunsExceededException, then a run id) -> the fake cloud completes
  the run -> the scheduler must be told done/failed.

Exit 1 if a job is never reported, else exit 0. No network; Glue is faked in-process.
"""

import os
import pickle
import sys
import tempfile
import threading
import time
from unittest.mock import Mock, patch

sys.path.insert(0, os.path.dirname(os.path.dirname(os.path.abspath(__file__))))

from redun import File, Scheduler, task  # noqa: E402
from redun.config import Config  # noqa: E402
from redun.executors import aws_glue  # noqa: E402
from redun.executors.aws_glue import AWSGlueExecutor  # noqa: E402
from redun.executors.scratch import SCRATCH_OUTPUT, get_job_scratch_file  # noqa: E402
from redun.scheduler import Job  # noqa: E402

assert aws_glue.__file__.startswith(os.path.dirname(os.path.dirname(os.path.abspath(__file__))))


@task()
def add10(x: int) -> int:
    return x + 10


class ConcurrentRuns(Exception):
    pass


class NoDPUs(Exception):
    pass


class FakeGlue:
    def __init__(self, scratch, fail_first):
        self.scratch = scratch
        self.lock = threading.Lock()
        self.runs = {}
        self.polls = 0  # number of times the monitor loop body ran
        self.submit_calls = 0
        self.fail_first = fail_first
        self.executor = None

    def _hold_until_monitor_looked(self):
        """Keep the 'API call' in flight until the monitor re-evaluated its guard."""
        start = self.polls
        stop = time.time() + 3
        while time.time() < stop:
            if self.polls >= start + 2 or not self.executor._monitor_thread.is_alive():
                return
            time.sleep(0.005)

    def submit_glue_job(self, job, a_task, **kwargs):
        self.submit_calls += 1
        if self.submit_calls == 1:
            self._hold_until_monitor_looked()
            if self.fail_first:
                raise ConcurrentRuns()
        with self.lock:
            run_id = f"jr_{len(self.runs) + 1}"
            self.runs[run_id] = {"job": job, "state": "RUNNING"}
        return {"JobRunId": run_id}

    def glue_describe_jobs(self, job_ids, glue_job_name, aws_region=None):
        self.polls += 1
        out = []
        for run_id in job_ids:
            with self.lock:
                out.append({"Id": run_id, "JobRunState": self.runs[run_id]["state"]})
        return iter(out)

    def complete_all(self):
        with self.lock:
            todo = [r for r in self.runs.values() if r["state"] == "RUNNING"]
        for run in todo:
            job = run["job"]
            args, kwargs = job.args
            out = File(get_job_scratch_file(self.scratch, job, SCRATCH_OUTPUT))
            with out.open("wb") as fh:
                pickle.dump(job.task.func(*args, **kwargs), fh)
            with self.lock:
                run["state"] = "SUCCEEDED"


def wait_until(cond, timeout):
    stop = time.time() + timeout
    while time.time() < stop:
        if cond():
            return True
        time.sleep(0.01)
    return cond()


def scenario(name, fail_first):
    tmp = tempfile.mkdtemp(prefix="fx_glue_")
    scratch = os.path.join(tmp, "scratch")
    os.makedirs(scratch)
    fake = FakeGlue(scratch, fail_first)

    client = Mock()
    client.exceptions.ConcurrentRunsExceededException = ConcurrentRuns
    client.exceptions.ResourceNumberLimitExceededException = NoDPUs

    config = Config(
        {
            "glue": {
                "s3_scratch": scratch,
                "role": "arn:aws:iam::123:role/service-role/AWSGlueServiceRole",
                "aws_region": "us-west-2",
                "job_monitor_interval": 0.03,
                "job_retry_interval": 0.03,
                "code_package": False,
            }
        }
    )
    scheduler = Scheduler()
    scheduler.load()
    reported, fatal = {}, []
    scheduler.done_job = lambda job, result, job_tags=[]: reported.__setitem__(
        job.id, ("done", result)
    )

    def reject_job(job, error, error_traceback=None, job_tags=[]):
        if job is None:
            fatal.append(error)
        else:
            reported[job.id] = ("failed", error)

    scheduler.reject_job = reject_job

    with (
        patch.object(aws_glue, "submit_glue_job", fake.submit_glue_job),
        patch.object(aws_glue, "glue_describe_jobs", fake.glue_describe_jobs),
        patch.object(aws_glue.aws_utils, "get_aws_client", return_value=client),
    ):
        executor = AWSGlueExecutor("glue", scheduler, config["glue"])
        fake.executor = executor
        executor.glue_job_name = "fake-glue-job"
        executor.redun_zip_location = os.path.join(tmp, "redun.zip")
        executor.code_file = File(os.path.join(tmp, "code.zip"))
        executor.get_jobs = Mock(return_value=[])

        job = Job(add10, add10(1))
        job.id = "job_a"
        job.eval_hash = "hash_job_a"
        job.args = ((1,), {})
        try:
            executor.submit(job)

            def step():
                fake.complete_all()
                return "job_a" in reported

            ok = wait_until(step, 4)
            state = (
                f"reported={reported} fatal={fatal} glue_runs={list(fake.runs)} "
                f"submit_calls={fake.submit_calls} is_running={executor.is_running} "
                f"monitor_alive={executor._monitor_thread.is_alive()} "
                f"submit_thread_alive={executor._submit_thread.is_alive()} "
                f"running_glue_jobs={list(executor.running_glue_jobs)} "
                f"pending={len(executor.pending_glue_jobs)}"
            )
        finally:
            executor.stop()
            executor.pending_glue_jobs.clear()
            executor._monitor_thread.join(timeout=5)
            executor._submit_thread.join(timeout=5)

    good = ok and reported.get("job_a") == ("done", 11) and not fatal
    print(f"[{name}] {'ok' if good else 'LOST/WRONG'}: {state}")
    return good


if __name__ == "__main__":
    results = [
        scenario("A: submit API call in flight while monitor checks", False),
        scenario("B: throttled submit (job_id None) while monitor checks, then retried", True),
    ]
    if all(results):
        print("OK: every submitted Glue job was reported to the scheduler")
        sys.exit(0)
    print("DEFECT: a job handed to AWSGlueExecutor.submit() was never reported done/failed")
    sys.exit(1)
