"""F-C10 reproduction: the start/exit handshake between a submitting thread and an executor's monitor thread is not atomic.

Forced interleaving (no sleeps): the monitor thread leaves its loop because nothing is pending and then blocks inside the
"Shutting down executor..." log call (patched to wait); meanwhile the submitting thread registers a job and calls _start(),
which sees the executor still running / the thread still alive and starts nothing; the monitor then finishes.  Result: a
pending job with no monitor thread -- it is never reported done or failed.  Documentation only, not part of any check."""
import threading
from collections import OrderedDict, deque
from unittest import mock


class FakeScheduler:
    class logger:
        level = 0

    def log(self, *a, **k):
        pass

    def reject_job(self, *a, **k):
        print("   reject_job", a[1] if len(a) > 1 else a)


class FakeArrayer:
    num_pending = 0

    def stop(self):
        pass


def drive(name, ex, pending_attr, thread_attr, stop_uses_log=True):
    in_gap, release = threading.Event(), threading.Event()

    def blocking_log(*a, **k):
        if a and "Shutting down" in str(a[0]):
            in_gap.set()
            release.wait(2)

    ex.log = blocking_log
    if not stop_uses_log:
        # the Glue monitor calls stop() right after the loop: block there instead
        orig_stop = ex.stop

        def blocking_stop():
            in_gap.set()
            release.wait(2)
            orig_stop()

        ex.stop = blocking_stop
    t = threading.Thread(target=ex._monitor)
    setattr(ex, thread_attr, t)
    ex.is_running = True
    ex._is_running = True
    t.start()
    assert in_gap.wait(2), "monitor did not reach the gap"
    # submitting thread: register a job, then _start()
    pend = getattr(ex, pending_attr)
    if isinstance(pend, deque):
        pend.append("job-1")
    else:
        pend["job-1"] = "job-1"
    ex._start()
    started_new = getattr(ex, thread_attr) is not t
    release.set()
    t.join(2)
    alive = getattr(ex, thread_attr).is_alive()
    print(f"{name}: pending={len(getattr(ex, pending_attr))} new_thread_started={started_new} monitor_alive_afterwards={alive} -> {'JOB LOST' if not alive and not started_new else 'ok'}")


def make(cls, **attrs):
    ex = cls.__new__(cls)
    ex.name = "x"
    ex._scheduler = FakeScheduler()
    ex.interval = ex._interval = 0.01
    for k, v in attrs.items():
        setattr(ex, k, v)
    return ex


from redun.executors.docker import DockerExecutor

drive("DockerExecutor", make(DockerExecutor, _pending_jobs=OrderedDict(), _thread=None, _scratch_prefix_abs="/tmp/x", _scratch_prefix_rel="x"), "_pending_jobs", "_thread")

from redun.executors.aws_batch import AWSBatchExecutor

with mock.patch("redun.executors.aws_utils.get_aws_user", return_value="u"):
    drive("AWSBatchExecutor", make(AWSBatchExecutor, pending_batch_jobs={}, arrayer=FakeArrayer(), _docker_executor=mock.Mock(), _thread=None, aws_region="r"), "pending_batch_jobs", "_thread")

from redun.executors.k8s import K8SExecutor

drive("K8SExecutor", make(K8SExecutor, pending_k8s_jobs={}, arrayer=FakeArrayer(), _thread=None, create_namespace=False, _setup_secrets=lambda: None), "pending_k8s_jobs", "_thread")

try:
    from redun.executors.gcp_batch import GCPBatchExecutor

    with mock.patch("redun.executors.gcp_utils.get_gcp_batch_client", return_value=None):
        drive("GCPBatchExecutor", make(GCPBatchExecutor, pending_batch_tasks={}, arrayer=FakeArrayer(), _docker_executor=mock.Mock(), _thread=None), "pending_batch_tasks", "_thread")
except Exception as e:  # optional dependency
    print("GCPBatchExecutor: skipped", type(e).__name__, e)

from redun.executors.aws_glue import AWSGlueExecutor

ex = make(AWSGlueExecutor, running_glue_jobs={}, pending_glue_jobs=deque(), glue_job_name="g", aws_region="r", retry_interval=0.01)
ex._submit_thread = threading.Thread(target=lambda: None)
ex._submission_thread = lambda: None
drive("AWSGlueExecutor(_monitor)", ex, "pending_glue_jobs", "_monitor_thread", stop_uses_log=False)

# AWSGlueExecutor._submission_thread: the window is between the evaluation of the loop guard and the end of the thread.
class GapDeque(deque):
    in_gap, release, armed = threading.Event(), threading.Event(), True

    def __len__(self):
        n = super().__len__()
        if n == 0 and GapDeque.armed and threading.current_thread().name == "submitter":
            GapDeque.armed = False
            GapDeque.in_gap.set()
            GapDeque.release.wait(2)  # descheduled right after reading "empty"
        return n


ex = make(AWSGlueExecutor, running_glue_jobs={}, pending_glue_jobs=GapDeque(), glue_job_name="g", aws_region="r", retry_interval=0.01)
ex.is_running = True
ex._monitor_thread = threading.Thread(target=lambda: None)
ex._monitor = lambda: None
t = threading.Thread(target=ex._submission_thread, name="submitter")
ex._submit_thread = t
t.start()
assert GapDeque.in_gap.wait(2)
ex.pending_glue_jobs.append("job-1")
ex._start()
started_new = ex._submit_thread is not t
GapDeque.release.set()
t.join(2)
print(f"AWSGlueExecutor(_submission_thread): pending={len(ex.pending_glue_jobs)} new_thread_started={started_new} submitter_alive_afterwards={ex._submit_thread.is_alive()} -> {'JOB NEVER SUBMITTED' if not started_new and not ex._submit_thread.is_alive() else 'ok'}")
