"""F-C11a reproduction: JobArrayer.get_stale_descrs iterates `pending` without the lock while add_job (another thread)
inserts a new group.  The interleaving is forced: the lookup of a group's timestamp inside the iteration waits for a
concurrent add_job of a *new* group.  Unfixed: RuntimeError('dictionary changed size during iteration') reaches on_error
("the monitor never fails" is violated).  Fixed: add_job waits for the lock, no error.  Documentation only."""
import threading
import time

from redun import task
from redun.job_array import JobArrayer
from redun.scheduler import Job

redun_namespace = "probe_c11"


@task()
def t1(x):
    return x


@task()
def t2(x):
    return x


errors = []
arr = JobArrayer(submit_jobs=lambda jobs: None, on_error=errors.append, submit_interval=1000, stale_time=0.0, min_array_size=2)
arr.start = lambda: None  # no background monitor: we play its role in this thread


class HookedTimestamps(dict):
    armed = False

    def __getitem__(self, key):
        if HookedTimestamps.armed:
            HookedTimestamps.armed = False
            th = threading.Thread(target=lambda: arr.add_job(Job(t2, t2(1))))
            th.start()
            th.join(timeout=0.5)  # unfixed: completes (no lock held by us); fixed: blocks on the lock until we finish
        return dict.__getitem__(self, key)


arr.pending_timestamps = HookedTimestamps()
arr.add_job(Job(t1, t1(1)))
time.sleep(0.01)
HookedTimestamps.armed = True
try:
    arr.get_stale_descrs()
    print("get_stale_descrs: no error")
except RuntimeError as e:
    print("get_stale_descrs raised:", e)
