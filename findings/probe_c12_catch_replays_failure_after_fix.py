"""Probe (not a check): catch() stores `recover(error)` in the backend cache under a key made of the *expression* hash of its arguments (task
names and argument values, no task hashes).  After the failing task has been fixed, a later execution replays the remembered failure:
the fixed task is never run.  Usage: probe [repo-root]; exit 1 if the stale recovery is replayed."""
import sys

sys.path.insert(0, sys.argv[1] if len(sys.argv) > 1 else "/repo")
from redun import Scheduler, task  # noqa: E402
from redun.scheduler import catch  # noqa: E402

redun_namespace = "probe_c12"
calls = []


@task()
def flaky(x):
    calls.append("flaky-v1")
    raise ValueError("boom")


@task()
def recover(err):
    return -1


@task()
def main(x):
    return catch(flaky(x), ValueError, recover)


s = Scheduler()
s.load()
assert s.run(main(1)) == -1


@task()  # noqa: F811  the bug is fixed
def flaky(x):  # noqa: F811
    calls.append("flaky-v2")
    return x + 100


out = s.run(main(1))
print("second run returned", out, "calls", calls)
sys.exit(0 if out == 101 and "flaky-v2" in calls else 1)
