"""Probe (not a check): a forked thread that fails and is never joined leaves its rejected promise in Scheduler._tracked_promises; clear() does not drop
it, so a later execution on the same Scheduler that joins the old Thread (shallow cache hit of make_thread) re-raises the stale failure without running
the failing task again.  Usage: probe [repo-root]; exit 1 if the failed call is not executed again."""
import os, sys, time
sys.path.insert(0, sys.argv[1] if len(sys.argv) > 1 else "/repo")
from redun import task, Scheduler
from redun.scheduler import fork_thread, join_thread
redun_namespace = "explore3"
calls = []

@task
def boom(x):
    calls.append(x)
    raise ValueError(f"boom {x}")

@task
def make_thread(x):
    return fork_thread(boom(x))

@task(cache=False)
def wait_for_boom(thread):
    while not calls:
        time.sleep(0.01)
    time.sleep(0.3)
    return "waited"

@task
def take_thread(thread):
    return join_thread(thread)

@task
def main1(x):
    thread = make_thread.options(check_valid="shallow")(x)
    return wait_for_boom(thread)

@task
def main2(x):
    thread = make_thread.options(check_valid="shallow")(x)
    return take_thread(thread)

s = Scheduler(); s.load()
print("run1 ->", s.run(main1(10)), "calls", calls)
try:
    s.run(main2(10))
except ValueError as e:
    print("run2 raised", e, "calls", calls)

sys.exit(0 if calls.count(10) >= 2 else 1)
