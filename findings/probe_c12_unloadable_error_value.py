"""
Probe for C12: a failed call whose exception pickles but cannot be unpickled.

Exit 1 if the defect is present, 0 if the behaviour is right.
"""
import os
import sys

sys.path.insert(0, os.path.dirname(os.path.dirname(os.path.abspath(__file__))))

from redun import Scheduler, task  # noqa: E402
from redun.scheduler import catch  # noqa: E402

redun_namespace = "fx_unpicklableerror"

calls = []
problems = []


class TwoArgError(Exception):
    # Pickles fine (args == ("1-2",)), but unpickling calls TwoArgError("1-2") -> TypeError.
    def __init__(self, a, b):
        super().__init__(f"{a}-{b}")


@task(check_valid="shallow")
def shallow_boom(x):
    calls.append("shallow_boom")
    raise TwoArgError(1, 2)


@task()
def boom(x):
    calls.append("boom")
    raise TwoArgError(1, 2)


@task()
def recover(e):
    return "rec"


@task()
def second(prev):
    return catch(boom(1), TwoArgError, recover)


@task()
def main():
    a = catch(boom(1), TwoArgError, recover)
    return second(a)


# Case (a): a later execution must re-execute the failed call and raise the task's error.
scheduler = Scheduler()
scheduler.load()
for i in range(2):
    try:
        scheduler.run(shallow_boom(1))
        problems.append(f"(a) run {i}: no exception raised")
    except Exception as error:
        if type(error) is not TwoArgError or str(error) != "1-2":
            problems.append(f"(a) run {i}: raised {type(error).__name__}: {error}")
if calls != ["shallow_boom", "shallow_boom"]:
    problems.append(f"(a) failed call not executed again: calls={calls}")

# Case (b): an equivalent failing call later in the same execution must fail the same way
# (and here be caught the same way), not crash the scheduler.
del calls[:]
scheduler = Scheduler()
scheduler.load()
for i in range(2):
    try:
        result = scheduler.run(main())
        if result != "rec":
            problems.append(f"(b) run {i}: unexpected result {result!r}")
    except Exception as error:
        problems.append(f"(b) run {i}: raised {type(error).__name__}: {error}")

if problems:
    print("DEFECT PRESENT:")
    for problem in problems:
        print("  " + problem)
    sys.exit(1)
print("OK")
sys.exit(0)
