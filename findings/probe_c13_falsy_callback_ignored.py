"""Probe (not a check): Promise.then(resolver) tests `if resolver:`; a callable whose truth value is False is treated as "no callback".
Usage: probe [repo-root]; exit 1 if the registered callback does not run."""
import sys

sys.path.insert(0, sys.argv[1] if len(sys.argv) > 1 else "/repo")
from redun.promise import Promise  # noqa: E402


class Handlers(list):
    """A callable container that starts empty (falsy)."""

    seen = None

    def __call__(self, value):
        Handlers.seen = value
        return value


cb = Handlers()
p = Promise()
p.then(cb)
p.do_resolve(7)
print("callback saw:", Handlers.seen)
sys.exit(0 if Handlers.seen == 7 else 1)
