"""C13: a callback registered from inside another callback of the same (now settled) promise runs before callbacks that were registered earlier."""
import sys; sys.path.insert(0, sys.argv[1] if len(sys.argv) > 1 else '/repo')
from redun.promise import Promise
order = []
p = Promise()
def a(v):
    order.append("a")
    p.then(lambda v: order.append("c"))
p.then(a)
p.then(lambda v: order.append("b"))
p.do_resolve(1)
print(order)
assert order == ["a", "b", "c"], order
