"""C14: values that are not integers, strings, byte strings, lists/tuples or mappings are encoded as lists instead of being rejected."""
import sys; sys.path.insert(0, sys.argv[1] if len(sys.argv) > 1 else '/repo')
from redun.bcoding import bencode
bad = []
for name, v, twin in (("bytearray", bytearray(b"ab"), [97, 98]), ("range", range(2), [0, 1]), ("generator", (i for i in (1, 2)), [1, 2]), ("set", {"a"}, ["a"]), ("dict_keys", {"a": 1}.keys(), ["a"])):
    try:
        e = bencode(v)
        bad.append(f"{name} encoded as {e!r}" + (" == bencode(%r)" % (twin,) if e == bencode(twin) else ""))
    except TypeError:
        pass
print("\n".join(bad) or "OK")
sys.exit(1 if bad else 0)
