"""C15: a task with a defaulted positional-only parameter cannot be called without it: the default is injected as a keyword argument."""
import sys; sys.path.insert(0, sys.argv[1] if len(sys.argv) > 1 else '/repo')
from redun import Scheduler, task
redun_namespace = "p15"
@task()
def p(a, b=2, /, c=3): return [a, b, c]
s = Scheduler(); s.load()
print(s.run(p(1)))
assert s.run(p(1)) == [1, 2, 3]
print("OK")
