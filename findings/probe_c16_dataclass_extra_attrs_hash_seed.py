"""Probe (not a check): map_nested_value rebuilds a dataclass and copies non-field __dict__ items in the iteration order of a set difference;
the rebuilt object's __dict__ (and so its pickle and hash) follows PYTHONHASHSEED.  Every task argument passes through map_nested_value
before it is hashed.  Usage: probe [repo-root]; exit 1 if the recorded argument hash differs between seeds."""
import os, shutil, subprocess, sys, tempfile

root = sys.argv[1] if len(sys.argv) > 1 else "/repo"
child = r'''
import sys
sys.path.insert(0, %r)
import dataclasses
from redun.utils import map_nested_value
from redun.value import get_type_registry
@dataclasses.dataclass
class Model:
    a: int
m = Model(1)
for k in ("alpha", "beta", "gamma", "delta", "epsilon"):
    m.__dict__[k] = k
m2 = map_nested_value(lambda x: x, m)
print(get_type_registry().get_hash(m2), list(m2.__dict__))
''' % root
tmp = tempfile.mkdtemp()
script = os.path.join(tmp, "child_c16.py")
open(script, "w").write(child)
seen = set()
for seed in ("1", "2", "3", "4", "5", "6"):
    out = subprocess.run([sys.executable, script], capture_output=True, text=True, env={**os.environ, "PYTHONHASHSEED": seed})
    assert out.returncode == 0, out.stderr
    print(seed, out.stdout.strip())
    seen.add(out.stdout.split()[0])
shutil.rmtree(tmp)
print("distinct:", len(seen))
sys.exit(0 if len(seen) == 1 else 1)
