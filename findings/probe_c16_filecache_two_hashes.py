import sys; sys.path.insert(0,'/repo')
from redun import Scheduler, task
from redun.value import FileCache, get_type_registry
class Data:
    def __init__(self,d): self.d=d
class DataType(FileCache):
    type=Data
    base_path="/var/tmp/probe_fc_store"
@task()
def mk(): return Data("x")
@task()
def use(d): return d.d
@task()
def main(): return use(mk())
s=Scheduler(); s.load()
print(s.run(main()))
reg=get_type_registry()
v=Data("x")
h1=reg.get_hash(v)
h2=s.backend.record_value(v)
print("registry hash",h1,"record_value hash",h2, h1==h2)
from redun.backends.db import Value, CallNode, Argument
sess=s.backend.session
print("value rows", [(r.value_hash[:8], r.type) for r in sess.query(Value).filter(Value.type.like('%Data%')).all()])
print("callnode mk value_hash", [(c.value_hash[:8]) for c in sess.query(CallNode).all()])
print("arg hashes", [a.value_hash[:8] for a in sess.query(Argument).all()])
