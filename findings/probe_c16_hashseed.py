from redun.value import get_type_registry
r = get_type_registry()
print(r.get_hash([{"alpha", "beta", "gamma", "delta"}])[:10], r.get_hash(frozenset({"alpha", "beta", "gamma", "delta"}))[:10], r.get_hash({"alpha", "beta", "gamma", "delta"})[:10])
