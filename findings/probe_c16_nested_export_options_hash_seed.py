"""Probe (not a check): an expression / task with >= 2 exported options nested inside a container argument is hashed through
pickle_dumps(container) -> __getstate__, whose "export_options" entry is a raw set; the container's hash follows set iteration order and
so changes with PYTHONHASHSEED.  Usage: /venv/bin/python probe... [repo-root]; exit 1 if hashes differ between seeds."""
import os, subprocess, sys

root = sys.argv[1] if len(sys.argv) > 1 else "/repo"
child = r'''
import sys
sys.path.insert(0, %r)
from redun import task
from redun.value import get_type_registry
redun_namespace = "probe_c16"
@task()
def g(x):
    return x
e = g.export_options(executor="a", memory=1, vcpus=2, queue="q", retries=3)(1)
t = g.export_options(executor="a", memory=1, vcpus=2, queue="q", retries=3)
r = get_type_registry()
print(r.get_hash([e]), r.get_hash([t]))
''' % root
import tempfile
tmp = tempfile.mkdtemp()
script = os.path.join(tmp, "child.py")
open(script, "w").write(child)
seen = set()
for seed in ("1", "2", "3", "4", "5", "6"):
    out = subprocess.run([sys.executable, script], capture_output=True, text=True, env={**os.environ, "PYTHONHASHSEED": seed})
    assert out.returncode == 0, out.stderr
    print(seed, out.stdout.strip())
    seen.add(out.stdout.strip())
print("distinct:", len(seen))
import shutil
shutil.rmtree(tmp)
sys.exit(0 if len(seen) == 1 else 1)
