import sys; sys.path.insert(0,'/repo')
from redun.value import get_type_registry
s={frozenset({"a"}), frozenset({"b"}), frozenset({"c"}), frozenset({"a","b"}), frozenset({"d","e"})}
print(get_type_registry().get_hash(s))
try:
    print(get_type_registry().get_hash({1,"a"}))
except TypeError as e: print("TypeError", e)
