import logging, os, tempfile
logging.disable(logging.CRITICAL)
from redun import Scheduler, task
from redun.task import get_task_registry, wraps_task, Task
from redun.scheduler import cond, catch
from redun.config import Config
from redun.backends.db import CallSubtreeTask, Job as DbJob, CallNode, Argument, ArgumentResult
redun_namespace = "probe4"

# F-C17a: options() drops hash_includes
def mk(inc):
    @task(name="hi", namespace="p4a", hash_includes=[inc], version="1")
    def hi(): return 1
    return hi
t1 = mk("A"); h1 = t1.hash; o1 = t1.options(memory=1).hash
t2 = mk("B"); h2 = t2.hash; o2 = t2.options(memory=1).hash
print("F-C17a base differ:", h1 != h2, " options() clones equal despite different includes:", o1 == o2)

# F-C17b: rename without rehash
def doubled():
    @wraps_task()
    def _doubled(inner: Task):
        def do(*a, **k): return 2 * inner.func(*a, **k)
        return do
    return _doubled
@doubled()
@task(namespace="p4b")
def val(x): return x + 1
inner = get_task_registry().get("p4b._doubled.val")
print("F-C17b hidden inner hash stale:", inner.hash != inner._calc_hash(), "is_valid:", inner.is_valid())

# F-C21: dedup SchedulerExpression loses upstream
@task()
def src(): return 5
@task()
def sink(x): return x
@task()
def main21():
    a = cond(True, src(), 0)
    b = cond(True, src(), 0)   # equal hash, distinct object
    return [sink(a), sink_b(b)]
@task()
def sink_b(x): return x
s = Scheduler(); s.load()
print(s.run(main21()))
sess = s.backend.session
for name in ["sink", "sink_b"]:
    cn = sess.query(CallNode).filter(CallNode.task_name == f"probe4.{name}").one()
    ups = [ar.result_call_hash[:8] for a in cn.arguments for ar in a.arg_results]
    print("F-C21", name, "upstreams:", ups)
