"""
Probe for C17 (task hashes track code identity).

Part A: hash_includes hashes and the call-time option-override hash are concatenated into one flat
        list by Task._calc_hash, so "include X" and "override X" are indistinguishable.
Part B: a pickled versioned Task remains is_valid() after the registered task's version is bumped,
        because __setstate__ restores `version` from the pickled state and is_valid() re-hashes with
        that stale version.

Exits 1 if either defect is present, 0 otherwise.
"""

import os
import pickle
import sys

sys.path.insert(0, os.path.dirname(os.path.dirname(os.path.abspath(__file__))))

from redun import task  # noqa: E402
from redun.utils import pickle_dumps  # noqa: E402

problems = []


# ---------------------------------------------------------------- Part A
def f():
    return 10


from redun.task import Task  # noqa: E402

SRC = "def f():\n    return 10\n"

# Same fullname, same source; one carries {"memory": 4} as a hash include, the other as a
# call-time option override.
t_inc = Task(f, name="f", namespace="probe", source=SRC, hash_includes=[{"memory": 4}])
t_opt = Task(f, name="f", namespace="probe", source=SRC).options(memory=4)
t_plain = Task(f, name="f", namespace="probe", source=SRC)

assert t_inc.hash != t_plain.hash and t_opt.hash != t_plain.hash
if t_inc.hash == t_opt.hash:
    problems.append(
        "A1: hash_includes=[{'memory': 4}] and .options(memory=4) give the same task hash "
        f"{t_inc.hash[:12]}"
    )

# Same collision where both tasks have includes: moving a datum from the includes list to the
# option overrides does not change the hash.
from redun.value import get_type_registry  # noqa: E402

h = get_type_registry().get_hash
a, b = "cfg-v1", {"memory": 4}
if h(a) > h(b):
    a = "cfg-v2"
    assert h(a) < h(b), "pick another constant"
t_two_inc = Task(f, name="f", namespace="probe", source=SRC, hash_includes=[a, b])
t_inc_opt = Task(f, name="f", namespace="probe", source=SRC, hash_includes=[a]).options(memory=4)
if t_two_inc.hash == t_inc_opt.hash:
    problems.append(
        "A2: hash_includes=[a, {'memory': 4}] and hash_includes=[a] + .options(memory=4) collide"
    )

# Versioned variant.
t_inc_v = Task(f, name="f", namespace="probe", version="1", hash_includes=[{"memory": 4}])
t_opt_v = Task(f, name="f", namespace="probe", version="1").options(memory=4)
if t_inc_v.hash == t_opt_v.hash:
    problems.append("A3: versioned tasks collide the same way")


# ---------------------------------------------------------------- Part B
@task(namespace="probe", version="1")
def g():
    return 1


hash_v1 = g.hash
data = pickle_dumps(g)
g_same = pickle.loads(data)
assert g_same.is_valid(), "unchanged versioned task must stay valid"


@task(namespace="probe", version="2")  # noqa: F811
def g():  # noqa: F811
    return 2


assert g.hash != hash_v1, "version bump must change the registered task's hash"
g_old = pickle.loads(data)
if g_old.is_valid():
    problems.append(
        "B1: Task pickled at version='1' is still is_valid() after the registered task was bumped "
        f"to version='2' (pickled hash {g_old.hash[:12]}, registry hash {g.hash[:12]})"
    )


# versioned -> unversioned: the registered task is now tracked by source.
@task(namespace="probe")  # noqa: F811
def g():  # noqa: F811
    return 2


g_old = pickle.loads(data)
if g_old.is_valid():
    problems.append(
        "B2: Task pickled at version='1' is still is_valid() after the registered task dropped "
        "its version"
    )


# versioned task that no longer exists in the registry at all (same root cause: the re-hash uses
# only pickled data for versioned tasks).
from redun.hashing import hash_struct  # noqa: E402

gone = Task.__new__(Task)
gone.__setstate__(
    {
        "name": "gone_task",
        "namespace": "probe",
        "version": "1",
        "hash": hash_struct(["Task", "probe.gone_task", "version", "1"]),
        "compat": [],
    }
)
if gone.is_valid():
    problems.append("B3: pickled versioned Task whose code was deleted is still is_valid()")


# Control: unversioned task, source change is detected (existing behaviour).
@task(namespace="probe")
def k():
    return 1


data_k = pickle_dumps(k)


@task(namespace="probe")  # noqa: F811
def k():  # noqa: F811
    return 2


assert not pickle.loads(data_k).is_valid()

if problems:
    print("DEFECT PRESENT")
    for p in problems:
        print(" -", p)
    sys.exit(1)
print("OK")
sys.exit(0)
