"""C17: a tab-indented task keeps its decorator line in the hashed source, so a definition-time option changes the task hash."""
import sys, os, tempfile, importlib; sys.path.insert(0, sys.argv[1] if len(sys.argv) > 1 else '/repo')
SRC = "from redun import task\nredun_namespace = 'p17_{n}'\ndef make():\n\t@task({opts})\n\tdef inner(x):\n\t\treturn x + 1\n\treturn inner\n"
hashes = []
with tempfile.TemporaryDirectory() as d:
    sys.path.insert(0, d)
    for n, opts in enumerate(("memory=4", "memory=8")):
        open(os.path.join(d, f"p17mod{n}.py"), "w").write(SRC.format(n=n, opts=opts))
        t = importlib.import_module(f"p17mod{n}").make()
        hashes.append((t.source.splitlines()[0].strip(), t._calc_hash() if False else t.source))
print([h[0] for h in hashes])
assert hashes[0][1] == hashes[1][1], "decorator line (definition-time option) is part of the hashed source of a tab-indented task"
print("OK")
