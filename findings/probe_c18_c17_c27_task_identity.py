"""
Probe for C18: expression/task identity must cover exported options, survive pickling, and
be self-consistent.  Exits 1 (listing failures) if any of the five reported defects is present.
"""
import os
import pickle
import sys

sys.path.insert(0, os.path.dirname(os.path.dirname(os.path.abspath(__file__))))

from redun import Scheduler, task  # noqa: E402
from redun.expression import SchedulerExpression  # noqa: E402
from redun.scheduler import cond  # noqa: E402
from redun.utils import pickle_dumps  # noqa: E402

failures = []


def check(ok, msg):
    print(("ok   " if ok else "FAIL ") + msg)
    if not ok:
        failures.append(msg)


@task()
def leaf(x):
    return x


# Not cached at all, so that each f job really creates its leaf job (otherwise the second f(1)
# is a legitimate CSE hit of the first one and the leaf job is never created).
@task(cache_scope="NONE")
def f(x):
    return leaf(x)


@task()
def g(t, x):
    return t(x)


@task()
def main():
    # Non-exporting spelling first: if both get the same hash the second is merged into it.
    return [g(f.options(memory=1), 1), g(f.export_options(memory=1), 1)]


make_calls = []


@task()
def make():
    make_calls.append(1)
    return f.options(cache=False)


# --- (0) guard: tasks without exported options keep their historical hash ---------------------
from redun.hashing import hash_struct  # noqa: E402
from redun.value import get_type_registry  # noqa: E402

check(
    f.hash == hash_struct(["Task", "f", "source", f.source]),
    "(0) plain task hash unchanged",
)
opt = f.options(memory=1)
check(
    opt.hash
    == hash_struct(
        ["Task", "f", "source", f.source, get_type_registry().get_hash({"memory": 1})]
    ),
    "(0) task.options(memory=1) hash unchanged (no exported options)",
)

# --- (1) Task value hash ignores exported options ---------------------------------------------
a, b = f.export_options(memory=1), f.options(memory=1)
check(a.hash != b.hash, "(1) f.export_options(memory=1).hash != f.options(memory=1).hash")
check(
    g(a, 1).get_hash() != g(b, 1).get_hash(),
    "(1) g(f.export_options(..), 1) and g(f.options(..), 1) have different expression hashes",
)
check(a.is_valid() and b.is_valid(), "(1) both task values are valid")
a2 = pickle.loads(pickle_dumps(a))
check(a2.hash == a.hash and a2.is_valid(), "(1) exported task value survives pickling")

# Behavioural: the leaf below the exporting spelling must see memory=1.
scheduler = Scheduler()
scheduler.load()
seen = []
orig_exec_job = Scheduler._exec_job


def spy(self, job, eval_args):
    seen.append((job.task.name, job.get_option("memory")))
    return orig_exec_job(self, job, eval_args)


Scheduler._exec_job = spy
try:
    result = scheduler.run(main())
finally:
    Scheduler._exec_job = orig_exec_job
check(result == [1, 1], "(1) workflow result")
check(
    ("leaf", 1) in seen,
    f"(1) leaf under g(f.export_options(memory=1), 1) inherits memory=1 (jobs seen: {seen})",
)

# --- (2) SchedulerTask.__call__ drops exported options ----------------------------------------
e1 = cond.export_options(memory=1)(True, 1, 2)
e2 = cond.options(memory=1)(True, 1, 2)
check(e1._export_options == {"memory"}, f"(2) export set reaches expr: {e1._export_options}")
check(e1.get_hash() != e2.get_hash(), "(2) cond.export_options(..)(..) hash != cond.options(..)(..)")
check(cond(True, 1, 2).get_hash() == hash_struct(
    ["SchedulerExpression", "redun.cond",
     __import__("redun.hashing", fromlist=["hash_arguments"]).hash_arguments(
         get_type_registry(), (True, 1, 2), {})]),
    "(2) plain scheduler expression hash unchanged")

# --- (3) PartialTask pickle round trip loses SchedulerTask-ness -------------------------------
p = cond.partial(True)
p2 = pickle.loads(pickle_dumps(p))
x1, x2 = p(1, 2), p2(1, 2)
check(isinstance(x2, SchedulerExpression), f"(3) round-tripped partial gives {type(x2).__name__}")
check(x1.get_hash() == x2.get_hash(), "(3) expression hash preserved across round trip")
try:
    check(scheduler.run(p2(1, 2)) == 1, "(3) round-tripped cond.partial(True)(1, 2) evaluates to 1")
except Exception as error:
    check(False, f"(3) round-tripped cond.partial(True)(1, 2) failed to run: {error!r}")

# --- (4) PartialTask.export_options() ---------------------------------------------------------
try:
    q = f.partial(1).export_options(memory=1)
    ok = q.task._export_options == {"memory"} and q.args == (1,) and q.get_task_option("memory") == 1
    check(ok, "(4) PartialTask.export_options keeps args and exports option")
    check(q().get_hash() == f.export_options(memory=1)(1).get_hash(),
          "(4) partial.export_options(..)() == task.export_options(..)(args)")
except TypeError as error:
    check(False, f"(4) PartialTask.export_options raised TypeError: {error}")

# --- (5) hash computed before option normalisation --------------------------------------------
c = f.options(cache=False)
check(c.is_valid(), "(5) f.options(cache=False).is_valid() right after construction")
c2 = pickle.loads(pickle_dumps(c))
check(c2.hash == c.hash and c2.is_valid(), "(5) ... and after a pickle round trip")
check(f.options(check_valid="shallow").is_valid(), "(5) f.options(check_valid='shallow').is_valid()")
check(f.options(prov=False).is_valid(), "(5) f.options(prov=False).is_valid()")

# Behavioural: a task returning such a task value must be replayed from cache.
tf = scheduler.run(make())
tf = scheduler.run(make())
check(len(make_calls) == 1, f"(5) make() returning f.options(cache=False) ran {len(make_calls)}x in 2 runs")

if failures:
    print(f"\n{len(failures)} check(s) failed")
    sys.exit(1)
print("\nall checks passed")
sys.exit(0)
