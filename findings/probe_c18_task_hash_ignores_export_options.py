"""Probe (not a check): a Task passed as an argument is hashed by Task._calc_hash; if that leaves out the exported option names,
g(f.options(executor="a"), 1) and g(f.export_options(executor="a"), 1) are the same expression.  Usage: probe [repo-root]; exit 1 if equal."""
import sys

sys.path.insert(0, sys.argv[1] if len(sys.argv) > 1 else "/repo")
from redun import task  # noqa: E402

redun_namespace = "probe_c18"


@task()
def f(x):
    return x


@task()
def g(t, x):
    return t(x)


a = g(f.options(executor="a"), 1)
b = g(f.export_options(executor="a"), 1)
print("task hashes equal:", f.options(executor="a").hash == f.export_options(executor="a").hash)
print("expression hashes equal:", a.get_hash() == b.get_hash())
print("plain task hash unchanged by options():", f.hash == f.options().hash)
sys.exit(1 if a.get_hash() == b.get_hash() else 0)
