"""C20: a provenance-recording job that is de-duplicated onto a still pending prov=False twin inherits a call_hash that was never recorded."""
import sys, time; sys.path.insert(0, sys.argv[1] if len(sys.argv) > 1 else '/repo')
from redun import Scheduler, task
redun_namespace = "p20b"
@task()
def leaf(x):
    time.sleep(0.2)
    return x + 1
@task()
def main():
    return [leaf.options(prov=False)(1), leaf(1)]
s = Scheduler(); s.load()
print(s.run(main()))
print("OK")
