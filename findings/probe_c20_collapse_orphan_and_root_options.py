"""
Probe for two scheduler crashes (property C20: the recorded call graph mirrors the run).

case 1: a job whose parent was already rejected+cleared is CSE-collapsed onto a pending
        equivalent job -> Job.collapse raises ValueError ("... is not in list").
case 2: scheduler.run(top.options(memory=mem())()) -> two parentless jobs in one execution
        -> KeyError in RedunBackendDb.record_job_start.

Exit 1 if either defect is present, 0 otherwise.
"""
import os
import sys
import threading
import time
import traceback

sys.path.insert(0, os.path.dirname(os.path.dirname(os.path.abspath(__file__))))

import redun  # noqa: E402
from redun import Scheduler, task  # noqa: E402
from redun.backends.db import Execution as DbExecution  # noqa: E402
from redun.backends.db import Job as DbJob  # noqa: E402
from redun.scheduler import catch  # noqa: E402

redun.namespace("fx_collapsecrash")

failures = []

# ---------------------------------------------------------------- case 1
gate = threading.Event()  # releases the one real run of slow(1) (the one under Q)
gate2 = threading.Event()  # releases slow_ident(1) (under P)
slow_started = threading.Event()


@task(cache=False)
def slow(x):
    slow_started.set()
    gate.wait(10)
    return x + 100


@task(cache=False)
def slow_ident(x):
    gate2.wait(10)
    return x


@task(cache=False)
def boom():
    raise ValueError("boom")


@task(cache=False)
def P():
    # boom fails fast -> P is rejected and cleared while slow(slow_ident(1)) is still
    # waiting for its argument.
    return [boom(), slow(slow_ident(1))]


@task(cache=False)
def recover(err):
    # P has been rejected (and cleared) by now. Wait until Q's slow(1) is pending, then let
    # slow_ident finish so that P's orphaned slow(1) becomes ready and gets collapsed.
    slow_started.wait(10)
    gate2.set()
    return "recovered"


@task(cache=False)
def Q():
    return slow(1)


@task(cache=False)
def main():
    return [catch(P(), ValueError, recover), Q()]


def release():
    gate2.wait(10)
    time.sleep(0.7)
    gate.set()


def case1():
    s = Scheduler()
    s.load()
    threading.Thread(target=release, daemon=True).start()
    try:
        result = s.run(main())
    except BaseException as error:
        traceback.print_exc()
        failures.append(f"case1: Scheduler.run crashed: {type(error).__name__}: {error}")
        return
    finally:
        gate.set()
        gate2.set()
    if result != ["recovered", 101]:
        failures.append(f"case1: wrong result {result!r}")
    session = s.backend.session
    # Every recorded job that is not the root must point at a recorded parent.
    job_ids = {job.id for job in session.query(DbJob).all()}
    for job in session.query(DbJob).all():
        if job.parent_id is not None and job.parent_id not in job_ids:
            failures.append(f"case1: job {job.id} has unrecorded parent {job.parent_id}")


# ---------------------------------------------------------------- case 2
@task()
def mem():
    return 1


@task()
def top():
    return 5


def case2():
    s = Scheduler()
    s.load()
    try:
        result = s.run(top.options(memory=mem())())
    except BaseException as error:
        traceback.print_exc()
        failures.append(f"case2: Scheduler.run crashed: {type(error).__name__}: {error!r}")
        return
    if result != 5:
        failures.append(f"case2: wrong result {result!r}")
    session = s.backend.session
    roots = session.query(DbJob).filter(DbJob.parent_id.is_(None)).all()
    if len(roots) != 1:
        failures.append(f"case2: expected exactly one parentless job, found {len(roots)}")
    [execution] = session.query(DbExecution).all()
    if not roots or execution.job_id != roots[0].id:
        failures.append("case2: execution root job is not the single parentless job")


case1()
case2()

if failures:
    print("DEFECT PRESENT:")
    for failure in failures:
        print("  -", failure)
    sys.exit(1)
print("OK: both cases behave correctly")
sys.exit(0)
