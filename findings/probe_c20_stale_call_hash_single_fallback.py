"""C20: check_cache returns the single-reduction result together with the call_hash of an ultimate-reduction node whose value could not be loaded."""
import sys, os, tempfile, shutil; sys.path.insert(0, sys.argv[1] if len(sys.argv) > 1 else '/repo')
from redun import Scheduler, task
from redun.value import FileCache
from redun.backends.db import Job, CallNode, CallEdge
redun_namespace = "p20c"
d = tempfile.mkdtemp()
class Data:
    def __init__(self, x): self.x = x
class DataType(FileCache):
    type = Data
    base_path = os.path.join(d, "store")
state = {"n": 1}
@task()
def child():
    return Data(state["n"])          # reads external state: a re-execution may give another value
@task(check_valid="shallow")
def parent():
    return child()
@task()
def main():
    return parent()
s = Scheduler(); s.load()
assert s.run(main()).x == 1
shutil.rmtree(os.path.join(d, "store"))   # the offloaded bytes of the final value are lost
state["n"] = 2
r = s.run(main())
sess = s.backend.session
jobs = {j.task.name + "#" + j.execution_id[:4]: j for j in sess.query(Job).all()}
last_exec = max((j.execution for j in sess.query(Job).all()), key=lambda e: e.job.start_time)
pj = [j for j in sess.query(Job).filter(Job.execution_id == last_exec.id) if j.task.name == "parent"][0]
cj = [j for j in sess.query(Job).filter(Job.execution_id == last_exec.id) if j.task.name == "child"][0]
edges = {(e.parent_id, e.child_id) for e in sess.query(CallEdge).all()}
print("result", r.x, "| parent job cached:", pj.cached, "| child job cached:", cj.cached)
ok = (pj.call_hash, cj.call_hash) in edges
print("edge parent-call-node -> child-call-node recorded:", ok)
assert ok, "the parent job is linked to a call node that does not have the call node of its actual child as a child"
print("OK")
