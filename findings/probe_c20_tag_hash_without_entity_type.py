"""C20.11 probe: a tag applied to a Task *value* is lost when the task itself carries the same tag (tag hash has no entity type; a task's
value hash equals its task hash).  exit 1 = defect present."""
import os, sys
sys.path.insert(0, os.environ.get("REDUN_ROOT", os.getcwd()))
from redun import Scheduler, task
from redun.scheduler import apply_tags
from redun.backends.db import Tag

redun_namespace = "probe_c20_tag"


@task(tags=[("k", "v")])
def t(x):
    return x


@task()
def main():
    return [t(1), apply_tags(t, tags=[("k", "v")])]


s = Scheduler()
s.load()
s.run(main())
rows = [(r.entity_type.name if hasattr(r.entity_type, "name") else str(r.entity_type), r.key) for r in s.backend.session.query(Tag).filter(Tag.entity_id == t.hash).all()]
print("tags on id", t.hash[:8], ":", rows)
kinds = {k for k, _ in rows}
if not ({"Task", "Value"} <= kinds):
    print("DEFECT: only", kinds, "tag recorded for the shared id; the other entity's tag was skipped as a duplicate")
    sys.exit(1)
print("OK")
