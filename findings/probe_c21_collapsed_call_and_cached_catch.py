"""
Probe for property C21 (upstream dataflow of arguments is recorded).

Exits 1 (printing what went wrong) if a dataflow link is missing, exits 0 otherwise.

  A1: main() returns [task2(a()), task2(b())] where a() and b() both return 1.  The second
      task2 call is collapsed onto the first (CSE / cache hit); the link b -> task2 must exist.
  A2: same, but the two task2 calls happen in two executions (backend cache hit).
  C : follow(catch(expr, ...)) is re-run with `follow` at a new version, so `catch` hits its
      cache.  The new `follow` CallNode must still be linked to ok() / recover().
"""

import os
import sys

sys.path.insert(0, os.path.dirname(os.path.dirname(os.path.abspath(__file__))))

from redun import Scheduler, catch, task  # noqa: E402
from redun.backends.db import CallNode  # noqa: E402

redun_namespace = "fx_probe"
problems = []


def new_scheduler():
    scheduler = Scheduler()
    scheduler.load()
    scheduler.log = lambda *args, **kwargs: None  # keep the output readable
    return scheduler


def arg_upstreams(scheduler, task_name):
    """Returns {(task_version, arg_value): sorted upstream task names} of first arguments."""
    session = scheduler.backend.session
    session.expire_all()
    result = {}
    for node in session.query(CallNode).filter_by(task_name=task_name).all():
        [arg] = [arg for arg in node.arguments if arg.arg_position == 0]
        names = sorted(up.task_name.split(".")[-1] for up in arg.upstream)
        result[(node.task_hash, repr(arg.value_parsed))] = names
    return result


def check(label, got, expected):
    if got != expected:
        problems.append(f"{label}: recorded upstream {got}, expected {expected}")
    else:
        print(f"ok   {label}: {got}")


@task()
def a():
    return 1


@task()
def b():
    return 1


@task()
def task2(x):
    return x + 1


@task()
def main_a():
    return [task2(a()), task2(b())]


@task()
def main_a1():
    return task2(a())


@task()
def main_a2():
    return task2(b())


# --- A1: both calls in one execution.
scheduler = new_scheduler()
assert scheduler.run(main_a()) == [2, 2]
[ups] = arg_upstreams(scheduler, "fx_probe.task2").values()
check("A1 task2(a()), task2(b()) in one execution", ups, ["a", "b"])

# --- A2: the calls are in two executions.
scheduler = new_scheduler()
assert scheduler.run(main_a1()) == 2
assert scheduler.run(main_a2()) == 2
[ups] = arg_upstreams(scheduler, "fx_probe.task2").values()
check("A2 task2(a()) then task2(b()) in a second execution", ups, ["a", "b"])


# --- C: cached catch feeding a re-versioned task.
@task()
def boom():
    raise ZeroDivisionError("x")


@task()
def recover(err):
    return 7


@task()
def ok():
    return 3


def make_follow(version):
    @task(name="follow", version=version)
    def follow(x):
        return (x, version)

    return follow


@task(version="1")
def main_c():
    return follow(catch(ok(), ZeroDivisionError, recover))


@task(version="1")
def main_c2():
    return follow(catch(boom(), ZeroDivisionError, recover))


scheduler = new_scheduler()
follow = make_follow("1")
hash_v1 = follow.hash
assert scheduler.run(main_c()) == (3, "1")
assert scheduler.run(main_c2()) == (7, "1")
ups = arg_upstreams(scheduler, "fx_probe.follow")
check("C  first run, follow(catch(ok()))", ups[(hash_v1, "3")], ["ok"])
check("C  first run, follow(catch(boom()))", ups[(hash_v1, "7")], ["recover"])

follow = make_follow("2")
hash_v2 = follow.hash
assert scheduler.run(main_c()) == (3, "2")
assert scheduler.run(main_c2()) == (7, "2")
ups = arg_upstreams(scheduler, "fx_probe.follow")
check("C  cached catch, new follow(catch(ok()))", ups[(hash_v2, "3")], ["ok"])
check("C  cached catch, new follow(catch(boom()))", ups[(hash_v2, "7")], ["recover"])

if problems:
    print()
    for problem in problems:
        print("FAIL", problem)
    sys.exit(1)
print("all dataflow links recorded")
sys.exit(0)
