"""C21: the duplicate of a failing call (deduplicated in _evaluate_apply) gets no upstream link for the error it hands to catch's recover task."""
import sys; sys.path.insert(0, sys.argv[1] if len(sys.argv) > 1 else '/repo')
from redun import Scheduler, task, catch
from redun.backends.db import CallNode, Argument, ArgumentResult

@task()
def boom(x):
    raise ValueError("boom")
@task()
def rec1(err): return "r1"
@task()
def rec2(err): return "r2"
@task()
def main():
    a = catch(boom(1), ValueError, rec1)
    b = catch(boom(1), ValueError, rec2)
    return [a, b]

s = Scheduler(); s.load()
assert s.run(main()) == ["r1", "r2"]
sess = s.backend.session
out = {}
for name in ("rec1", "rec2"):
    cn = sess.query(CallNode).filter(CallNode.task_name == name).one()
    ups = []
    for arg in cn.arguments:
        for ar in arg.arg_results:
            ups.append(sess.query(CallNode).filter_by(call_hash=ar.result_call_hash).one().task_name)
    out[name] = ups
print(out)
assert out["rec1"] == out["rec2"] == ["boom"], out
print("OK")
