"""C21: arguments produced through scheduler tasks that build their own task calls (map_, catch_all, subrun) have no upstream link."""
import sys; sys.path.insert(0, sys.argv[1] if len(sys.argv) > 1 else '/repo')
from redun import Scheduler, task
from redun.scheduler import catch_all
from redun.functools import map_
from redun.scheduler import subrun
from redun.backends.db import CallNode

@task()
def inc(x): return x + 1
@task()
def consume(xs): return xs
@task()
def consume2(xs): return xs
@task()
def consume3(xs): return xs
@task()
def boom(x): raise ValueError("b")
@task()
def recover(results): return "recovered"
@task()
def producer(): return 7
@task()
def with_default(x, y=producer()): return x + y
@task()
def main():
    return [consume(map_(inc, [1, 2])), consume2(catch_all([boom(1), inc(5)], ValueError, recover)), consume3(subrun(inc(10), executor="default", load_modules=[], new_execution=True)), with_default(1)]

s = Scheduler(); s.load()
print(s.run(main()))
sess = s.backend.session
def ups(name):
    cn = sess.query(CallNode).filter(CallNode.task_name == name).one()
    return {(a.arg_key if a.arg_key is not None else a.arg_position): sorted(sess.query(CallNode).filter_by(call_hash=r.result_call_hash).one().task_name for r in a.arg_results) for a in cn.arguments}
for n in ("consume", "consume2", "consume3", "with_default"):
    print(n, ups(n))
