"""C22/C25: advance_handle marks handles is_recorded before its commit; a retried transient error at that commit loses the back-filled fork rows/edges."""
import sys, traceback; sys.path.insert(0, sys.argv[1] if len(sys.argv) > 1 else '/repo')
from sqlalchemy.exc import OperationalError
from redun import Scheduler, task, Handle
import redun.backends.db as dbm
from redun.backends.db import HandleEdge, Handle as HandleRow
dbm.time.sleep = lambda *_: None
redun_namespace = "p22c"
class Conn(Handle):
    def __init__(self, name): self.name = name
@task()
def step1(conn): return conn
@task()
def main():
    conn = Conn("conn")
    return step1(conn.fork("x"))

def run(fault):
    s = Scheduler(); s.load(); be = s.backend
    real_commit = be.session.commit
    st = {"fired": False}
    def commit():
        if fault and not st["fired"] and "advance_handle" in [f.name for f in traceback.extract_stack()] and "record_value" not in [f.name for f in traceback.extract_stack()]:
            st["fired"] = True
            raise OperationalError("stmt", {}, Exception("transient"))
        return real_commit()
    be.session.commit = commit
    s.run(main())
    sess = be.session
    return sorted((e.parent_id[:6], e.child_id[:6]) for e in sess.query(HandleEdge).all()), sorted(h.hash[:6] for h in sess.query(HandleRow).all()), st["fired"]

clean = run(False); faulty = run(True)
print("fault fired:", faulty[2]); print("edges clean :", clean[0]); print("edges faulty:", faulty[0])
assert faulty[2]
assert clean[:2] == faulty[:2], "a single retried transient error changed the recorded handle lineage"
print("OK")
