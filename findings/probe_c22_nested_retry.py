"""C22: nested db_retry -- a transient OperationalError inside record_value called from record_call_node rolls back the outer pending CallNode."""
import sys, traceback; sys.path.insert(0, sys.argv[1] if len(sys.argv) > 1 else '/repo')
from sqlalchemy.exc import OperationalError
from redun import Scheduler, task
import redun.backends.db as dbm
dbm.time.sleep = lambda *_: None

@task()
def inc(x): return x + 1
@task()
def main(): return inc(41)

s = Scheduler(); s.load(); be = s.backend
real_commit = be.session.commit
state = {"fired": False}
def commit():
    if not state["fired"]:
        names = [f.name for f in traceback.extract_stack()]
        if "record_call_node" in names and "_record_args" in names and "record_value" in names:
            state["fired"] = True
            raise OperationalError("stmt", {}, Exception("transient"))
    return real_commit()
be.session.commit = commit
try:
    r = s.run(main())
    print("result", r, "fault fired:", state["fired"])
except Exception as e:
    print("run died with", type(e).__name__, str(e)[:100], "fault fired:", state["fired"])
    sys.exit(1)
