"""
Probe for C22: db_retry re-invokes a method with an already consumed one-shot iterator.

 A. put_records (redun push/pull/import): one transient OperationalError at the destination commit
    -> the retry sees an exhausted `records` generator, writes 0 records, reports success.
 B. put_records: an OperationalError raised by the *source* backend while `records` is being read
    is caught by the destination's retry loop, which retries with the dead generator -> 0 records,
    success (the source error is swallowed).
 C. record_tags as called by Scheduler._run (`chain(self._exec_tags, tags)`): one transient
    OperationalError at commit -> retry sees an exhausted chain -> Execution tags are lost.

Exit 1 if any of these misbehave, 0 otherwise.
"""
import os
import sys

sys.path.insert(0, os.path.dirname(os.path.dirname(os.path.abspath(__file__))))

from sqlalchemy.exc import OperationalError
from sqlalchemy.orm import Session

import redun
from redun import Scheduler, task
from redun.backends.db import CallNode, Execution, RedunBackendDb, Tag

assert redun.__file__.startswith(os.path.dirname(os.path.dirname(os.path.abspath(__file__))))

problems = []


@task(namespace="w", name="add", version="1")
def add(a, b):
    return a + b


def transient():
    return OperationalError("COMMIT", {}, Exception("transient"))


class FailCommitOnce:
    """Make the first Session.commit() of `session` raise an OperationalError."""

    def __init__(self, session):
        self.session = session
        self.fired = False

    def __enter__(self):
        self.orig = orig = Session.commit
        this = self

        def commit(self):
            if self is this.session and not this.fired:
                this.fired = True
                raise transient()
            return orig(self)

        Session.commit = commit
        return self

    def __exit__(self, *exc):
        Session.commit = self.orig


src = Scheduler()
src.load()
assert src.run(add(1, 2)) == 3
root_ids = [row[0] for row in src.backend.session.query(Execution.id)]


def new_dest():
    dest = RedunBackendDb(db_uri="sqlite:///:memory:")
    dest.load()
    dest._db_retries_backoff = 0.0
    return dest


def src_records():
    # Exactly what cli._sync_records passes.
    return src.backend.get_records(src.backend.iter_record_ids(root_ids))


# Reference: no fault.
dest = new_dest()
n_ref = dest.put_records(src_records())
rows_ref = dest.session.query(CallNode).count()
assert n_ref > 0 and rows_ref > 0, (n_ref, rows_ref)

# A. one transient error at the destination commit.
dest = new_dest()
with FailCommitOnce(dest.session) as fault:
    n = dest.put_records(src_records())
rows = dest.session.query(CallNode).count()
assert fault.fired
print(f"A. put_records no fault: ({n_ref}, {rows_ref} CallNodes); one transient fault: ({n}, {rows})")
if (n, rows) != (n_ref, rows_ref):
    problems.append(
        f"A: put_records retried after one transient OperationalError wrote {n} records "
        f"({rows} CallNodes) and returned normally; expected {n_ref} ({rows_ref} CallNodes)"
    )


# B. the source fails while being read; the destination must not turn that into "0 records, ok".
def failing_records():
    for i, record in enumerate(src_records()):
        if i == 2:
            raise transient()
        yield record


dest = new_dest()
try:
    n = dest.put_records(failing_records())
except OperationalError:
    print("B. source read error propagated (ok)")
else:
    rows = dest.session.query(CallNode).count()
    print(f"B. source read error swallowed: put_records returned {n}, {rows} CallNodes")
    problems.append(
        f"B: OperationalError raised while reading the source records was swallowed; put_records "
        f"returned {n} with {rows} CallNodes written"
    )

# C. execution tags given to Scheduler.run are passed to record_tags as a one-shot chain().
sched = Scheduler()
sched.load()
sched.backend._db_retries_backoff = 0.0
orig_record_tags = RedunBackendDb.record_tags
assert sched.run(add(1, 2), tags=[("project", "ref")]) == 3
ref_tags = sched.backend.session.query(Tag).filter(Tag.key == "project").count()
assert ref_tags == 1

sched = Scheduler()
sched.load()
sched.backend._db_retries_backoff = 0.0
# Fail the commit inside the first record_tags call (the Execution tags) once.
state = {"armed": False, "fired": False}
orig_commit = Session.commit
inner_record_tags = RedunBackendDb.record_tags.__wrapped__  # below db_retry


def commit(self):
    if state["armed"] and not state["fired"] and self is sched.backend.session:
        state["fired"] = True
        raise transient()
    return orig_commit(self)


orig_record_execution = RedunBackendDb.record_execution


def record_execution(self, *args, **kwargs):
    result = orig_record_execution(self, *args, **kwargs)
    state["armed"] = True  # next commit is the one of record_tags(Execution tags)
    return result


Session.commit = commit
RedunBackendDb.record_execution = record_execution
try:
    assert sched.run(add(1, 2), tags=[("project", "x")]) == 3
finally:
    Session.commit = orig_commit
    RedunBackendDb.record_execution = orig_record_execution
assert state["fired"]
n_tags = sched.backend.session.query(Tag).filter(Tag.key == "project").count()
print(f"C. execution tags after one transient fault in record_tags: {n_tags} (expected {ref_tags})")
if n_tags != ref_tags:
    problems.append(
        f"C: Scheduler.run(tags=[('project','x')]) with one transient OperationalError at the "
        f"record_tags commit recorded {n_tags} 'project' tags; expected {ref_tags}"
    )

if problems:
    print("DEFECT PRESENT:")
    for problem in problems:
        print(" -", problem)
    sys.exit(1)
print("OK")
sys.exit(0)
