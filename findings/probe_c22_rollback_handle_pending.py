"""C22/C25: rollback_handle's invalidation is not committed; a transient OperationalError at the next commit makes db_retry roll it back."""
import sys; sys.path.insert(0, sys.argv[1] if len(sys.argv) > 1 else '/repo')
from sqlalchemy.exc import OperationalError
from redun import Scheduler, task, Handle
import redun.backends.db as dbm
dbm.time.sleep = lambda *_: None  # no back-off sleeps

class Conn(Handle):
    def __init__(self, name): self.name = name

calls = []
def make(version):
    @task(namespace="p", name="step1", version=version)
    def step1(h):
        calls.append(("step1", version)); return h
    @task(namespace="p", name="step2", version="1")
    def step2(h):
        calls.append(("step2", "1")); return h
    @task(namespace="p", name="main", version=version)
    def main():
        h = Conn("conn")
        h = step1(h)
        h = step2(h)
        return h
    return main

def history(fault):
    calls.clear()
    s = Scheduler(); s.load()
    s.run(make("A")())
    n1 = len(calls)
    be = s.backend
    if fault:
        orig_rb = be.rollback_handle.__wrapped__ if hasattr(be.rollback_handle, "__wrapped__") else None
        state = {"armed": False, "fired": False}
        real_rollback = type(be).rollback_handle
        def rb(self, handle):
            r = real_rollback(self, handle)
            state["armed"] = True
            return r
        type(be).rollback_handle = rb
        real_commit = be.session.commit
        def commit():
            if state["armed"] and not state["fired"]:
                state["fired"] = True
                raise OperationalError("stmt", {}, Exception("transient"))
            return real_commit()
        be.session.commit = commit
    try:
        s.run(make("B")())
    finally:
        if fault:
            type(be).rollback_handle = real_rollback
            be.session.commit = real_commit
    n2 = len(calls)
    s.run(make("A")())
    return calls[n2:], (state["fired"] if fault else None)

clean, _ = history(False)
faulty, fired = history(True)
print("third run executes (no fault):", clean)
print("third run executes (one transient fault after rollback_handle):", faulty, "fault fired:", fired)
assert fired
assert clean == faulty, "a single retried transient error changed what the later run re-executes"
print("OK")
