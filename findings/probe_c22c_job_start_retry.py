"""F-C22c reproduction: one transient OperationalError at the commit of record_job_start for the root job.
Before the fix the retry died with KeyError (the pending Execution had been popped); after it the run completes."""
from sqlalchemy.exc import OperationalError

from redun import Scheduler, task

redun_namespace = "probe_c22c"


@task()
def main():
    return 1


s = Scheduler()
s.load()
s.backend._db_retries_backoff = 0.0
orig_commit = s.backend.session.commit
state = {"n": 0}
orig_start = type(s.backend).record_job_start.__wrapped__ if hasattr(type(s.backend).record_job_start, "__wrapped__") else None


def flaky_commit():
    import traceback

    if state["n"] == 0 and traceback.extract_stack()[-2].name == "record_job_start":
        state["n"] += 1
        raise OperationalError("COMMIT", {}, Exception("transient"))
    return orig_commit()


s.backend.session.commit = flaky_commit
try:
    print("result:", s.run(main()), "| injected:", state["n"])
except Exception as e:
    print("run failed:", type(e).__name__, e, "| injected:", state["n"])
