"""C23: CallEdge.call_order is renumbered by export/import when a parent has a child without provenance (its edge is skipped, leaving a gap)."""
import sys; sys.path.insert(0, sys.argv[1] if len(sys.argv) > 1 else '/repo')
from redun import Scheduler, task
from redun.backends.db import CallEdge, RedunBackendDb
redun_namespace = "p23"
@task()
def a(): return 1
@task()
def b(): return 2
@task()
def c(): return 3
@task()
def main(): return [a.options(prov=False)(), b(), c()]
s = Scheduler(); s.load(); s.run(main())
src_edges = sorted((e.parent_id[:6], e.child_id[:6], e.call_order) for e in s.backend.session.query(CallEdge).all())
dest = RedunBackendDb(db_uri="sqlite:///:memory:"); dest.load()
ids = list(s.backend.iter_record_ids([e.id for e in s.backend.session.query(__import__('redun.backends.db', fromlist=['Execution']).Execution).all()]))
dest.put_records(s.backend.get_records(ids))
dst_edges = sorted((e.parent_id[:6], e.child_id[:6], e.call_order) for e in dest.session.query(CallEdge).all())
print("source:", src_edges); print("dest  :", dst_edges)
assert src_edges == dst_edges, "child edges differ after transfer"
print("OK")
