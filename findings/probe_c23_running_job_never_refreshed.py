"""C23.7 probe: a Job transferred while still running is never updated by a later transfer (put_records skips existing ids).
exit 1 = defect present."""
import os, sys, copy
sys.path.insert(0, os.environ.get("REDUN_ROOT", os.getcwd()))
from redun import Scheduler, task
from redun.backends.db import Job, Execution

redun_namespace = "probe_c23"


@task()
def inc(x):
    return x + 1


@task()
def main():
    return inc(1)


src = Scheduler(); src.load()
dst = Scheduler(); dst.load()
src.run(main())
ex = src.backend.session.query(Execution).one()
records = list(src.backend.get_records(src.backend.iter_record_ids([ex.id])))
# what an export taken while the jobs were still running contains: Job records without end_time / call_hash
mid = []
for r in copy.deepcopy(records):
    if r.get("_type") == "Job":
        r["end_time"] = None
        r["call_hash"] = None
        if "status" in r:
            r["status"] = "RUNNING"
    mid.append(r)
dst.backend.put_records(mid)
n2 = dst.backend.put_records(records)  # the transfer after the run has finished
jobs = dst.backend.session.query(Job).all()
print("records written by the second transfer:", n2, " job end_times in destination:", [j.end_time for j in jobs])
if any(j.end_time is None or j.call_hash is None for j in jobs):
    print("DEFECT: jobs first transferred while running stay RUNNING (no end_time/call_hash) in the destination for ever")
    sys.exit(1)
print("OK")
