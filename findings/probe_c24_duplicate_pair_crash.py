"""C20/C24: the same (key, value) pair given twice for one entity in one recording call crashes with UNIQUE constraint failed: tag.tag_hash."""
import sys; sys.path.insert(0, sys.argv[1] if len(sys.argv) > 1 else '/repo')
from redun import Scheduler, task, apply_tags
from redun.backends.db import TagEntity
redun_namespace = "p20"
@task()
def main():
    return [apply_tags(1, job_tags=[("a", 1)]), apply_tags(2, job_tags=[("a", 1)])]
s = Scheduler(); s.load()
print(s.run(main()))
eid = "e" * 40
s.backend.record_tags(TagEntity.Value, eid, [("j", 1), ("j", 1)], new=True)
print(s.backend.get_tags([eid]))
print("OK")
