import sys; sys.path.insert(0,'/repo')
from redun import Scheduler
from redun.backends.db import TagEntity
s=Scheduler(); s.load(); b=s.backend
eid="e"*40
b.record_tags(TagEntity.Value, eid, [("k", None)], new=True)
print("after add k=null:", b.get_tags([eid]))
b.delete_tags(eid, [("k", None)], [])
print("after rm k=null :", b.get_tags([eid]))
try:
    b.record_tags(TagEntity.Value, eid, [("j",1),("j",1)], new=True)
    print("dup ok", b.get_tags([eid]))
except Exception as e:
    print("dup pair raises", type(e).__name__)
    b.session.rollback()
eid2="f"*40
b.record_tags(TagEntity.Value, eid2, [("j",[1])], new=True)
b.record_tags(TagEntity.Value, eid2, [("j",2)], update=True)
b.record_tags(TagEntity.Value, eid2, [("j",2)], new=True)
print("add [1]; update 2; add 2 :", b.get_tags([eid2]))
