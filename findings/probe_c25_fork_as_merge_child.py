"""C25.5 probe: an unrecorded explicit fork that is first recorded as the *child* of advance_handle (merge_handles([fork, other])) gets no
lineage edge from the handle it was forked from.  exit 1 = defect present."""
import os, sys
sys.path.insert(0, os.environ.get("REDUN_ROOT", os.getcwd()))
from redun import Handle
from redun.backends.db import RedunBackendDb

b = RedunBackendDb(db_uri="sqlite:///:memory:")
b.load()
h = Handle("conn")
h1 = h.apply_call("call1")
b.advance_handle([h], h1)
f = h1.fork("a")                 # explicit fork, not recorded yet
other = h1.apply_call("call2")
b.advance_handle([h1], other)
b.advance_handle([other], f)     # what merge_handles([f, other]) does: final_handle = f is the child
assert b.is_valid_handle(f)
b.rollback_handle(h)             # everything derived from h is invalid now
print("h1 valid:", b.is_valid_handle(h1), " fork valid:", b.is_valid_handle(f))
# f derives from h1 (fork) AND from other (merge); break the merge path to isolate the fork edge
b2 = RedunBackendDb(db_uri="sqlite:///:memory:"); b2.load()
h = Handle("conn"); h1 = h.apply_call("call1"); b2.advance_handle([h], h1)
f = h1.fork("a")
g = Handle("conn2x")  # unrelated handle name would fail the same-name assert in merge; use a sibling root of the same name instead
r = Handle("conn"); r2 = r.apply_call("zzz"); b2.advance_handle([r], r2)
b2.advance_handle([r2], f)       # f recorded as child of an unrelated lineage
b2.rollback_handle(h1)
ok = not b2.is_valid_handle(f)
print("after rollback(h1): fork valid =", b2.is_valid_handle(f))
if not ok:
    print("DEFECT: the fork of h1 stays valid after h1 is rolled back: no h1 -> fork edge was recorded")
    sys.exit(1)
print("OK")
