import os, sys
sys.path.insert(0, os.path.dirname(os.path.dirname(os.path.abspath(__file__))))
from redun import Handle, Scheduler, task
redun_namespace = "probe"

class PHandle(Handle):
    def __init__(self, name, uri="db"):
        self.uri = uri

def run(explicit_fork):
    scheduler = Scheduler(); scheduler.load()
    calls = []
    @task(namespace="probe", version="1")
    def step0(conn):
        calls.append("step0v1"); return conn
    @task(namespace="probe")
    def step1(conn):
        calls.append("step1"); return conn
    @task(namespace="probe")
    def stage(conn):
        return step1(conn.fork("x") if explicit_fork else conn)
    @task(namespace="probe")
    def workflow():
        conn = PHandle("conn")
        return stage(step0(conn))
    scheduler.run(workflow())
    @task(namespace="probe", version="2")
    def step0(conn):
        calls.append("step0v2"); return conn
    scheduler.run(workflow())
    @task(namespace="probe", version="1")
    def step0(conn):
        calls.append("step0v1"); return conn
    calls.clear()
    scheduler.run(workflow())
    return calls

print("implicit:", run(False))
print("explicit:", run(True))
