"""
C25 probe: an explicit fork made inside a task run by the process executor comes back unpickled
(`fork_parent` lost, `is_recorded=True`). The lineage edge parent -> fork must still be recorded,
so that a rollback of an ancestor state invalidates the states derived from the fork.

History: run(init v1) -> run(init v2) -> run(init v1 again).
Lineage model: run 2 rolls back the state `init` was applied to, so r1 (derived from it through
pipeline's fork "a" and `step`) is invalid, and run 3 must execute `step` again.

Exits 1 when the defect is present, 0 when behaviour is right.
usage: python FX/probe.py
"""
import os
import pickle
import sys

sys.path.insert(0, os.path.dirname(os.path.dirname(os.path.abspath(__file__))))

from redun import Handle, Scheduler, task  # noqa: E402

redun_namespace = "fx_processfork"


class DbHandle(Handle):
    def __init__(self, name, db_file):
        self.db_file = db_file


calls = []


@task()
def step(conn, x):
    calls.append(("step", x))
    return conn


@task(executor="process")
def pipeline_process(conn):
    return step(conn.fork("a"), 1)


@task()
def pipeline_thread(conn):
    return step(conn.fork("a"), 1)


def make_main(version, pipeline):
    @task(version=version, name="init")
    def init(conn):
        calls.append(("init", version))
        return conn

    @task(name="main", version=version)
    def main():
        conn = DbHandle("conn_" + pipeline.name, "data.db")
        return pipeline(init(conn))

    return main


def scenario(pipeline):
    problems = []
    s = Scheduler()
    s.load()
    calls.clear()
    r1 = s.run(make_main("1", pipeline)())
    if calls != [("init", "1"), ("step", 1)]:
        problems.append("run 1: unexpected calls %r" % calls)
    calls.clear()
    s.run(make_main("2", pipeline)())
    if s.backend.is_valid_handle(r1):
        problems.append(
            "after init was edited (v2) the state r1 derived from init@v1 is still valid"
        )
    if ("step", 1) not in calls:
        problems.append("run 2: step not executed, calls=%r" % calls)
    calls.clear()
    r3 = s.run(make_main("1", pipeline)())
    if calls != [("init", "1"), ("step", 1)]:
        problems.append(
            "after the revert to v1 the stale cached state was replayed: calls=%r "
            "(expected init and step to run again)" % calls
        )
    if r3.__handle__.hash != r1.__handle__.hash:
        problems.append("run 3 state differs from run 1 state")
    if not s.backend.is_valid_handle(r3):
        problems.append("re-derived state r3 is not valid")
    return problems


def backend_level():
    """Same thing without the executor: pickle round trip of a fork, then advance/rollback."""
    problems = []
    s = Scheduler()
    s.load()
    b = s.backend
    h0 = DbHandle("direct", "data.db")
    h1 = h0.apply_call("call1")
    b.advance_handle([h0], h1)
    fork = pickle.loads(pickle.dumps(h1.fork("a")))
    h2 = fork.apply_call("call2")
    b.advance_handle([fork], h2)
    b.rollback_handle(h0)
    if b.is_valid_handle(h2):
        problems.append("backend: state derived from an unpickled fork survives rollback of root")
    b.advance_handle([h0], h1)
    b.advance_handle([fork], h2)
    if not b.is_valid_handle(h2):
        problems.append("backend: re-derived state is not valid again")
    return problems


if __name__ == "__main__":
    failed = False
    for label, fn in [
        ("thread executor", lambda: scenario(pipeline_thread)),
        ("process executor", lambda: scenario(pipeline_process)),
        ("backend level", backend_level),
    ]:
        problems = fn()
        for problem in problems:
            failed = True
            print("DEFECT [%s]: %s" % (label, problem))
        if not problems:
            print("ok [%s]" % label)
    sys.exit(1 if failed else 0)
