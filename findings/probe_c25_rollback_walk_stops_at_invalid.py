"""
Probe for C25: RedunBackendDb.rollback_handle stops walking at an already-invalid handle state,
so a valid (re-derived) descendant behind it survives a rollback of a common ancestor.

Exit 1 when the defect is present, 0 when behaviour matches the reference lineage model.
"""

import os
import sys
from collections import defaultdict

ROOT = os.path.dirname(os.path.dirname(os.path.abspath(__file__)))
sys.path.insert(0, ROOT)

import logging  # noqa: E402

from redun import Handle, Scheduler, task  # noqa: E402

logging.getLogger("redun").setLevel(logging.ERROR)

redun_namespace = "fx_rollbackwalk"


class Model:
    """Reference lineage model: edges are permanent; rollback invalidates all descendants."""

    def __init__(self):
        self.children = defaultdict(set)
        self.valid = {}

    def advance(self, parents, child):
        self.valid[child] = True
        for parent in parents:
            self.valid[parent] = True
            self.children[parent].add(child)

    def rollback(self, node):
        seen, stack = set(), list(self.children[node])
        while stack:
            n = stack.pop()
            if n in seen:
                continue
            seen.add(n)
            stack.extend(self.children[n])
        for n in seen:
            self.valid[n] = False


def backend_level():
    """The reported sequence, driven directly against a fresh in-memory backend."""
    scheduler = Scheduler()
    scheduler.load()
    backend = scheduler.backend

    R = Handle("conn")
    P = R.apply_call("p")
    Q = R.apply_call("q")
    M = P.apply_call("m")
    D = M.apply_call("d")
    names = {"R": R, "P": P, "Q": Q, "M": M, "D": D}
    model = Model()
    problems = []

    def check(step):
        for name, handle in names.items():
            if name not in model.valid:
                continue
            got = bool(backend.is_valid_handle(handle))
            if got != model.valid[name]:
                problems.append(
                    f"backend: after {step}: {name} is_valid={got}, model says {model.valid[name]}"
                )

    def advance(parents, child):
        backend.advance_handle([names[p] for p in parents], names[child])
        model.advance(parents, child)
        check(f"advance({parents}, {child})")

    def rollback(name):
        backend.rollback_handle(names[name])
        model.rollback(name)
        check(f"rollback({name})")

    advance(["R"], "P")
    advance(["R"], "Q")
    advance(["P"], "M")
    advance(["M", "Q"], "D")
    rollback("P")  # M, D invalid
    advance(["Q"], "D")  # D valid again, M still invalid
    rollback("P")  # D derives from P via M: must be invalid again
    return problems


def scheduler_level():
    """
    The same shape through Scheduler.run only: a handle state kept by the caller is used again
    after a rollback made it (and its ancestors) invalid, then the common ancestor is rolled back
    a second time.
    """
    scheduler = Scheduler()
    scheduler.load()
    backend = scheduler.backend
    problems = []

    @task()
    def t_a(conn):
        return conn

    @task()
    def t_a2(conn):
        return conn

    @task()
    def t_a3(conn):
        return conn

    @task()
    def t_b(conn):
        return conn

    @task()
    def t_c(conn):
        return conn

    conn = Handle("conn2")
    a = scheduler.run(t_a(conn))  # conn -> pre -> A
    a2 = scheduler.run(t_a2(a))  # A -> A' -> A2
    scheduler.run(t_b(conn))  # rollback(pre): A, A', A2 invalid
    if backend.is_valid_handle(a) or backend.is_valid_handle(a2):
        problems.append("scheduler: setup failed, a/a2 should be invalid after t_b(conn)")
    a3 = scheduler.run(t_a3(a2))  # re-validates A2 (and derives A2', A3); A, A' stay invalid
    if backend.is_valid_handle(a) or not backend.is_valid_handle(a3):
        problems.append("scheduler: setup failed, expected a invalid and a3 valid")
    scheduler.run(t_c(conn))  # rollback(pre) again: everything derived from pre is invalid
    for name, handle in [("a", a), ("a2", a2), ("a3", a3)]:
        if backend.is_valid_handle(handle):
            problems.append(
                f"scheduler: {name} still valid after the state it derives from was rolled back"
            )
    return problems


def main():
    problems = backend_level() + scheduler_level()
    for problem in problems:
        print("DEFECT:", problem)
    if problems:
        return 1
    print("OK: handle validity follows the lineage model")
    return 0


if __name__ == "__main__":
    sys.exit(main())
