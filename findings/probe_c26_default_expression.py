"""C26: get_context(path, default) returns an unevaluated expression when the default is a task call and the path is missing."""
import sys; sys.path.insert(0, sys.argv[1] if len(sys.argv) > 1 else '/repo')
from redun import Scheduler, task
from redun.context import get_context
redun_namespace = "p26"
@task()
def const(): return 7
@task()
def main(): return get_context("zz.missing", const())
s = Scheduler(); s.load()
r = s.run(main())
print(repr(r))
assert r == 7, f"expected the default's value 7, got {r!r}"
print("OK")
