"""C26: update_context on a PartialTask drops the context overrides made before .partial()."""
import sys; sys.path.insert(0, sys.argv[1] if len(sys.argv) > 1 else '/repo')
from redun import Scheduler, task
from redun.context import get_context
redun_namespace = "p26b"
@task()
def show(x, a=get_context("a", None), b=get_context("b", None)): return [x, a, b]
@task()
def main():
    return [show.update_context({"a": 1}).update_context({"b": 2})(0), show.update_context({"a": 1}).partial(0).update_context({"b": 2})()]
s = Scheduler(); s.load()
r = s.run(main()); print(r)
assert r[0] == r[1] == [0, 1, 2], r
print("OK")
