"""Probe (not a check): update_context(context, **kwargs) merges [inherited, context, kwargs] in one merge_dicts call; when the inherited value of
a key is a scalar and both overrides are mappings, merge_dicts returns the last mapping alone instead of the merge of the two overrides
(what applying the overrides one after the other gives).  Usage: probe [repo-root]; exit 1 if the two ways disagree."""
import sys

sys.path.insert(0, sys.argv[1] if len(sys.argv) > 1 else "/repo")
from redun.utils import merge_dicts  # noqa: E402

inherited = {"a": 5}
first = {"a": {"x": 1}}
second = {"a": {"y": 2}}
at_once = merge_dicts([inherited, first, second])
one_by_one = merge_dicts([merge_dicts([inherited, first]), second])
print("at once   :", at_once)
print("one by one:", one_by_one)
sys.exit(0 if at_once == one_by_one == {"a": {"x": 1, "y": 2}} else 1)
