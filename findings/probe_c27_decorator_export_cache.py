"""
Probe: `@task(export_options={"cache": False})` must export the (renamed) cache
option to child jobs exactly like `parent.export_options(cache=False)()` does.
Exit 1 if the decorator form fails to export, 0 if both forms behave the same.
"""
import os
import sys

sys.path.insert(0, os.path.dirname(os.path.dirname(os.path.abspath(__file__))))

from redun import Scheduler, task  # noqa: E402
from redun.scheduler import JobInfo  # noqa: E402
from redun.task import CacheScope  # noqa: E402

calls = []


@task(namespace="fxprobe")
def child(x, job_info: JobInfo = JobInfo()):
    calls.append(("child", job_info.options.get("cache_scope")))
    return x


@task(namespace="fxprobe", export_options={"cache": False})
def parent_deco(x):
    calls.append(("parent_deco", None))
    return child(x)


@task(namespace="fxprobe", export_options={"cache_scope": "CSE"})
def parent_deco_scope(x):
    # Control: the non-legacy spelling in the decorator.
    return child(x)


@task(namespace="fxprobe")
def parent_plain(x):
    calls.append(("parent_plain", None))
    return child(x)


def run_twice(expr_fn):
    """Run twice on a fresh scheduler; return child's calls in 2nd run."""
    scheduler = Scheduler()
    scheduler.load()
    calls.clear()
    assert scheduler.run(expr_fn()) == 1
    first = [c for c in calls if c[0] == "child"]
    calls.clear()
    assert scheduler.run(expr_fn()) == 1
    second = [c for c in calls if c[0] == "child"]
    return first, second


problems = []

# Reference behaviour: call-time export.
first, second = run_twice(lambda: parent_plain.export_options(cache=False)(1))
print("call-time export : 1st", first, "2nd", second)
if not (first and first[0][1] == CacheScope.CSE and len(second) == 1):
    print("UNEXPECTED: reference (call-time export) form does not export cache=False")
    sys.exit(2)

# Control: decorator with the modern name.
first, second = run_twice(lambda: parent_deco_scope(1))
print("deco cache_scope : 1st", first, "2nd", second)
if not (first and first[0][1] == CacheScope.CSE and len(second) == 1):
    problems.append("decorator export_options={'cache_scope': 'CSE'} not exported to child")

# Suspect: decorator with the legacy name.
print("parent_deco._export_options =", parent_deco._export_options)
print("parent_deco options         =", parent_deco.get_task_options())
first, second = run_twice(lambda: parent_deco(1))
print("deco cache=False : 1st", first, "2nd", second)
if not first or first[0][1] != CacheScope.CSE:
    problems.append(
        "decorator export_options={'cache': False}: child saw cache_scope=%r, expected CacheScope.CSE"
        % (first[0][1] if first else None)
    )
if len(second) != 1:
    problems.append(
        "decorator export_options={'cache': False}: child was served from the backend cache on the "
        "2nd run (ran %d times), i.e. cache=False was not exported" % len(second)
    )

if problems:
    print("DEFECT PRESENT:")
    for p in problems:
        print("  -", p)
    sys.exit(1)
print("OK: decorator export of legacy 'cache' option reaches child jobs")
sys.exit(0)
