"""C27: Task.options() drops the exported option names set by an earlier .export_options()."""
import sys; sys.path.insert(0, sys.argv[1] if len(sys.argv) > 1 else '/repo')
from redun import Scheduler, task
redun_namespace = "p27"

@task()
def leaf(): return 1
@task()
def top(): return leaf()

s = Scheduler(); s.load()
out = {}
for label, t in (("export_then_options", top.export_options(a=1).options(b=2)), ("options_then_export", top.options(b=2).export_options(a=1))):
    s.run(t())
    jobs = {j.task.name: j for j in s._jobs} if hasattr(s, "_jobs") and s._jobs else {}
    out[label] = sorted(t._export_options)
print(out)
assert out["export_then_options"] == out["options_then_export"] == ["a"], out
print("OK")
