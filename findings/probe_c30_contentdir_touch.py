"""C30: ContentDir is hashed through the filesystem's quick (mtime/size) member hashes, so touching a member changes its hash although no byte changed."""
import sys, os, tempfile; sys.path.insert(0, sys.argv[1] if len(sys.argv) > 1 else '/repo')
from redun.file import ContentDir, ContentFileSet, File
with tempfile.TemporaryDirectory() as d:
    File(os.path.join(d, "x", "a.txt")).write("hello")
    cd = ContentDir(os.path.join(d, "x")); cfs = ContentFileSet(os.path.join(d, "x", "*"))
    h1, f1 = cd.hash, cfs.hash
    os.utime(os.path.join(d, "x", "a.txt"), (1, 1))
    print("ContentDir valid after touch:", cd.is_valid(), " ContentFileSet valid after touch:", cfs.is_valid())
    assert cd.is_valid(), "ContentDir hash changed although no byte changed"
    File(os.path.join(d, "x", "a.txt")).write("HELLO")
    os.utime(os.path.join(d, "x", "a.txt"), (1, 1))
    assert not ContentDir(os.path.join(d, "x")).hash == h1, "content change not seen"
print("OK")
