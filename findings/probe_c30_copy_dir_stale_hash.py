"""C30.9 probe: redun.tools.copy_dir returns a Dir whose hash was taken before the copy.  exit 1 = defect present."""
import os, sys, tempfile
sys.path.insert(0, os.environ.get("REDUN_ROOT", os.getcwd()))
from redun import Dir, File, Scheduler
from redun.tools import copy_dir

d = tempfile.mkdtemp()
src = os.path.join(d, "src"); dst = os.path.join(d, "dst")
os.makedirs(src)
File(os.path.join(src, "a.txt")).write("hello")
s = Scheduler()
s.load()
out = s.run(copy_dir(Dir(src), dst))
fresh = Dir(dst).hash
print("returned hash == fresh hash:", out.hash == fresh, " is_valid:", out.is_valid())
if out.hash != fresh:
    print("DEFECT: the Dir returned by copy_dir carries the hash of the (empty) destination before the copy")
    sys.exit(1)
print("OK")
