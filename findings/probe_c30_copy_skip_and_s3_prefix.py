"""Probe for C30: File/Dir hashes track the filesystem.

A) File.copy_to(dest, skip_if_exists=True) / Dir.copy_to(..., skip_if_exists=True)
   must return a value whose recorded hash equals a fresh hash of the filesystem.
B) Dir('s3://b/dir').hash must not depend on objects under s3://b/dir2/.
Exit 1 when a defect is present, 0 otherwise.
"""
import os
import sys
import tempfile

ROOT = os.path.dirname(os.path.dirname(os.path.abspath(__file__)))
sys.path.insert(0, ROOT)

import boto3  # noqa: E402

from redun import Dir, File  # noqa: E402
from redun.tests.utils import mock_s3  # noqa: E402

problems = []


def check_file_copy_skip(tmp):
    src = File(os.path.join(tmp, "src.txt"))
    src.write("source")
    dpath = os.path.join(tmp, "d.txt")
    dest = File(dpath)
    dest.write("one")  # dest now carries a cached hash for content 'one'
    with open(dpath, "w") as out:  # modified behind the object's back
        out.write("changed, and longer")
    out_file = src.copy_to(dest, skip_if_exists=True)
    fresh = File(dpath).hash
    if out_file.hash != fresh:
        problems.append(
            "File.copy_to(skip_if_exists=True): returned hash %s != fresh hash %s (is_valid=%s)"
            % (out_file.hash[:8], fresh[:8], out_file.is_valid())
        )
    # Sanity: the skip really skipped.
    assert open(dpath).read() == "changed, and longer"


def check_tool_copy_file(tmp):
    """Same with a dest File that was unpickled (e.g. came out of the cache)."""
    import pickle

    src = File(os.path.join(tmp, "src2.txt"))
    src.write("source")
    dpath = os.path.join(tmp, "d2.txt")
    dest = File(dpath)
    dest.write("one")
    dest = pickle.loads(pickle.dumps(dest))  # e.g. value that came out of the cache
    with open(dpath, "w") as out:
        out.write("changed, and longer")
    out_file = src.copy_to(dest, skip_if_exists=True)
    fresh = File(dpath).hash
    if out_file.hash != fresh:
        problems.append(
            "File.copy_to(skip_if_exists=True) on unpickled dest: %s != %s"
            % (out_file.hash[:8], fresh[:8])
        )


def check_dir_copy_skip(tmp):
    src = Dir(os.path.join(tmp, "sdir"))
    src.file("a.txt").write("A")
    src.file("b.txt").write("B")
    dest = Dir(os.path.join(tmp, "ddir"))
    dest.file("a.txt").write("one")
    dest.update_hash()  # dest Dir carries a cached hash
    with open(os.path.join(tmp, "ddir", "a.txt"), "w") as out:
        out.write("changed, and longer")
    out_dir = src.copy_to(dest, skip_if_exists=True)
    fresh = Dir(os.path.join(tmp, "ddir")).hash
    if out_dir.hash != fresh or not out_dir.is_valid():
        problems.append("Dir.copy_to(skip_if_exists=True): %s != %s" % (out_dir.hash, fresh))
    assert open(os.path.join(tmp, "ddir", "a.txt")).read() == "changed, and longer"


@mock_s3
def check_s3_prefix():
    client = boto3.client("s3", region_name="us-east-1")
    client.create_bucket(Bucket="example-bucket")
    File("s3://example-bucket/dir/a.txt").write("a")
    h1 = Dir("s3://example-bucket/dir").hash
    n1 = len(list(Dir("s3://example-bucket/dir")))
    File("s3://example-bucket/dir2/b.txt").write("b")
    File("s3://example-bucket/dir.bak").write("c")
    d = Dir("s3://example-bucket/dir")
    h2 = d.hash
    n2 = len(list(d))
    hashes = list(d.filesystem.iter_file_hashes(d.path))
    if n1 != 1 or n2 != 1:
        problems.append("unexpected Dir listing sizes %r %r" % (n1, n2))
    if h1 != h2 or len(hashes) != 1:
        problems.append(
            "S3 Dir('s3://example-bucket/dir') hash changed (%s -> %s) after writing only to "
            "dir2/ and dir.bak; iter_file_hashes yields %d hashes for a 1-file dir"
            % (h1[:8], h2[:8], len(hashes))
        )
    # The Dir hash must still track its own content.
    File("s3://example-bucket/dir/sub/c.txt").write("c")
    if Dir("s3://example-bucket/dir").hash == h2:
        problems.append("S3 Dir hash did not change after adding dir/sub/c.txt")
    # Trailing slash spelling must agree.
    if (
        Dir("s3://example-bucket/dir/").hash != Dir("s3://example-bucket/dir").hash
    ):
        problems.append("S3 Dir hash differs by trailing slash")


with tempfile.TemporaryDirectory() as tmp:
    check_file_copy_skip(tmp)
    check_tool_copy_file(tmp)
    check_dir_copy_skip(tmp)
check_s3_prefix()

if problems:
    print("DEFECT PRESENT:")
    for p in problems:
        print(" -", p)
    sys.exit(1)
print("OK: hashes track the filesystem")
sys.exit(0)
