"""
C30 probe: File/Dir hashes must track the filesystem after staging, touch and remove.

Exits 1 (listing the stale hashes) when the defect is present, 0 otherwise.
"""

import os
import sys
import tempfile

ROOT = os.path.dirname(os.path.dirname(os.path.abspath(__file__)))
sys.path.insert(0, ROOT)

from redun.file import (  # noqa: E402
    ContentFile,
    Dir,
    File,
    StagingDir,
    StagingFile,
)

problems = []


def check(label, value, fresh_value):
    """`value` went through redun; `fresh_value` is a brand new object for the same path."""
    if value.hash != fresh_value.hash:
        problems.append(
            f"{label}: cached hash {value.hash[:8]} != fresh hash {fresh_value.hash[:8]}"
            f" (is_valid={value.is_valid()})"
        )


def modify(path, data, mtime):
    # Modification that does not go through the File object under test.
    with open(path, "w") as out:
        out.write(data)
    os.utime(path, (mtime, mtime))


def main():
    os.chdir(tempfile.mkdtemp(prefix="fx_stagesame_"))

    # 1. StagingFile with local.path == remote.path, unstage().
    f = File("file.txt")
    f.write("hello")
    assert f.hash  # Hash is cached now.
    modify("file.txt", "hello, world", 1_000_000)
    staging = f.stage("file.txt")  # remote is `f`, local is a new File("file.txt").
    assert staging.local.path == staging.remote.path
    check("StagingFile.unstage() same path", staging.unstage(), File("file.txt"))

    # 2. StagingFile with local.path == remote.path, stage().
    g = File("file2.txt")
    g.write("hello")
    assert g.hash
    modify("file2.txt", "hello, world", 1_000_000)
    check("StagingFile.stage() same path", StagingFile(g, "file2.txt").stage(), File("file2.txt"))

    # 2b. Same with content hashed files.
    c = ContentFile("file3.txt")
    c.write("hello")
    assert c.hash
    modify("file3.txt", "bye", 1_000_000)
    check("ContentStagingFile.unstage() same path", c.stage("file3.txt").unstage(),
          ContentFile("file3.txt"))

    # 3. StagingDir with local.path == remote.path, unstage() and stage().
    d = Dir("dir")
    d.file("a").write("a")
    assert d.hash
    modify("dir/b", "b", 1_000_000)
    check("StagingDir.unstage() same path", d.stage("dir").unstage(), Dir("dir"))

    d2 = Dir("dir2")
    d2.file("a").write("a")
    assert d2.hash
    modify("dir2/b", "b", 1_000_000)
    check("StagingDir.stage() same path", StagingDir(d2, "dir2").stage(), Dir("dir2"))

    # 4. File.touch() creating a new file.
    t = File("new.txt")
    missing_hash = t.hash  # Deterministic hash of a missing path, cached.
    t.touch()
    assert t.exists()
    check("File.touch() creating a file", t, File("new.txt"))
    if t.hash == missing_hash:
        problems.append("File.touch(): hash is still the hash of a missing file")

    # 4b. File.touch(time) on an existing file changes its mtime, hence its hash.
    t.touch((2_000_000, 2_000_000))
    check("File.touch(time) on existing file", t, File("new.txt"))

    # 5. File.remove().
    r = File("gone.txt")
    r.write("data")
    assert r.hash
    r.remove()
    assert not r.exists()
    check("File.remove()", r, File("gone.txt"))

    if problems:
        print("C30 violated: hash does not track the filesystem")
        for problem in problems:
            print("  -", problem)
        return 1
    print("ok: all hashes are fresh")
    return 0


if __name__ == "__main__":
    sys.exit(main())
