"""
Probe for C31 (value storage location is transparent).

Exits 1 if a defect is present, 0 otherwise.
"""
import os
import sys
import tempfile

ROOT = os.path.dirname(os.path.dirname(os.path.abspath(__file__)))
sys.path.insert(0, ROOT)

from redun import Scheduler  # noqa: E402
from redun.config import Config  # noqa: E402

problems = []


def make_scheduler(backend_config):
    scheduler = Scheduler(config=Config({"backend": backend_config}))
    scheduler.load()
    return scheduler


def check_partial_file(tmp):
    """(1) A partial file already sits at the value's path (crashed or in-flight writer)."""
    store = os.path.join(tmp, "values1")
    scheduler = make_scheduler({"value_store_path": store, "value_store_min_size": "100"})
    backend = scheduler.backend
    value = "A" * 5000
    data = backend.type_registry.serialize(value)
    value_hash = backend.type_registry.get_hash(value, data=data)

    path = backend.value_store.get_value_path(value_hash)
    os.makedirs(os.path.dirname(path), exist_ok=True)
    with open(path, "wb") as out:
        out.write(data[: len(data) // 2])

    assert backend.record_value(value) == value_hash
    try:
        result = backend.get_value(value_hash)
    except Exception as error:
        problems.append(
            f"(1) record_value() succeeded over a partial value-store file but get_value() "
            f"raised {type(error).__name__}: {error}"
        )
        return
    if result != (value, True):
        problems.append(f"(1) value read back differently after record_value: {result!r:.80}")


def check_placeholder_without_store(tmp):
    """(2) Placeholder row read by a backend that has no value store configured."""
    store = os.path.join(tmp, "values2")
    db_uri = "sqlite:///" + os.path.join(tmp, "redun.db")
    writer = make_scheduler(
        {"db_uri": db_uri, "value_store_path": store, "value_store_min_size": "100"}
    )
    value = "B" * 5000
    value_hash = writer.backend.record_value(value)
    assert writer.backend.get_value(value_hash) == (value, True)

    reader = make_scheduler({"db_uri": db_uri})
    try:
        result = reader.backend.get_value(value_hash)
    except Exception as error:
        problems.append(
            f"(2) get_value() of an offloaded value without value_store_path raised "
            f"{type(error).__name__}: {error} (expected (None, False))"
        )
        return
    if result != (None, False):
        problems.append(f"(2) expected (None, False), got {result!r:.80}")


def check_subvalues(tmp):
    """(3) Informational only: subvalues are stored inline; they still read back unchanged."""
    from redun import File

    store = os.path.join(tmp, "values3")
    scheduler = make_scheduler({"value_store_path": store, "value_store_min_size": "0"})
    backend = scheduler.backend
    file = File(os.path.join(tmp, "x" * 100))
    file.write("hello")
    backend.record_value([file])
    sub_hash = file.get_hash()
    inline = not backend.value_store.has(sub_hash)
    value, ok = backend.get_value(sub_hash)
    print(f"(3) info: subvalue stored inline={inline}; reads back ok={ok and value.hash == file.hash}")
    if not (ok and value.hash == file.hash):
        problems.append("(3) subvalue did not read back with the same hash")


with tempfile.TemporaryDirectory() as tmp:
    check_partial_file(tmp)
    check_placeholder_without_store(tmp)
    check_subvalues(tmp)

if problems:
    print("DEFECT PRESENT:")
    for problem in problems:
        print(" -", problem)
    sys.exit(1)
print("OK: value storage location is transparent for the probed cases")
sys.exit(0)
