"""
Probe for GCPBatchExecutor job reuniting (property C32).

Scenario A (array reunite): a scheduler submits an 11-element array job and dies; a new
scheduler/executor gathers the in-flight Batch tasks.  The Batch `list_tasks` API has no
ordering contract, so the mock returns the tasks sorted by *name* (0, 1, 10, 2, ...).  Every
eval_hash must be paired with the task whose own index (`.../tasks/<i>`) is the line number of
that eval_hash in the array's eval-hash file.

Scenario B (stale reunite): `get_task` yields nothing usable (falsy) for a pre-existing task.
The job must still be tracked by the executor (either reunited or freshly submitted), not
silently forgotten.

Exit 1 if either is wrong, 0 otherwise.
"""

import os
import sys
import time
from unittest.mock import Mock, patch

ROOT = os.path.dirname(os.path.dirname(os.path.abspath(__file__)))
sys.path.insert(0, ROOT)

import boto3  # noqa: E402
from google.cloud import batch_v1, compute_v1  # noqa: E402

import redun  # noqa: E402
from redun import task  # noqa: E402
from redun.config import Config  # noqa: E402
from redun.executors.gcp_batch import GCPBatchExecutor  # noqa: E402
from redun.scheduler import Job  # noqa: E402
from redun.tests.utils import (  # noqa: E402
    get_filesystem_class_mock,
    mock_s3,
    mock_scheduler,
    use_tempdir,
)

assert os.path.abspath(redun.__file__).startswith(ROOT), redun.__file__

GCS_SCRATCH_PREFIX = "gs://example-bucket/redun"
GROUP = "projects/project/locations/region/jobs/redun-array-x/taskGroups/group0"
N = 11

State = batch_v1.TaskStatus.State


@task
def task1(x: int) -> int:
    return x


def make_executor(scheduler) -> GCPBatchExecutor:
    config = Config(
        {
            "gcp_batch": {
                "gcs_scratch": GCS_SCRATCH_PREFIX,
                "project": "project",
                "region": "region",
                "image": "image",
                "job_monitor_interval": 0.05,
                "job_stale_time": 0.01,
                "code_package": False,
                "min_array_size": 2,
            }
        }
    )
    executor = GCPBatchExecutor("batch", scheduler, config["gcp_batch"])
    executor.start()

    def executor_start():
        executor.is_running = True
        executor._thread = Mock()  # No monitor thread; we drive monitoring by hand.

    executor._start = executor_start
    return executor


def make_job(x: int) -> Job:
    job = Job(task1, task1(x))
    job.eval_hash = f"evalhash{x:02d}"
    job.args = ((x,), {})
    return job


@use_tempdir
@mock_s3
@patch("redun.file.get_filesystem_class", get_filesystem_class_mock)
@patch("redun.executors.gcp_utils.get_gcp_compute_client")
@patch("redun.executors.gcp_utils.get_compute_machine_type")
@patch("redun.executors.gcp_utils.get_gcp_batch_client")
@patch("redun.executors.gcp_utils.list_tasks")
@patch("redun.executors.gcp_utils.list_jobs")
@patch("redun.executors.gcp_utils.get_task")
def probe(
    get_task_mock,
    list_jobs_mock,
    list_tasks_mock,
    get_client_mock,
    get_machine_type_mock,
    get_compute_client_mock,
) -> list:
    problems = []
    boto3.client("s3", region_name="us-east-1").create_bucket(Bucket="example-bucket")
    get_machine_type_mock.return_value = compute_v1.types.MachineType(
        memory_mb=16384, guest_cpus=2
    )
    client = get_client_mock()

    # ---------------------------------------------------------------- Scenario A
    # First scheduler: submit an array of N jobs using the real submission code (this writes
    # the eval-hash file that reuniting later reads).
    executor1 = make_executor(mock_scheduler())
    client.create_job.return_value = batch_v1.Job(
        task_groups=[batch_v1.TaskGroup(name=GROUP, task_count=N)]
    )
    jobs1 = [make_job(i) for i in range(N)]
    array_uuid = executor1._submit_array_job(jobs1)
    # What the submitting executor itself believes: task i <-> jobs1[i].
    truth = {job.eval_hash: name for name, job in executor1.pending_batch_tasks.items()}
    executor1.stop()

    # Second scheduler ("restart"): the array job is still running on Batch.
    inflight_job = batch_v1.Job(
        labels={"redun_hash": array_uuid, "redun_job_type": "container"},
        status=batch_v1.JobStatus(state=batch_v1.JobStatus.State.RUNNING),
        task_groups=[batch_v1.TaskGroup(name=GROUP, task_count=N)],
    )
    list_jobs_mock.return_value = [inflight_job]
    # All array elements are still running remotely.
    states = {f"{GROUP}/tasks/{i}": State.RUNNING for i in range(N)}

    def make_task(name):
        return batch_v1.Task(name=name, status=batch_v1.TaskStatus(state=states[name]))

    # No ordering contract on ListTasks: return them sorted by name (0, 1, 10, 2, 3, ...).
    list_tasks_mock.side_effect = lambda client, group_name: [
        make_task(name) for name in sorted(states)
    ]
    get_task_mock.side_effect = lambda client, task_name: make_task(task_name)

    scheduler2 = mock_scheduler()
    executor2 = make_executor(scheduler2)
    executor2.gather_inflight_jobs()
    wrong = {
        h: (name, truth[h])
        for h, name in executor2.preexisting_batch_tasks.items()
        if truth[h] != name
    }
    if wrong:
        problems.append(
            "A: array reunite paired eval_hashes with the wrong Batch task: "
            + ", ".join(
                f"{h}->tasks/{got.rsplit('/', 1)[1]} (should be tasks/{want.rsplit('/', 1)[1]})"
                for h, (got, want) in sorted(wrong.items())
            )
        )

    # Observable consequence: element 10 fails remotely while element 2 is still running.
    # Re-submitting the job of element 2 must not get the failure of element 10.
    states[f"{GROUP}/tasks/10"] = State.FAILED
    job2 = make_job(2)
    executor2.submit(job2)
    for name in list(executor2.pending_batch_tasks):
        executor2._process_task_status(make_task(name))  # One monitor pass.
    if job2.id in scheduler2.job_errors:
        problems.append(
            "A: job for array element 2 (still RUNNING remotely) was rejected with "
            f"{scheduler2.job_errors[job2.id]!r} because it was reunited with element 10"
        )
    executor2.stop()

    # ---------------------------------------------------------------- Scenario B
    single_group = "projects/project/locations/region/jobs/redun-single/taskGroups/group0"
    jobB = make_job(99)
    list_jobs_mock.return_value = [
        batch_v1.Job(
            labels={"redun_hash": jobB.eval_hash, "redun_job_type": "container"},
            status=batch_v1.JobStatus(state=batch_v1.JobStatus.State.RUNNING),
            task_groups=[batch_v1.TaskGroup(name=single_group, task_count=1)],
        )
    ]
    # Batch no longer has a usable record of the task (empty proto message is falsy).
    get_task_mock.side_effect = None
    get_task_mock.return_value = batch_v1.Task()
    assert not get_task_mock.return_value
    client.create_job.return_value = batch_v1.Job(
        task_groups=[batch_v1.TaskGroup(name="fresh-group", task_count=1)]
    )

    executor3 = make_executor(mock_scheduler())
    executor3.submit(jobB)
    deadline = time.time() + 3
    tracked = False
    while time.time() < deadline and not tracked:
        tracked = jobB in executor3.pending_batch_tasks.values()
        time.sleep(0.02)
    if not tracked:
        problems.append(
            "B: job whose pre-existing task lookup returned nothing was dropped: "
            f"pending_batch_tasks={list(executor3.pending_batch_tasks)}, "
            f"arrayer.num_pending={executor3.arrayer.num_pending}"
        )
    executor3.stop()

    return problems


if __name__ == "__main__":
    problems = probe()
    for problem in problems:
        print("DEFECT", problem)
    if problems:
        sys.exit(1)
    print("OK: array reunite pairs by task index; stale reunite falls back to submission")
    sys.exit(0)
