"""C32.6 probe: GCPBatchExecutor builds `redun oneshot` without --no-cache even for a job whose cache scope is NONE,
so a stale output under the same eval hash is returned instead of running the task (aws_batch/k8s/docker pass job_options).

Run: cd <repo root> && /venv/bin/python /verif/findings/probe_c32_gcp_no_cache.py   (exit 1 = defect present)
"""
import os, sys, tempfile, pickle
from types import SimpleNamespace
from unittest import mock

sys.path.insert(0, os.environ.get("REDUN_ROOT", os.getcwd()))
from redun import task
from redun.config import Config
from redun.executors import gcp_batch
from redun.executors.scratch import get_job_scratch_file, SCRATCH_OUTPUT
from redun.expression import TaskExpression
from redun.scheduler import Job
from redun.task import CacheScope
from redun.cli import RedunClient
from redun.file import File

redun_namespace = "probe_c32"
COUNTER = {"n": 0}


@task(cache_scope=CacheScope.NONE)
def impure(x: int) -> int:
    COUNTER["n"] += 1
    return x + COUNTER["n"] * 100


def main():
    tmp = tempfile.mkdtemp()
    captured = {}
    with mock.patch.object(gcp_batch, "gcp_utils") as gu:
        gu.get_compute_machine_type.return_value = SimpleNamespace(memory_mb=16384, guest_cpus=2)
        gu.batch_submit.side_effect = lambda **kw: captured.update(kw) or mock.MagicMock()
        config = Config({"gcp_batch": {"gcs_scratch": tmp, "project": "p", "region": "r", "image": "i", "code_package": False}})
        ex = gcp_batch.GCPBatchExecutor("batch", mock.Mock(), config["gcp_batch"])
        expr = impure(1)
        job = Job(impure, expr)
        job.eval_hash = "evalhash"
        job.args = ((1,), {})
        assert CacheScope(job.get_options().get("cache_scope")) == CacheScope.NONE
        # stale output of an earlier execution at the same eval hash
        with File(get_job_scratch_file(tmp, job, SCRATCH_OUTPUT)).open("wb") as out:
            pickle.dump(-1, out)
        ex._submit_single_job(job)
    cmd = captured["commands"]
    print("remote command:", " ".join(cmd))
    has = "--no-cache" in cmd
    print("--no-cache passed:", has)
    # run the command through the real oneshot entry point
    client = RedunClient()
    client.execute(["redun"] + cmd[cmd.index("oneshot"):] if "--check-version" not in cmd else ["redun"] + cmd[1:])
    with File(get_job_scratch_file(tmp, job, SCRATCH_OUTPUT)).open("rb") as f:
        got = pickle.load(f)
    print("remote result:", got, "task calls:", COUNTER["n"])
    if got == -1 or COUNTER["n"] == 0:
        print("DEFECT: cache=False job returned the stale scratch output without calling the task")
        sys.exit(1)
    print("OK")


main()
