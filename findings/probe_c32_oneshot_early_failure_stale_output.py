"""
Probe for C32: a oneshot run that fails *before* the task body (broken import,
unknown task, unreadable input) must not be reported as a success carrying the
output of an earlier run that shares the eval hash.

Exit 1 when the defect is present, exit 0 when the behaviour is right.

Docker is mocked: `run_docker` runs the oneshot command synchronously in a
child python process (the "container"), `docker ps/logs/rm` are faked.  All the
executor's own status logic (iter_job_status / _process_job_status) is real.
"""

import os
import pickle
import subprocess
import sys
import tempfile
from unittest.mock import patch

ROOT = os.path.dirname(os.path.dirname(os.path.abspath(__file__)))
sys.path.insert(0, ROOT)

import redun  # noqa: E402

assert os.path.dirname(os.path.dirname(os.path.abspath(redun.__file__))) == ROOT, redun.__file__

from redun import Scheduler  # noqa: E402
from redun.config import Config  # noqa: E402
from redun.executors import docker as docker_mod  # noqa: E402
from redun.executors.docker import iter_job_status  # noqa: E402
from redun.executors.scratch import get_job_scratch_dir  # noqa: E402

WORKFLOW = '''
import os
if os.environ.get("FX_BROKEN_IMAGE"):
    # The "image" of the second run lacks a dependency of the module.
    import fx_library_missing_from_image

from redun import task

CALLS = os.environ.get("FX_CALLS_FILE")

@task(executor="docker", cache=False)
def stamp(x: int) -> str:
    # cache=False: every run must execute the body again.
    return "ran x=%d gen=%s" % (x, os.environ.get("FX_GEN"))

@task(cache=False)
def main(x: int = 1) -> str:
    return stamp(x)
'''

real_check_output = subprocess.check_output
container_env: dict = {}
container_log: list = []
n_containers = [0]


def fake_run_docker(command, image, **kwargs):
    """Run the job command synchronously in a child process standing in for the container."""
    assert command[0] == "redun"
    code = (
        "import sys; sys.path.insert(0, %r); sys.argv = %r; "
        "from redun.cli import main; main()" % (ROOT, command)
    )
    env = dict(os.environ)
    env.update(container_env)
    proc = subprocess.run([sys.executable, "-c", code], env=env, capture_output=True, text=True)
    n_containers[0] += 1
    container_log.append((proc.returncode, proc.stderr[-400:]))
    return "fxcontainer%d" % n_containers[0]


def fake_check_output(cmd, *args, **kwargs):
    if cmd and cmd[0] == "docker":
        return b""  # `docker ps`: nothing is running any more; logs/rm: empty.
    return real_check_output(cmd, *args, **kwargs)


def oneshot(argv, env=None):
    code = (
        "import sys; sys.path.insert(0, %r); sys.argv = %r; "
        "from redun.cli import main; main()" % (ROOT, ["redun"] + argv)
    )
    e = dict(os.environ)
    e.update(env or {})
    return subprocess.run([sys.executable, "-c", code], env=e, capture_output=True, text=True)


def main() -> int:
    problems = []
    tmp = tempfile.mkdtemp(prefix="fx_oneshotstale_")
    os.chdir(tmp)
    with open("fx_workflow.py", "w") as out:
        out.write(WORKFLOW)
    sys.path.insert(0, tmp)
    import fx_workflow  # noqa

    scratch = os.path.join(tmp, "scratch")
    config = Config(
        {
            "executors.docker": {
                "type": "docker",
                "image": "img",
                "scratch": scratch,
                "code_package": "false",
                "job_monitor_interval": "0.05",
            }
        }
    )

    # ---------------------------------------------------------------- scenario A
    # End to end through Scheduler + DockerExecutor.  Run 1 works.  Run 2 uses an
    # "image" in which importing the module raises; the task is cache=False so the
    # executor passes --no-cache and the body is required to run again.
    with patch.object(docker_mod, "run_docker", fake_run_docker), patch.object(
        subprocess, "check_output", fake_check_output
    ):
        container_env.update({"FX_GEN": "1"})
        s1 = Scheduler(config=config)
        s1.load()
        r1 = s1.run(fx_workflow.main(1))
        print("A run1 ->", repr(r1), container_log[-1][0])
        assert r1 == "ran x=1 gen=1", r1

        container_env.update({"FX_GEN": "2", "FX_BROKEN_IMAGE": "1"})
        s2 = Scheduler(config=config)
        s2.load()
        try:
            r2 = s2.run(fx_workflow.main(1))
        except Exception as error:
            print("A run2 raised (right):", type(error).__name__, str(error)[:100])
        else:
            rc, err = container_log[-1]
            problems.append(
                "A: the container exited %d with %r, its error file holds the exception, "
                "yet Scheduler.run returned the stale value %r of the previous run"
                % (rc, err.strip().splitlines()[-1] if err.strip() else "", r2)
            )
        container_env.pop("FX_BROKEN_IMAGE")

    # ------------------------------------------------- scenarios B, C (status logic)
    # Same thing at the iter_job_status level for the two other early failures.
    from redun.expression import TaskExpression  # noqa
    from redun.scheduler import Job

    def status_after(label, eval_hash, bad_argv_patch):
        job = Job(fx_workflow.stamp, fx_workflow.stamp(5))
        job.eval_hash = eval_hash
        job_dir = get_job_scratch_dir(scratch, job)
        inp, outp, errp = (os.path.join(job_dir, n) for n in ("input", "output", "error"))
        os.makedirs(job_dir, exist_ok=True)
        with open(inp, "wb") as out:
            pickle.dump([(5,), {}], out)
        base = ["oneshot", "fx_workflow", "--no-cache", "--input", inp, "--output", outp]
        base += ["--error", errp]
        ok = oneshot(base + ["stamp"], {"FX_GEN": "old"})
        assert ok.returncode == 0 and os.path.exists(outp), ok.stderr
        argv = bad_argv_patch(base, inp)
        bad = oneshot(argv, {"FX_GEN": "new"})
        assert bad.returncode != 0, "expected the oneshot to fail"
        assert os.path.exists(errp), "error file missing"
        with patch.object(subprocess, "check_output", fake_check_output):
            (st,) = list(iter_job_status(scratch, {"cid": job}))
        err = pickle.load(open(errp, "rb"))[0]
        print(label, "status:", st["status"], "| error file:", repr(err)[:80],
              "| output exists:", os.path.exists(outp))
        if st["status"] != "FAILED":
            problems.append(
                "%s: oneshot failed with %r but iter_job_status says %s because the stale "
                "output %r is still there"
                % (label, err, st["status"], pickle.load(open(outp, "rb")))
            )

    # B: unknown task name.
    status_after("B", "fxhashB", lambda base, inp: base + ["no_such_task"])

    # C: input file is not a readable pickle.
    def corrupt(base, inp):
        with open(inp, "wb") as out:
            out.write(b"not a pickle")
        return base + ["stamp"]

    status_after("C", "fxhashC", corrupt)

    if problems:
        print("\nDEFECT PRESENT:")
        for p in problems:
            print(" -", p)
        return 1
    print("\nOK: early oneshot failures are reported as failures")
    return 0


if __name__ == "__main__":
    sys.exit(main())
