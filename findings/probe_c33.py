import logging
logging.disable(logging.CRITICAL)
from redun import Scheduler, task
from redun.scheduler import catch
from redun.backends.db import Job as DbJob
from redun.backends.db.query import CallGraphQuery
redun_namespace = "probe7"
@task()
def boom(x): raise ValueError("boom")
@task()
def rec(e): return "r"
@task()
def p1(): return boom(1)
@task()
def p2(_): return boom(1)
@task()
def main33():
    a = catch(p1(), ValueError, rec)
    return [a, catch(p2(a), ValueError, rec)]
s = Scheduler(); s.load()
print(s.run(main33()))
sess = s.backend.session
for j in sess.query(DbJob).all():
    print("job", j.task.name, "cached=", j.cached, "display=", j.status)
for st in ["CACHED", "FAILED", "DONE"]:
    q = CallGraphQuery(sess).filter_types(["Job"]).filter_job_statuses([st])
    res = sorted((j.task.name, j.status) for j in q.all())
    print(st, "->", res, " MISMATCH" if any(d != st for _, d in res) else "")
