"""C33 (console): the execution screen's child-job view and its --status CACHED filter disagree with the displayed status."""
import sys, asyncio; sys.path.insert(0, sys.argv[1] if len(sys.argv) > 1 else '/repo')
from types import SimpleNamespace
from redun import Scheduler, task
from redun.scheduler import catch
from redun.backends.db import Execution, Job
from redun.console.screens import ExecutionScreen
redun_namespace = "p33"

@task()
def div(a, b): return a / b
@task()
def retry(err): return div(1, 0)          # same call again: deduplicated onto the failed job (cached=True, result = error)
@task()
def main(): return catch(div(1, 0), ZeroDivisionError, retry)

s = Scheduler(); s.load()
try:
    s.run(main())
except ZeroDivisionError:
    pass
sess = s.backend.session
ex = sess.query(Execution).one()
root = ex.job

def screen(**kw):
    args = SimpleNamespace(page=1, job=None, status=[], task=[]); args.__dict__.update(kw)
    st = SimpleNamespace(execution=ex, execution_id=ex.id, args=args, app=SimpleNamespace(session=sess), page_size=100, job_list=SimpleNamespace(jobs=None), jobs=None)
    asyncio.run(ExecutionScreen.load_jobs(st))
    return st.jobs

truth = {j.id: j.status for j in sess.query(Job).all()}           # Job.status: the displayed status everywhere else
for j in sess.query(Job).all(): j._status = None
bad = []
# (a) child view: statuses computed by the screen for the children of the root job
for j in screen(job=root.id)[1:]:
    if j._status != truth[j.id]:
        bad.append(f"child view shows {j.task.name} as {j._status}, displayed status is {truth[j.id]}")
# (b) status filters
for status in ("RUNNING", "CACHED", "FAILED", "DONE"):
    got = {j.id for j in screen(status=[status])}
    want = {jid for jid, st in truth.items() if st == status}
    if got != want:
        bad.append(f"--status {status} returns {len(got)} job(s), {len(want)} job(s) display {status}")
print("\n".join(bad) or "OK")
sys.exit(1 if bad else 0)
