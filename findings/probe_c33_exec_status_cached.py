"""Probe (not a check): CallGraphQuery.filter_execution_statuses(["CACHED"]) returns executions whose root job was cached; an Execution is never
displayed as CACHED (those are displayed DONE).  Usage: probe [repo-root]; exit 1 if the filter returns records not displayed CACHED."""
import sys

sys.path.insert(0, sys.argv[1] if len(sys.argv) > 1 else "/repo")
from redun import Scheduler, task  # noqa: E402
from redun.backends.db.query import CallGraphQuery  # noqa: E402

redun_namespace = "probe_c33"


@task()
def main(x):
    return x + 1


s = Scheduler()
s.load()
s.run(main(1))
s.run(main(1))  # root job cached
got = list(CallGraphQuery(s.backend.session).filter_execution_statuses(["CACHED"]).all())
shown = [e.status for e in got]
print("filter CACHED returned", len(got), "executions displayed as", shown)
sys.exit(0 if all(x == "CACHED" for x in shown) else 1)
