"""C33.6 probe: CallGraphQuery.limit() must respect status filters.  Run with REDUN_ROOT=<repo root> (exit 1 = defect present)."""
import os, sys
sys.path.insert(0, os.environ.get("REDUN_ROOT", os.getcwd()))
from redun import Scheduler, task
from redun.backends.db.query import CallGraphQuery

redun_namespace = "probe_c33_limit"


@task()
def ok(x):
    return x


@task()
def boom():
    raise ValueError("boom")


@task()
def main():
    return [ok(1), boom()]


s = Scheduler()
s.load()
try:
    s.run(main())
except ValueError:
    pass
q = CallGraphQuery(s.backend.session).filter_types(["Job"]).filter_job_statuses(["FAILED"])
all_ = sorted(j.status for j in q.all())
lim = sorted(j.status for j in q.limit(10))
print("all:", all_, "limit(10):", lim)
if all_ != lim or set(lim) != {"FAILED"}:
    print("DEFECT: limit() drops the status filter")
    sys.exit(1)
print("OK")
