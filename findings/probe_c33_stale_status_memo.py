"""
Probe for C33: status filters must agree with displayed statuses, also for ORM
records that were already loaded (and had `.status` read) while the job was RUNNING
and are still referenced from the same session when the job ends.

Exit 1 if the defect is present, 0 otherwise.
"""

import os
import sys

sys.path.insert(0, os.path.dirname(os.path.dirname(os.path.abspath(__file__))))

from redun import Scheduler, task  # noqa: E402
from redun.backends.db import Execution, Job  # noqa: E402
from redun.backends.db.query import CallGraphQuery  # noqa: E402
from redun.promise import Promise  # noqa: E402
from redun.scheduler import scheduler_task  # noqa: E402

redun_namespace = "fx_stalestatus"

STATUSES = ["RUNNING", "CACHED", "FAILED", "DONE"]
problems = []

scheduler = Scheduler()
scheduler.load()
held = {}


@scheduler_task()
def peek(scheduler, parent_job, sexpr):
    # Runs on the scheduler thread while `main`'s Job is still RUNNING. Keep strong
    # references to the records (as a UI list or a long-lived report would).
    session = scheduler.backend.session
    job = session.query(Job).filter_by(id=parent_job.id).one()
    held["job"] = job
    held["exec"] = job.execution
    held["during"] = (job.status, job.execution.status)
    return Promise(lambda resolve, reject: resolve(1))


@task
def main():
    return peek()


assert scheduler.run(main()) == 1
session = scheduler.backend.session
print("statuses read while running:", held["during"])
if held["during"] != ("RUNNING", "RUNNING"):
    problems.append(f"setup: expected RUNNING while running, got {held['during']}")

# The same session now returns the very same (held) objects.
jobs = session.query(Job).all()
executions = session.query(Execution).all()
assert any(job is held["job"] for job in jobs)
assert any(execution is held["exec"] for execution in executions)

for status in STATUSES:
    filtered = {r.id for r in CallGraphQuery(session).filter_job_statuses([status]).all()}
    displayed = {job.id for job in jobs if job.status == status}
    if filtered != displayed:
        problems.append(
            f"Job {status}: filter returns {sorted(filtered)} but records displaying "
            f"{status} are {sorted(displayed)} (end_time={held['job'].end_time})"
        )
    filtered = {r.id for r in CallGraphQuery(session).filter_execution_statuses([status]).all()}
    displayed = {execution.id for execution in executions if execution.status == status}
    if filtered != displayed:
        problems.append(
            f"Execution {status}: filter returns {sorted(filtered)} but records displaying "
            f"{status} are {sorted(displayed)}"
        )

# Second part of the report: a Job constructed in-process (never loaded) has no `_status`.
try:
    fresh_status = Job(id="fresh", start_time=held["job"].start_time).status
    print("fresh Job status:", fresh_status)
    if fresh_status != "RUNNING":
        problems.append(f"fresh Job without end_time displays {fresh_status}")
except AttributeError as error:
    problems.append(f"fresh Job(...).status raises AttributeError: {error}")

if problems:
    print("DEFECT PRESENT:")
    for problem in problems:
        print("  -", problem)
    sys.exit(1)
print("OK: status filters agree with displayed statuses")
sys.exit(0)
