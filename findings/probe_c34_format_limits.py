"""Probe (not a check): format_tag_value fails for two JSON-compatible values at the limits of the interpreter:
a list nested deeper than the recursion limit (RecursionError from json.dumps) and an int with more than 4300 digits (ValueError)."""
import sys

sys.path.insert(0, sys.argv[1] if len(sys.argv) > 1 else "/repo")
from redun.tags import format_tag_value

v = []
for _ in range(100000):
    v = [v]
bad = 0
for name, val in (("list nested 100000 deep", v), ("10**5000", 10**5000)):
    try:
        format_tag_value(val)
        print(name, "-> ok")
    except BaseException as e:  # noqa
        bad += 1
        print(name, "->", type(e).__name__, str(e)[:70])
sys.exit(1 if bad else 0)
