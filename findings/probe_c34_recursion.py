"""C34.1 probe: format_tag_value must not fail; '[' * 2000 raised RecursionError before the fix.  Run with PYTHONPATH=<repo root>."""
import sys
from redun.tags import format_tag_value, parse_tag_value

bad = 0
for s in ["[" * 2000, '{"a":' * 3000]:
    try:
        d = format_tag_value(s)
        assert parse_tag_value(d) == s
    except BaseException as e:  # noqa
        print("FAIL", type(e).__name__)
        bad = 1
sys.exit(bad)
