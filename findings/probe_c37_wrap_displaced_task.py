"""
Probe for C37 (task registry consistency) vs wraps_task.recursive_rename.

Scenario 1 (judged): wrap a Task object that has been displaced from the registry by a
same-name redefinition.  Expected: the wrapper takes the visible name, the *wrapped object*
moves to the inner namespace, the wrapper's `wrapped_task` names that inner task, and the
unrelated replacement task is not renamed.

Scenario 2 (reported only, see notes.md): wrap the same Task object twice.

Exit 1 = defect present, exit 0 = behaviour right.
"""

import os
import sys
import threading

sys.path.insert(0, os.path.dirname(os.path.dirname(os.path.abspath(__file__))))

from redun import Scheduler, task  # noqa: E402
from redun.task import get_task_registry, wraps_task  # noqa: E402

reg = get_task_registry()
problems = []


def deco():
    @wraps_task(wrapper_name="_w")
    def _w(inner):
        def run(*args, **kwargs):
            return "w(" + inner.func(*args, **kwargs) + ")"

        return run

    return _w


def check(cond, msg):
    if not cond:
        problems.append(msg)


def registry_invariants(label):
    check(
        reg.task_hashes == {t.hash for t in reg},
        f"{label}: task_hashes != hashes of held tasks",
    )
    for key, t in list(reg._tasks.items()):
        check(key == t.fullname, f"{label}: task {t.fullname!r} stored under key {key!r}")


def terminates(fn, timeout=5.0):
    """Run fn in a daemon thread; return (finished, result)."""
    box = {}

    def target():
        try:
            box["result"] = fn()
        except Exception as exc:  # pragma: no cover
            box["result"] = exc

    th = threading.Thread(target=target, daemon=True)
    th.start()
    th.join(timeout)
    return (not th.is_alive()), box.get("result")


# ---------------------------------------------------------------- scenario 1
@task(namespace="p1", name="f")
def a():
    return "a"


A = a


@task(namespace="p1", name="f")  # same-name redefinition: displaces A in the registry
def b():
    return "b"


B = b
assert reg.get("p1.f") is B

W = deco()(A)

print("scenario 1 registry:")
for key, t in reg._tasks.items():
    if key.startswith("p1"):
        print("   ", key, "->", t.func.__name__, "wrapped_task=", t.get_task_option("wrapped_task"))

check(reg.get("p1.f") is W, "s1: visible name p1.f does not hold the new wrapper")
check(W.fullname == "p1.f", f"s1: wrapper fullname is {W.fullname!r}, expected 'p1.f'")
check(
    A.fullname == "p1._w.f",
    f"s1: wrapped original A is named {A.fullname!r}, expected 'p1._w.f'",
)
check(reg.get("p1._w.f") is A, "s1: inner name p1._w.f does not hold the wrapped original A")
check(
    B.fullname == "p1.f",
    f"s1: unrelated replacement task B was renamed to {B.fullname!r}",
)
check(
    W.get_task_option("wrapped_task") != W.fullname,
    f"s1: wrapper's wrapped_task option {W.get_task_option('wrapped_task')!r} is its own name",
)
check(W.wrapped_task is A, "s1: W.wrapped_task does not resolve to the wrapped original A")
done, inner = terminates(lambda: W.inner_task)
check(done, "s1: W.inner_task never terminates (wrapped_task chain is a self-loop)")
if done:
    check(inner is A, "s1: W.inner_task is not A")
registry_invariants("s1")

if not problems:
    # End-to-end: the wrapper must run the object it wrapped.
    scheduler = Scheduler()
    scheduler.load()
    result = scheduler.run(W())
    check(result == "w(a)", f"s1: running wrapper gave {result!r}, expected 'w(a)'")


# ---------------------------------------------------------------- scenario 2 (informational)
@task(namespace="p2", name="f")
def c():
    return "c"


C = c
W1 = deco()(C)
W2 = deco()(C)
print("scenario 2 registry (informational, not judged):")
for key, t in reg._tasks.items():
    if key.startswith("p2"):
        print("   ", key, "->", t.func.__name__, "wrapped_task=", t.get_task_option("wrapped_task"))
print("    W1.fullname =", W1.fullname, " W2.fullname =", W2.fullname, " C.fullname =", C.fullname)
print("    W1.wrapped_task is W2:", W1.wrapped_task is W2, " W1.inner_task is C:", W1.inner_task is C)
registry_invariants("s2")

if problems:
    print("DEFECT PRESENT:")
    for p in problems:
        print("  -", p)
    sys.exit(1)
print("OK")
sys.exit(0)
