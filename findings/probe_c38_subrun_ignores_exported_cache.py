"""
Probe for C38: a subrun under a parent job that exports `cache=False` must re-run,
exactly like a direct child call does.

Exit 1 when subrun is replayed from the cache although the calling job exported cache=False.
"""
import os
import sys
import tempfile

ROOT = os.path.dirname(os.path.dirname(os.path.abspath(__file__)))
sys.path.insert(0, ROOT)

from redun import Scheduler, task  # noqa: E402
from redun.scheduler import Config, subrun  # noqa: E402

redun_namespace = "fx_probe_subruncache"

COUNTER = {"n": 0}


@task()
def impure():
    # Impure on purpose: each real execution returns a new value.
    COUNTER["n"] += 1
    return COUNTER["n"]


@task()
def main_direct():
    return impure()


@task()
def main_subrun(new_execution):
    return subrun(impure(), executor="default", new_execution=new_execution)


def run_twice(make_expr, file_db=False, **run_kwargs):
    """
    Run the same workflow twice in one scheduler (two executions sharing one backend).

    Extending the current execution (new_execution=False) needs a backend that the
    sub-scheduler can open as well, so that case uses a sqlite file in a temp dir.
    """
    COUNTER["n"] = 0
    with tempfile.TemporaryDirectory() as tmpdir:
        if file_db:
            config = Config(
                config_dict={
                    "backend": {"db_uri": f"sqlite:///{tmpdir}/redun.db"},
                    "executors.default": {"type": "local", "mode": "thread"},
                }
            )
            scheduler = Scheduler(config=config)
        else:
            scheduler = Scheduler()
        scheduler.load()
        return [scheduler.run(make_expr(), **run_kwargs) for _ in range(2)]


def main():
    failures = []

    # Baselines.
    direct = run_twice(lambda: main_direct.export_options(cache=False)())
    print("direct child under export_options(cache=False):", direct)
    if direct != [1, 2]:
        failures.append(f"baseline direct evaluation unexpected: {direct}")

    cached = run_twice(lambda: main_subrun(True))
    print("subrun with default caching:", cached)
    if cached != [1, 1]:
        failures.append(f"baseline cached subrun unexpected: {cached}")

    run_nocache = run_twice(lambda: main_subrun(True), cache=False)
    print("subrun under scheduler.run(cache=False):", run_nocache)
    if run_nocache != [1, 2]:
        failures.append(f"scheduler.run(cache=False) subrun unexpected: {run_nocache}")

    # The property under test.
    for new_execution in (True, False):
        got = run_twice(
            lambda: main_subrun.export_options(cache=False)(new_execution),
            file_db=not new_execution,
        )
        print(
            f"subrun(new_execution={new_execution}) under export_options(cache=False):", got
        )
        if got != direct:
            failures.append(
                f"subrun(new_execution={new_execution}) under export_options(cache=False) "
                f"returned {got}, direct evaluation returned {direct}: the subrun was answered "
                "from the cache although the calling job exported cache=False"
            )

    # An explicit call-time option on subrun must still win over the exported option.
    explicit = run_twice(
        lambda: main_subrun_explicit.export_options(cache=False)()
    )
    print("subrun.options(cache_scope='BACKEND') under export_options(cache=False):", explicit)

    if failures:
        print("DEFECT PRESENT:")
        for failure in failures:
            print(" -", failure)
        return 1
    print("OK")
    return 0


@task()
def main_subrun_explicit():
    return subrun.options(cache_scope="BACKEND")(impure(), executor="default", new_execution=True)


if __name__ == "__main__":
    sys.exit(main())
