"""
Statement-level control-flow graph for one function, with edge pseudo-nodes so
that "dominated by the true/false edge of test T" is an ordinary dominance query.

Node kinds:
  entry, exit (normal return / fall-through), raise (exception leaves function)
  stmt  : a simple statement (Expr, Assign, Return, Raise, Assert, With header, ...)
  test  : the test of If/While, the iterator of For (true = another element)
  edge  : pseudo node on an outgoing edge of a test; .label in {"T","F"}; .test = test node
  handler: an `except` clause header

Exceptions: only explicit `raise` statements and statements inside a `try` body
are given exceptional successors (to the handlers; and past them when no handler
is a catch-all). This is the usual "explicit exception flow" CFG.
"""

from __future__ import annotations

import ast
from typing import Iterable, Iterator, Optional

from .core import AnalysisError, FuncNode, src


class Node:
    __slots__ = ("id", "kind", "ast", "label", "test", "succ", "pred")

    def __init__(self, id: int, kind: str, node: Optional[ast.AST] = None, label: str = "", test: "Optional[Node]" = None):
        self.id = id
        self.kind = kind
        self.ast = node
        self.label = label
        self.test = test
        self.succ: list[Node] = []
        self.pred: list[Node] = []

    @property
    def lineno(self) -> int:
        return getattr(self.ast, "lineno", 0)

    def __repr__(self) -> str:
        t = ""
        if self.kind == "edge":
            t = f"{self.label} of {src(self.test.ast)[:40]!r}"
        elif self.ast is not None:
            t = src(self.ast).split("\n")[0][:60]
        return f"<{self.id}:{self.kind} {t}>"


class CFG:
    def __init__(self, fn: ast.AST):
        if not isinstance(fn, FuncNode):
            raise AnalysisError("CFG needs a function")
        self.fn = fn
        self.nodes: list[Node] = []
        self.entry = self._new("entry")
        self.exit = self._new("exit")
        self.raise_exit = self._new("raise")
        # context stacks
        self._loop: list[tuple[Node, list[Node]]] = []  # (continue target, break sources)
        self._exc: list[list[Node]] = []  # stack of handler entry lists
        self._finally: list[list[ast.stmt]] = []
        frontier = self._block(fn.body, [self.entry])
        for n in frontier:
            self._link(n, self.exit)
        self._dom: Optional[dict[Node, set[Node]]] = None
        self._pdom: Optional[dict[Node, set[Node]]] = None

    # -- construction --------------------------------------------------------
    def _new(self, kind: str, node: Optional[ast.AST] = None, label: str = "", test: Optional[Node] = None) -> Node:
        n = Node(len(self.nodes), kind, node, label, test)
        self.nodes.append(n)
        return n

    def _link(self, a: Node, b: Node) -> None:
        if b not in a.succ:
            a.succ.append(b)
            b.pred.append(a)

    def _exc_targets(self) -> list[Node]:
        """Where an exception raised here may go."""
        if self._exc:
            return self._exc[-1]
        return [self.raise_exit]

    def _block(self, stmts: list[ast.stmt], frontier: list[Node]) -> list[Node]:
        for st in stmts:
            if not frontier:
                break  # unreachable code
            frontier = self._stmt(st, frontier)
        return frontier

    def _simple(self, st: ast.AST, frontier: list[Node], kind: str = "stmt") -> Node:
        n = self._new(kind, st)
        for f in frontier:
            self._link(f, n)
        if self._exc:
            for h in self._exc[-1]:
                self._link(n, h)
        return n

    def _branch(self, test_node: Node, label: str) -> Node:
        e = self._new("edge", test_node.ast, label, test_node)
        self._link(test_node, e)
        return e

    def _run_finally(self, frontier: list[Node]) -> list[Node]:
        """Inline pending finally bodies (innermost first) for an abrupt exit."""
        saved_f = self._finally
        saved_e = self._exc
        for i in range(len(saved_f) - 1, -1, -1):
            self._finally = saved_f[:i]
            # exceptions inside finally go outward
            frontier = self._block(saved_f[i], frontier)
        self._finally = saved_f
        self._exc = saved_e
        return frontier

    def _stmt(self, st: ast.stmt, frontier: list[Node]) -> list[Node]:
        if isinstance(st, ast.If):
            t = self._simple(st.test, frontier, "test")
            tb = self._block(st.body, [self._branch(t, "T")])
            fb = self._block(st.orelse, [self._branch(t, "F")])
            return tb + fb
        if isinstance(st, ast.While):
            t = self._simple(st.test, frontier, "test")
            brk: list[Node] = []
            self._loop.append((t, brk))
            body_end = self._block(st.body, [self._branch(t, "T")])
            self._loop.pop()
            for n in body_end:
                self._link(n, t)
            is_true = isinstance(st.test, ast.Constant) and bool(st.test.value)
            out = list(brk)
            fe = self._branch(t, "F")
            if is_true:
                # `while True`: false edge infeasible; keep node but do not continue from it
                pass
            else:
                out += self._block(st.orelse, [fe])
            return out
        if isinstance(st, (ast.For, ast.AsyncFor)):
            t = self._simple(st, frontier, "test")  # ast is the For itself; use .iter/.target
            brk = []
            self._loop.append((t, brk))
            body_end = self._block(st.body, [self._branch(t, "T")])
            self._loop.pop()
            for n in body_end:
                self._link(n, t)
            out = list(brk) + self._block(st.orelse, [self._branch(t, "F")])
            return out
        if isinstance(st, (ast.With, ast.AsyncWith)):
            n = self._simple(st, frontier, "stmt")
            return self._block(st.body, [n])
        if isinstance(st, ast.Try) or (hasattr(ast, "TryStar") and isinstance(st, getattr(ast, "TryStar"))):
            handlers = [self._new("handler", h) for h in st.handlers]
            catch_all = any(
                h.type is None or (isinstance(h.type, ast.Name) and h.type.id in ("Exception", "BaseException"))
                for h in st.handlers
            )
            outer = self._exc_targets()
            targets = list(handlers)
            if not catch_all:
                if st.finalbody:
                    # exception passes through finally then outward
                    fin_entry = self._new("stmt", st)  # marker
                    fe = self._block_with(st.finalbody, [fin_entry], self._exc, self._finally)
                    for n in fe:
                        for o in outer:
                            self._link(n, o)
                    targets.append(fin_entry)
                else:
                    targets += outer
            if st.finalbody:
                self._finally.append(st.finalbody)
            self._exc.append(targets)
            body_end = self._block(st.body, frontier)
            self._exc.pop()
            body_end = self._block(st.orelse, body_end)
            ends = list(body_end)
            for hnode, h in zip(handlers, st.handlers):
                ends += self._block(h.body, [hnode])
            if st.finalbody:
                self._finally.pop()
                ends = self._block(st.finalbody, ends)
            return ends
        if isinstance(st, ast.Return):
            n = self._simple(st, frontier)
            out = self._run_finally([n])
            for o in out:
                self._link(o, self.exit)
            return []
        if isinstance(st, ast.Raise):
            n = self._new("stmt", st)
            for f in frontier:
                self._link(f, n)
            for h in self._exc_targets():
                self._link(n, h)
            return []
        if isinstance(st, ast.Break):
            n = self._simple(st, frontier)
            if not self._loop:
                raise AnalysisError("break outside loop")
            self._loop[-1][1].append(n)
            return []
        if isinstance(st, ast.Continue):
            n = self._simple(st, frontier)
            if not self._loop:
                raise AnalysisError("continue outside loop")
            self._link(n, self._loop[-1][0])
            return []
        if isinstance(st, ast.Match):
            n = self._simple(st.subject, frontier, "test")
            ends: list[Node] = []
            for case in st.cases:
                ends += self._block(case.body, [self._branch(n, "T")])
            ends.append(self._branch(n, "F"))
            return ends
        if isinstance(st, (FuncNode, ast.ClassDef)):
            n = self._simple(st, frontier)  # definition is a simple statement
            return [n]
        # every other statement is simple
        n = self._simple(st, frontier)
        return [n]

    def _block_with(self, stmts, frontier, exc, fin):
        saved_e, saved_f = self._exc, self._finally
        self._exc = list(exc)
        self._finally = list(fin)
        try:
            return self._block(stmts, frontier)
        finally:
            self._exc, self._finally = saved_e, saved_f

    # -- queries -------------------------------------------------------------
    def node_of(self, a: ast.AST) -> Node:
        """CFG node whose ast contains `a` most tightly."""
        best = None
        for n in self.nodes:
            if n.ast is None or n.kind == "edge":
                continue
            root = n.ast
            if n.kind == "test" and isinstance(root, (ast.For, ast.AsyncFor)):
                parts = [root.iter, root.target]
            elif n.kind == "stmt" and isinstance(root, (ast.With, ast.AsyncWith)):
                parts = [i for it in root.items for i in ([it.context_expr] + ([it.optional_vars] if it.optional_vars else []))]
            elif n.kind == "handler":
                parts = [root.type] if root.type is not None else []
                if root is a:
                    return n
            elif isinstance(root, ast.Try):
                continue
            elif isinstance(root, (FuncNode, ast.ClassDef)):
                parts = [root]
            else:
                parts = [root]
            for p in parts:
                if p is a or any(x is a for x in ast.walk(p)):
                    if best is None or _size(best.ast) > _size(n.ast):
                        best = n
        if best is None:
            raise AnalysisError(f"node not in CFG: {src(a)[:80]}")
        return best

    def reachable(self, start: Optional[Node] = None) -> set[Node]:
        start = start or self.entry
        seen = {start}
        stack = [start]
        while stack:
            n = stack.pop()
            for s in n.succ:
                if s not in seen:
                    seen.add(s)
                    stack.append(s)
        return seen

    def dominators(self) -> dict[Node, set[Node]]:
        if self._dom is None:
            self._dom = _dominators(self.entry, self.reachable(), lambda n: n.pred)
        return self._dom

    def dominates(self, a: Node, b: Node) -> bool:
        d = self.dominators()
        return b in d and a in d[b]

    def edge_nodes(self, test: Node, label: str) -> list[Node]:
        return [s for s in test.succ if s.kind == "edge" and s.label == label]

    def must_pass(self, start: Node, through: Iterable[Node], targets: Optional[Iterable[Node]] = None) -> bool:
        """True iff every path from `start` to any of `targets` (default: normal exit)
        visits a node in `through`. `start` itself counts if it is in `through`."""
        through = set(through)
        tg = set(targets) if targets is not None else {self.exit}
        if start in through:
            return True
        seen = {start}
        stack = [start]
        while stack:
            n = stack.pop()
            if n in tg:
                return False
            for s in n.succ:
                if s in through or s in seen:
                    continue
                seen.add(s)
                stack.append(s)
        return True

    def can_reach(self, a: Node, b: Node, avoiding: Iterable[Node] = ()) -> bool:
        av = set(avoiding)
        seen = {a}
        stack = [a]
        while stack:
            n = stack.pop()
            for s in n.succ:
                if s is b:
                    return True
                if s in seen or s in av:
                    continue
                seen.add(s)
                stack.append(s)
        return False

    def paths(self, start: Optional[Node] = None, ends: Optional[Iterable[Node]] = None, max_visits: int = 1, limit: int = 20000) -> Iterator[list[Node]]:
        """Enumerate paths start -> end with each node visited at most max_visits times."""
        start = start or self.entry
        endset = set(ends) if ends is not None else {self.exit, self.raise_exit}
        count = 0
        stack: list[tuple[Node, list[Node], dict[int, int]]] = [(start, [start], {start.id: 1})]
        while stack:
            n, path, visits = stack.pop()
            if n in endset:
                count += 1
                if count > limit:
                    raise AnalysisError(f"path explosion in {getattr(self.fn, 'name', '?')}")
                yield path
                continue
            for s in reversed(n.succ):
                v = visits.get(s.id, 0)
                if v >= max_visits:
                    continue
                nv = dict(visits)
                nv[s.id] = v + 1
                stack.append((s, path + [s], nv))

    def stmt_nodes(self) -> list[Node]:
        return [n for n in self.nodes if n.kind in ("stmt", "test", "handler")]


def _size(a: Optional[ast.AST]) -> int:
    return sum(1 for _ in ast.walk(a)) if a is not None else 10**9


def _dominators(entry: Node, nodes: set[Node], preds) -> dict[Node, set[Node]]:
    dom = {n: set(nodes) for n in nodes}
    dom[entry] = {entry}
    changed = True
    order = sorted(nodes, key=lambda n: n.id)
    while changed:
        changed = False
        for n in order:
            if n is entry:
                continue
            ps = [p for p in preds(n) if p in nodes]
            if ps:
                new = set.intersection(*(dom[p] for p in ps)) | {n}
            else:
                new = {n}
            if new != dom[n]:
                dom[n] = new
                changed = True
    return dom


# -- condition facts ---------------------------------------------------------

def cond_facts(test: ast.AST, truth: bool) -> list[tuple[str, bool]]:
    """Atomic facts implied by `test` evaluating to `truth`.

    (A and B) true  => A true, B true;  (A or B) false => A false, B false;
    not A flips. Atoms are returned as normalised source text.
    """
    if isinstance(test, ast.UnaryOp) and isinstance(test.op, ast.Not):
        return cond_facts(test.operand, not truth)
    if isinstance(test, ast.BoolOp):
        if isinstance(test.op, ast.And) and truth:
            return [f for v in test.values for f in cond_facts(v, True)]
        if isinstance(test.op, ast.Or) and not truth:
            return [f for v in test.values for f in cond_facts(v, False)]
        return [(src(test), truth)]
    return [(src(test), truth)]


def facts_at(cfg: CFG, node: Node) -> set[tuple[str, bool]]:
    """Facts that hold on every path reaching `node` (from dominating edge nodes).

    Facts about names re-assigned between the test and the node are NOT removed
    here; callers that need that use `killed_between`.
    """
    out: set[tuple[str, bool]] = set()
    for d in cfg.dominators().get(node, ()):  # type: ignore[arg-type]
        if d.kind == "edge" and isinstance(d.test.ast, ast.expr):
            out.update(cond_facts(d.test.ast, d.label == "T"))
    return out
