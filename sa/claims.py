"""Claim table: what each check decides (text), what it assumes (note), and the deciding technique."""

NOT_APPLICABLE = {
    "C01": "agreement of Scheduler.run with the reduction semantics for all programs is a statement about computed values; "
    "no structural clause is both necessary and decidable from source beyond what C19/C21/C12 already claim",
    "C02": "equality of cached and uncached answers over edit/revert histories quantifies over sequences of backend states; "
    "its structural ingredients are claimed separately (C03, C04, C05, C12, C15, C17); no further sound static rule exists",
}

_STD_NOTE = (
    "Trusted base: Python's ast module, the hand-written CFG/dominator/lifecycle engine under sa/, and the frozen idiom tables in the rule. "
    "Decides the named structural clauses (necessary conditions) on every path/site of the current source; runtime values are not observed."
)

CLAIMS = {
    "C08": {
        "text": "Every path through the job lifecycle graph recovered from scheduler.py (exec/done/resolve/reject/collapse handlers, wait-queue "
        "re-entry, dry-run) is interpreted abstractly over (units held, tracked booleans): units are consumed only behind the within-limits "
        "test, held at most once, released exactly once iff consumed, and never held at finalisation; ownership of limits_used is closed.",
        "note": _STD_NOTE + " Undecided: executor threads calling done_job/reject_job more than once for one job.",
        "technique": "static analysis: CFG path enumeration + abstract interpretation over the job lifecycle graph; dominance; who-may-write",
    },
    "C03": {
        "text": "Writer/reader completeness of the recorded subtree-task set trusted by shallow hits: every CallNode writer is atomic with its "
        "CallSubtreeTask rows or the reader rejects empty recorded sets; single gate for ULTIMATE results; live registry passed; subtree sets "
        "propagated on all finaliser arms. Decided on every path/site of the source.",
        "note": _STD_NOTE + " Undecided: that a particular history yields a particular answer; SQL transaction semantics are assumed (rows added before a commit become durable together).",
        "technique": "static analysis: who-may-write enumeration, commit-point summaries, CFG dominance/must-pass, def-use of call arguments",
    },
    "C05": {
        "text": "Every path that can hand one call's final result to another (pending-job table, CSE query, ultimate query) constrains the context on "
        "all branches; path-sensitive check from query creation to consumption including the empty-context branch; callers pass context_hash; "
        "tag recorded/hash computed under the same non-empty test.",
        "note": _STD_NOTE + " Single-reduction (Evaluation) hits are exempt by argument: they return the unevaluated result, re-evaluated under the caller's context.",
        "technique": "static analysis: CFG path enumeration between def and use of a query variable, key-shape agreement, call-site argument rules",
    },
    "C33": {
        "text": "Exhaustive truth table: Job.calc_status (decision list) against CallGraphQuery._job_status_term (SQL formulas, three-valued logic for the "
        "outer-joined Value.type) over every abstract job row consistent with the structurally checked row invariants, for jobs and for executions.",
        "note": _STD_NOTE + " The abstract domain (ended, call_hash, cached, result type in {NULL, Error, other}) is exhaustive for the formulas' atoms; SQLAlchemy operator semantics are a frozen table.",
        "technique": "static analysis: decision-table extraction from if/elif chains and SQLAlchemy expressions + finite enumeration",
    },
    "C34": {
        "text": "Totality of format_tag_value by a may-raise summary over resolved callees minus enclosing try/except; unquoted display only behind the "
        "re-parses-as-str test (dominance); parser branch structure.",
        "note": _STD_NOTE + " Undecided: the value round trip itself.",
        "technique": "static analysis: exception-escape (may-raise) summaries, CFG dominance facts",
    },
    "C35": {
        "text": "Interpolation discipline of get_config_dict (values leave an interpolating parser raw or re-escaped), separator agreement split/join, "
        "guards of the config-dir substitution, and both subrun ends using the dict form.",
        "note": _STD_NOTE + " configparser semantics ($ is the interpolation character, $$ its escape) is a frozen fact. Undecided: equality of effective values.",
        "technique": "static analysis: dataflow of exported values through escape/raw reads, structural agreement of writer/reader",
    },
    "C18": {
        "text": "For every concrete Expression class: each identity field (constructor-assigned, minus declared bookkeeping) flows into every returned hash "
        "pre-image or is provably empty there; own-class tag; pickle state keys agree and bookkeeping is reset.",
        "note": _STD_NOTE + " Undecided: hash inequality of different pre-images (C14) and pickle byte determinism of option dicts.",
        "technique": "static analysis: per-return def-use flow over the resolved _calc_hash, class-hierarchy method resolution, writer/reader key agreement",
    },
    "C15": {
        "text": "Exhaustive tag table over all hash pre-image sites (constant tags resolved through class constants and inheritance, no sharing between "
        "record kinds); every argument reaches the key unless the declared filter removes it; kind-aware positional binding; defaults merged under kwargs.",
        "note": _STD_NOTE + " Undecided: hash inequality; injectivity of the encoding is C14.",
        "technique": "static analysis: repo-wide call-site enumeration, class-constant resolution, flow and idiom rules on binding sites",
    },
    "C17": {
        "text": "Transitive read-set of Task._calc_hash (required/forbidden fields), clone completeness of options()/export_options(), write discipline on hashed "
        "fields (must-pass recompute_hash), wrapper/partial composition, and constant evaluation of the decorator-trimming regex on def/async def headers.",
        "note": _STD_NOTE + " Known finding recorded: TaskRegistry.rename does not rehash (a pinned hash in the suite forbids the repair). Undecided: source-text extraction by inspect.",
        "technique": "static analysis: field read-sets through properties, constructor-call keyword rules, CFG must-pass, regex-literal evaluation",
    },
    "C37": {
        "text": "Paired update of the registry's name table and hash-count table on every path of every method, closed ownership of both tables, no hash change "
        "of a counted task outside the decrement/re-add bracket, and hide-then-create order in wraps_task.",
        "note": _STD_NOTE + " The registry counts task.hash (the attribute); whether that attribute reflects the current identity is C17.3.",
        "technique": "static analysis: CFG must-pass pairing, who-may-write by receiver class, statement order",
    },
    "C21": {
        "text": "Consumer/producer dispatch agreement between _find_arg_upstreams and the in-job deduplication callback, evaluated for every concrete "
        "ApplyExpression class through the class hierarchy; publication of call_hash, maintenance of _upstreams, and the row structure of _record_args.",
        "note": _STD_NOTE + " Undecided: the recorded rows of a particular run.",
        "technique": "static analysis: isinstance decision tables over the resolved class hierarchy, structural writer rules",
    },
    "C16": {
        "text": "Structural canonicalisation of unordered containers: sorting proxies for every builtin unordered type, the default container hash must not "
        "pickle opaquely, no process-dependent quantity in any value hash, one pickling entry point with a constant protocol.",
        "note": _STD_NOTE + " Known finding recorded: nested sets inside containers are pickled opaquely. Undecided: byte-level pickle determinism of arbitrary user objects.",
        "technique": "static analysis: class-constant/registry table extraction, who-may-call, forbidden-flow rules",
    },
    "C30": {
        "text": "Mutator-refresh typestate over the File/FileSet/Dir hierarchy (every filesystem mutation under a value is followed by update_hash on all paths), "
        "totality of hashing on a missing path (guard or matching try/except, including the four filesystem siblings), rehash-on-close hook, content-only hashing.",
        "note": _STD_NOTE + " The table of calls that raise on a missing path is frozen in sa/filerules.py. Undecided: equality with a fresh hash at run time.",
        "technique": "static analysis: CFG must-pass (typestate), exception-guard analysis, deviant-sibling cross-check",
    },
    "C04": {
        "text": "Every `is_cached=True` return of Scheduler._get_cache is a CSE hit or dominated by the nested validity test; the validity chain visits every leaf; "
        "validity testing is total on missing paths for all file value classes; immutables are constant-valid; handles ask the backend.",
        "note": _STD_NOTE + " Undecided: that re-execution yields a result reflecting the external state.",
        "technique": "static analysis: CFG dominance by branch outcomes, method resolution through the class hierarchy, exception-guard analysis",
    },
    "C07": {
        "text": "Abstract interpretation of the job lifecycle including wait-queue re-entry: every non-idempotent in-memory effect reachable from the exec handler "
        "runs at most once per job (once-latches on job attributes are understood); schedule-taint: no arrival-ordered state or uuid/time value flows into "
        "preprocessing arguments or hashed call-graph quantities; child hashes sorted.",
        "note": _STD_NOTE + " Known finding recorded: Handle fork keys (call_order) come from an arrival-ordered counter. Undecided: equality of recorded graphs across schedules.",
        "technique": "static analysis: lifecycle abstract interpretation with transitive non-idempotent-effect summaries; intra-procedural taint (def-use)",
    },
    "C22": {
        "text": "Exhaustive over all @db_retry methods of RedunBackendDb: guard-skip-after-partial-commit analysis (existence guard on model M, insert of M, "
        "commit point, later writes) on each method's CFG with transitive commit/write summaries; destructive in-memory mutation before a commit; "
        "the retry wrapper's rollback/raise/loop; decoration coverage of committing public methods.",
        "note": _STD_NOTE + " Two known findings recorded (record_call_node, record_value). SQLAlchemy facts (pending rows become durable at the next commit on the session) are frozen. Undecided: database durability itself.",
        "technique": "static analysis: commit-point / write effect summaries (fixpoint over self-calls), CFG reachability, decorator enumeration",
    },
    "C10": {
        "text": "Lock-discipline decision on the start/exit handshake of every executor monitor thread (6 thread targets in 5 classes): extraction of the "
        "terminal loop guard, the work collections it reads and the start method's liveness test; only the shared-lock idiom or a monitor that does not "
        "exit on empty work is accepted; registration-before-start and top-level error routing.",
        "note": _STD_NOTE + " Six known findings recorded (every executor has the unlocked handshake; each reproduced with a forced interleaving). Undecided: behaviour of the cloud APIs.",
        "technique": "static analysis: thread-entry discovery, loop-guard/liveness-test extraction, lexical lockset idiom matching",
    },
    "C11": {
        "text": "Guarded-by lockset analysis of JobArrayer (every field locked somewhere is locked everywhere outside __init__), the exactly-once partition of a "
        "popped group into batches with the structural size bounds, grouping key, counter arithmetic, and the monitor's error routing.",
        "note": _STD_NOTE + " Foreign unguarded reads of num_pending by executor loop guards are listed in evidence (they only delay exit; C10 covers that loop). Undecided: the interleavings themselves.",
        "technique": "static analysis: lexical lockset (guarded-by) over all methods, structural partition rules",
    },
    "C36": {
        "text": "Chain integrity of the alembic revisions against REDUN_DB_VERSIONS; every upgrade() (plus module-local helpers) is scanned for destructive "
        "operations with SQL text parsed statement by statement (DROP/DELETE only on tables created in the same function; UPDATE only on columns added by "
        "this or the previous revision); the schema folded over the chain equals the declarative models.",
        "note": _STD_NOTE + " One known finding recorded (SQLite arm of 3b0a6e67cc58 rewrites job.start_time/end_time). Undecided: row-by-row equality after an upgrade.",
        "technique": "static analysis: constant extraction, syntactic interpretation of alembic op.* calls, lightweight SQL statement classification",
    },
    "C06": {
        "text": "Hand-off invariant behind deduplication on every path: pending-table store dominates both executor submits, duplicate lookup dominates cache and "
        "resource use, one submit per lifecycle trace, key-shape agreement, finaliser ordering (record_call_node < record_job_end < settle < finalize) on every "
        "path, exactly-once registration of expressions in _evaluate_apply, and the only dedup-skipping exits are the two the property exempts.",
        "note": _STD_NOTE + " Undecided: the quantification over interleavings as such (no schedule is enumerated); executor-side double reporting.",
        "technique": "static analysis: CFG dominance/must-pass, lifecycle path enumeration, event-order rules",
    },
    "C09": {
        "text": "No lost wake-up and no dropped job in the scheduler's control flow: release->wake pairing on all paths, hand-off typestate from the lifecycle "
        "interpreter (stop without continuation only under dry-run), exact partition and re-nomination of the wait queue, job-set pairing, event-loop condition, "
        "non-strict limit test, rejection handler on the done chain.",
        "note": _STD_NOTE + " Undecided: termination of user code and executor threads (C10), fairness of the wait queue.",
        "technique": "static analysis: lifecycle abstract interpretation (typestate), CFG must-pass, linear-form normalisation",
    },
    "C12": {
        "text": "ErrorValue gate in _get_cache by dominance facts, promise error discipline over every discarded chain and every scheduler-task return in three "
        "modules, effect order of the reject finaliser on all provenance paths, workflow-level rejection and re-raise, constant agreement.",
        "note": _STD_NOTE + " Undecided: equality of exception type/message at run time.",
        "technique": "static analysis: CFG dominance facts, syntactic promise-chain discipline, lifecycle event order",
    },
    "C28": {
        "text": "First clause only (a dry run never calls a task function or submits a job): lifecycle interpretation with dryrun=True contains no submit/consume/"
        "rollback/postprocess/cache event, dominance of every such effect by the not-dry-run outcome, who-may-call Executor.submit*, forwarding to "
        "sub-schedulers, loop stop and DryRunResult mapping.",
        "note": _STD_NOTE + " The prediction clauses (returned value equals a real run's, 'would execute at least one task') quantify over backend histories and are not decided.",
        "technique": "static analysis: lifecycle abstract interpretation, dominance facts, who-may-call through the Executor class hierarchy",
    },
    "C13": {
        "text": 'Structural guards of promise.py on every path: settlement writes behind the is_pending guard and before the single notification, closed ownership of the state fields repo-wide, swap-before-iterate in _notify, exactly one resolver and one rejector per then() on every path with late registration notified, adoption and exception capture, index-ordered/once-counted combinators.',
        "note": _STD_NOTE + ' Undecided: adoption/order semantics over arbitrary histories of nested promises.',
        "technique": 'static analysis: CFG dominance and must-pass, who-may-write, statement-order rules',
    },
    "C14": {
        "text": 'Premises of a written prefix-code injectivity argument (sa/rules/C14.md) discharged on the source: distinct single-byte non-digit tags, tag-first/END-last encoders, length after conversion, dispatch order with bool excluded and TypeError otherwise, sorted mapping items with buffer keys, decoder table agreement, hash_struct uses bencode unchanged.',
        "note": _STD_NOTE + ' The induction itself is a paper argument; the checker decides its premises.',
        "technique": 'static analysis: constant extraction, write-sequence and dispatch-order extraction, table agreement',
    },
    "C19": {
        "text": 'Dispatch-table agreement between iter_nested_value_children and map_nested_value over an exhaustive abstract domain of value kinds, agreement on children (dict keys and values, all dataclass fields incl. non-init), type-preserving rebuild, recursion with the same function.',
        "note": _STD_NOTE + ' Undecided: reconstruction of user types with custom constructors at run time.',
        "technique": 'static analysis: decision-table extraction + finite enumeration over abstract kinds',
    },
    "C20": {
        "text": 'Row/hash agreement of record_call_node (same parameters hashed and stored, one hash function, one CallNode tag site), sibling finaliser agreement, entity type/id pairing at every record_tags site, job parent/execution links and value keys.',
        "note": _STD_NOTE + ' Undecided: database contents after a run; crash windows are C22.',
        "technique": 'static analysis: call-site keyword agreement, sibling cross-check, def-use classification',
    },
    "C23": {
        "text": 'Schema coverage of record transfer: every ORM column of every transferred model is serialized and deserialized (exception table with reasons), every table transferred/companion/safely absent (CallSubtreeTask only because the C03 reader guard holds, re-checked), ownership walk follows every foreign key, idempotent put_records.',
        "note": _STD_NOTE + ' Undecided: equality of dumps between repositories.',
        "technique": 'static analysis: ORM/serializer schema extraction and coverage comparison, writer/reader key agreement',
    },
    "C24": {
        "text": 'Clauses only: Merkle premise of the tag edit graph (hashed parents are the recorded parents => acyclic short of a hash fixpoint), monotone is_current (only ever assigned False, repo-wide), CLI-to-backend operation mapping and the update/delete/re-add parent selection.',
        "note": _STD_NOTE + ' Agreement with the multiset model over arbitrary edit histories is a statement about sequences of database states and is not decided.',
        "technique": 'static analysis: def-use agreement, who-may-write with value restriction, structural mapping rules',
    },
    "C25": {
        "text": 'Clauses only: every handle transformation by the scheduler is followed by advance_handle on all (non-dry-run) paths, rollbacks precede resource use and submission on every submitting path and visit every Handle leaf, validity is the backend flag, advance (re)validates, rollback invalidates exactly transitive children.',
        "note": _STD_NOTE + ' Agreement with a lineage model over arbitrary advance/rollback histories is not decided; fork-key timing dependence is C07.',
        "technique": 'static analysis: CFG dominance facts in closures, lifecycle path order, structural rules on the backend operations',
    },
    "C26": {
        "text": 'Precedence order at every context merge site, recursive last-wins shape of merge_dicts by dominance facts, guards of the dotted-path lookup (dict test dominates the subscript, KeyError -> default), option-based transport of overrides.',
        "note": _STD_NOTE + ' Undecided: the merged values themselves.',
        "technique": 'static analysis: operand-order extraction with def-use classification, CFG dominance facts',
    },
    "C27": {
        "text": 'Order of option sources in Job.get_raw_options (classified by resolved callee/attribute), creation sites and guards of scheduler-imposed options, monotone accumulation of exported option names with closed writers, options evaluated before _exec_job is reachable.',
        "note": _STD_NOTE + ' Undecided: option values.',
        "technique": 'static analysis: dict-spread order extraction, dominance facts, who-may-write/call',
    },
    "C29": {
        "text": 'Heredoc safety (terminator returned only on the not-a-line outcome, quoted delimiter, own-line placement, same command text), staging order stage < wrapped command < unstage over all leaves, shape-preserving output mapping, default shell iff no shebang.',
        "note": _STD_NOTE + ' Undecided: byte-for-byte reproduction when a shell executes the wrapper.',
        "technique": 'static analysis: CFG facts, template-constant parsing, statement order',
    },
    "C31": {
        "text": 'Size rejection dominates every store, readers reach deserialisation only on the has_value branch, placeholder convention agrees between writer and reader with the hash computed from the real bytes, missing bytes map to absent at every layer.',
        "note": _STD_NOTE + ' Undecided: hash equality of read-back values; partially written store files after a crash.',
        "technique": 'static analysis: CFG dominance, unchecked-result discipline, writer/reader agreement',
    },
    "C32": {
        "text": 'Aligned construction of array scratch specs from one job sequence, single array index for every spec subscript under array mode, reunite table keyed and consulted by evaluation hash only (regex AST of the job-name parser), eval-hash-derived scratch paths.',
        "note": _STD_NOTE + ' Undecided: equality of remote and local results (pickling, environment).',
        "technique": 'static analysis: iteration-source agreement, reaching-definition rule, regex AST inspection',
    },
    "C38": {
        "text": "subrun's root task options exclude SINGLE cache results, extending the current execution passes the calling job's id through the JobInfo placeholder to extend_run (which rebuilds the parent with that id and execution), forced/new executions get fresh expressions, results and errors pass through unchanged.",
        "note": _STD_NOTE + ' Undecided: equivalence of results with direct evaluation.',
        "technique": 'static analysis: set-display and keyword extraction, decision-list extraction, absence-of-handler rule',
    },
}
