"""Claim table: what each check decides (text), what it assumes (note), and the deciding technique."""

NOT_APPLICABLE = {
    "C01": "agreement of Scheduler.run with the reduction semantics for all programs is a statement about computed values; "
    "no structural clause is both necessary and decidable from source beyond what C19/C21/C12 already claim",
    "C02": "equality of cached and uncached answers over edit/revert histories quantifies over sequences of backend states; "
    "its structural ingredients are claimed separately (C03, C04, C05, C12, C15, C17); no further sound static rule exists",
}

_STD_NOTE = (
    "Trusted base: Python's ast module, the hand-written CFG/dominator/lifecycle engine under sa/, and the frozen idiom tables in the rule. "
    "Decides the named structural clauses (necessary conditions) on every path/site of the current source; runtime values are not observed."
)

CLAIMS = {
    "C08": {
        "text": "Every path through the job lifecycle graph recovered from scheduler.py (exec/done/resolve/reject/collapse handlers, wait-queue "
        "re-entry, dry-run) is interpreted abstractly over (units held, tracked booleans): units are consumed only behind the within-limits "
        "test, held at most once, released exactly once iff consumed, and never held at finalisation; ownership of limits_used is closed.",
        "note": _STD_NOTE + " Undecided: executor threads calling done_job/reject_job more than once for one job.",
        "technique": "static analysis: CFG path enumeration + abstract interpretation over the job lifecycle graph; dominance; who-may-write",
    },
    "C03": {
        "text": "Writer/reader completeness of the recorded subtree-task set trusted by shallow hits: every CallNode writer is atomic with its "
        "CallSubtreeTask rows or the reader rejects empty recorded sets; single gate for ULTIMATE results; live registry passed; subtree sets "
        "propagated on all finaliser arms. Decided on every path/site of the source.",
        "note": _STD_NOTE + " Undecided: that a particular history yields a particular answer; SQL transaction semantics are assumed (rows added before a commit become durable together).",
        "technique": "static analysis: who-may-write enumeration, commit-point summaries, CFG dominance/must-pass, def-use of call arguments",
    },
    "C05": {
        "text": "Every path that can hand one call's final result to another (pending-job table, CSE query, ultimate query) constrains the context on "
        "all branches; path-sensitive check from query creation to consumption including the empty-context branch; callers pass context_hash; "
        "tag recorded/hash computed under the same non-empty test.",
        "note": _STD_NOTE + " Single-reduction (Evaluation) hits are exempt by argument: they return the unevaluated result, re-evaluated under the caller's context.",
        "technique": "static analysis: CFG path enumeration between def and use of a query variable, key-shape agreement, call-site argument rules",
    },
}
