"""Claim table: what each check decides (text), what it assumes (note), and the deciding technique."""

NOT_APPLICABLE = {
    "C01": "agreement of Scheduler.run with the reduction semantics for all programs is a statement about computed values; "
    "no structural clause is both necessary and decidable from source beyond what C19/C21/C12 already claim",
    "C02": "equality of cached and uncached answers over edit/revert histories quantifies over sequences of backend states; "
    "its structural ingredients are claimed separately (C03, C04, C05, C12, C15, C17); no further sound static rule exists",
}

_STD_NOTE = (
    "Trusted base: Python's ast module, the hand-written CFG/dominator/lifecycle engine under sa/, and the frozen idiom tables in the rule. "
    "Decides the named structural clauses (necessary conditions) on every path/site of the current source; runtime values are not observed."
)

CLAIMS = {
    "C08": {
        "text": "Every path through the job lifecycle graph recovered from scheduler.py (exec/done/resolve/reject/collapse handlers, wait-queue "
        "re-entry, dry-run) is interpreted abstractly over (units held, tracked booleans): units are consumed only behind the within-limits "
        "test, held at most once, released exactly once iff consumed, and never held at finalisation; ownership of limits_used is closed.",
        "note": _STD_NOTE + " Undecided: executor threads calling done_job/reject_job more than once for one job.",
        "technique": "static analysis: CFG path enumeration + abstract interpretation over the job lifecycle graph; dominance; who-may-write",
    },
}
