"""
Conservation analysis for a queue-of-lists field and its element counter.

For one method of a class that owns
    self.<Q>  : mapping key -> list of items        (e.g. JobArrayer.pending)
    self.<C>  : integer count of all queued items   (e.g. JobArrayer.num_pending)
and hands items off through self.<H>(list)          (e.g. JobArrayer._submit_jobs)

every syntactic path through the method is interpreted over *symbolic list sizes* (linear forms over the size symbols of popped
groups and of slice bounds such as self.max_array_size).  Per path it yields

    dq    net change of the number of items stored in Q
    dc    net change of C
    taken number of items removed from Q,  back number re-inserted,  off number handed to H

The rules built on it:  dq == dc  (the counter is exact on every path) and  taken == back + off  (every removed item is handed off
exactly once or put back).  Sizes that the path conditions do not determine are `None` (unknown) and make the obligation fail: the
analysis never guesses.

No code is executed; the forms are computed from the AST only.
"""

from __future__ import annotations

import ast
from typing import Optional

from .core import AnalysisError, src

Form = Optional[dict]  # symbol -> coefficient, 1 -> constant ; None = unknown


def f_const(k: int) -> dict:
    return {1: k} if k else {}


def f_sym(s: str) -> dict:
    return {s: 1}


def f_add(a: Form, b: Form, sign: int = 1) -> Form:
    if a is None or b is None:
        return None
    out = dict(a)
    for k, v in b.items():
        out[k] = out.get(k, 0) + sign * v
        if out[k] == 0:
            del out[k]
    return out


def f_scale(a: Form, k: int) -> Form:
    if a is None:
        return None
    return {s: v * k for s, v in a.items() if v * k}


def f_eq(a: Form, b: Form) -> bool:
    return a is not None and b is not None and f_add(a, b, -1) == {}


def f_str(a: Form) -> str:
    if a is None:
        return "<unknown>"
    if not a:
        return "0"
    parts = []
    for k, v in sorted(a.items(), key=lambda kv: str(kv[0])):
        name = "" if k == 1 else f"|{k}|" if not str(k).startswith("self.") else str(k)
        if k == 1:
            parts.append(f"{v:+d}")
        elif v == 1:
            parts.append(f"+{name}")
        elif v == -1:
            parts.append(f"-{name}")
        else:
            parts.append(f"{v:+d}*{name}")
    s = " ".join(parts)
    return s[1:] if s.startswith("+") else s


class Path:
    def __init__(self):
        self.sizes: dict[str, Form] = {}  # list-valued locals
        self.ints: dict[str, Form] = {}  # int-valued locals
        self.facts: list[tuple[Form, str]] = []  # (form, '>0' | '<=0')
        self.dq: Form = {}
        self.dc: Form = {}
        self.taken: Form = {}
        self.back: Form = {}
        self.off: Form = {}
        self.trace: list[str] = []
        self.handoffs: list[tuple[int, Form, list]] = []  # (line, batch size, facts at the call)
        self.nsym = 0

    def copy(self) -> "Path":
        p = Path()
        p.sizes, p.ints, p.facts = dict(self.sizes), dict(self.ints), list(self.facts)
        p.dq, p.dc, p.taken, p.back, p.off = self.dq, self.dc, self.taken, self.back, self.off
        p.trace = list(self.trace)
        p.handoffs = list(self.handoffs)
        p.nsym = self.nsym
        return p

    # --- facts
    def known_pos(self, form: Form) -> Optional[bool]:
        """True if form > 0 is known, False if form <= 0 is known, None otherwise."""
        if form is None:
            return None
        if not any(k != 1 for k in form):
            return form.get(1, 0) > 0
        for f, rel in self.facts:
            if f_eq(f, form):
                return rel == ">0"
            # form >= 0 known strictly from f > 0 ... not needed
        return None


class Conservation:
    def __init__(self, fn: ast.AST, queue: str, counter: str, handoff: str):
        self.fn, self.Q, self.C, self.H = fn, f"self.{queue}", f"self.{counter}", f"self.{handoff}"

    # ---- expression evaluation -------------------------------------------
    def int_of(self, e: ast.AST, p: Path) -> Form:
        if isinstance(e, ast.Constant) and isinstance(e.value, int) and not isinstance(e.value, bool):
            return f_const(e.value)
        if isinstance(e, ast.Name):
            return p.ints.get(e.id)
        if isinstance(e, ast.Call) and isinstance(e.func, ast.Name) and e.func.id == "len" and len(e.args) == 1:
            return self.size_of(e.args[0], p)
        if isinstance(e, ast.BinOp) and isinstance(e.op, (ast.Add, ast.Sub)):
            return f_add(self.int_of(e.left, p), self.int_of(e.right, p), 1 if isinstance(e.op, ast.Add) else -1)
        if isinstance(e, ast.Attribute) and src(e).startswith("self.") and src(e) not in (self.Q, self.C):
            return f_sym(src(e))
        return None

    def size_of(self, e: ast.AST, p: Path) -> Form:
        if isinstance(e, ast.Name):
            return p.sizes.get(e.id)
        if isinstance(e, (ast.List, ast.Tuple)) and not any(isinstance(x, ast.Starred) for x in e.elts):
            return f_const(len(e.elts))
        if isinstance(e, ast.Call) and isinstance(e.func, ast.Name) and e.func.id in ("list", "tuple", "sorted") and len(e.args) == 1:
            return self.size_of(e.args[0], p)
        if isinstance(e, ast.Call) and isinstance(e.func, ast.Attribute) and e.func.attr == "copy" and not e.args:
            return self.size_of(e.func.value, p)
        if isinstance(e, ast.BinOp) and isinstance(e.op, ast.Add):
            return f_add(self.size_of(e.left, p), self.size_of(e.right, p))
        if isinstance(e, ast.Subscript) and isinstance(e.slice, ast.Slice) and e.slice.step is None:
            base = self.size_of(e.value, p)
            lo, hi = e.slice.lower, e.slice.upper
            if base is None:
                return None
            if lo is not None and hi is None:
                k = self.int_of(lo, p)
                pos = p.known_pos(f_add(base, k, -1))  # |v| - k > 0 ?
                if pos is True:
                    return f_add(base, k, -1)
                if pos is False:
                    return {}
                return None
            if lo is None and hi is not None:
                k = self.int_of(hi, p)
                pos = p.known_pos(f_add(base, k, -1))
                if pos is True:
                    return k
                if pos is False:
                    return base
                return None
            if lo is None and hi is None:
                return base
        return None

    # ---- statements ----------------------------------------------------------
    def mentions(self, node: ast.AST) -> bool:
        t = src(node)
        return self.Q in t.replace(self.Q + "_", "\0") or (self.C in t.replace(self.C + "_", "\0"))

    def _queue_item(self, e: ast.AST) -> bool:
        """e is self.Q[<key>]"""
        return isinstance(e, ast.Subscript) and src(e.value) == self.Q

    def stmt(self, st: ast.stmt, paths: list[Path]) -> list[Path]:
        out: list[Path] = []
        if isinstance(st, (ast.With, ast.AsyncWith)):
            return self.block(st.body, paths)
        if isinstance(st, ast.Try):
            ps = self.block(st.body, paths)
            ps = self.block(st.orelse, ps)
            return self.block(st.finalbody, ps)
        if isinstance(st, ast.If):
            for p in paths:
                tfacts, ffacts = self.test_facts(st.test, p)
                pt, pf = p.copy(), p.copy()
                pt.facts += tfacts
                pf.facts += ffacts
                pt.trace.append(f"L{st.lineno}:{src(st.test)}")
                pf.trace.append(f"L{st.lineno}:not({src(st.test)})")
                out += self.block(st.body, [pt]) + self.block(st.orelse, [pf])
            return out
        if isinstance(st, (ast.For, ast.AsyncFor)):
            for p in paths:
                n = self.size_of(st.iter, p)
                body = Path()
                body.sizes, body.ints, body.facts = dict(p.sizes), dict(p.ints), list(p.facts)
                if isinstance(st.target, ast.Name):
                    body.sizes.pop(st.target.id, None)
                res = self.block(st.body, [body])
                if len(res) != 1:
                    if any(self.mentions(x) or self.H in src(x) for x in st.body):
                        raise AnalysisError(f"loop at line {st.lineno} branches while touching {self.Q}/{self.C}/{self.H} (unknown idiom)", "conserve")
                    out.append(p)
                    continue
                b = res[0]
                touched = any(x for x in (b.dq, b.dc, b.taken, b.back, b.off))
                if not touched:
                    out.append(p)
                    continue
                q = p.copy()
                q.handoffs += b.handoffs
                for fld in ("dq", "dc", "taken", "back", "off"):
                    per = getattr(b, fld)
                    if per is None or any(k != 1 for k in per):
                        setattr(q, fld, None if per else getattr(q, fld))
                    else:
                        setattr(q, fld, f_add(getattr(q, fld), f_scale(n, per.get(1, 0)) if n is not None else None))
                q.trace.append(f"L{st.lineno}:for-each({src(st.iter)})")
                out.append(q)
            return out
        if isinstance(st, ast.While):
            if any(self.mentions(x) or self.H in src(x) for x in ast.walk(st)):
                raise AnalysisError(f"while loop at line {st.lineno} touches {self.Q}/{self.C}/{self.H} (unknown idiom)", "conserve")
            return paths
        if isinstance(st, (ast.Return, ast.Raise)):
            for p in paths:
                p.trace.append(f"L{st.lineno}:{type(st).__name__.lower()}")
                self.finished.append(p)
            return []
        for p in paths:
            self.simple(st, p)
        return paths

    def test_facts(self, test: ast.AST, p: Path):
        """facts on the true / false outcome: only single comparisons  a > b, a < b, a >= b, a <= b  of integer forms."""
        if isinstance(test, ast.Compare) and len(test.ops) == 1:
            a, b = self.int_of(test.left, p), self.int_of(test.comparators[0], p)
            if a is not None and b is not None:
                op = test.ops[0]
                d = f_add(a, b, -1)  # a - b
                nd = f_scale(d, -1)
                if isinstance(op, ast.Gt):
                    return [(d, ">0")], [(d, "<=0")]
                if isinstance(op, ast.LtE):
                    return [(d, "<=0")], [(d, ">0")]
                if isinstance(op, ast.Lt):
                    return [(nd, ">0")], [(nd, "<=0")]
                if isinstance(op, ast.GtE):
                    return [(nd, "<=0")], [(nd, ">0")]
        return [], []

    def simple(self, st: ast.stmt, p: Path) -> None:
        # assignments to locals
        if isinstance(st, (ast.Assign, ast.AnnAssign)) and getattr(st, "value", None) is not None:
            tg = st.targets[0] if isinstance(st, ast.Assign) else st.target
            v = st.value
            if isinstance(tg, ast.Name):
                # pop from the queue
                if isinstance(v, ast.Call) and isinstance(v.func, ast.Attribute) and v.func.attr == "pop" and src(v.func.value) == self.Q:
                    p.nsym += 1
                    sym = f_sym(f"{tg.id}@L{st.lineno}")
                    p.sizes[tg.id] = sym
                    p.dq = f_add(p.dq, sym, -1)
                    p.taken = f_add(p.taken, sym)
                    p.trace.append(f"L{st.lineno}:{tg.id}=pop")
                    return
                if self.mentions(v):
                    if self._queue_item(v) or (isinstance(v, ast.Call) and isinstance(v.func, ast.Attribute) and v.func.attr == "get" and src(v.func.value) == self.Q):
                        p.sizes[tg.id] = None  # alias of a queued list: size unknown, and mutations through it are not tracked
                        raise AnalysisError(f"line {st.lineno}: local alias of a queued list `{src(st)}` (unknown idiom)", "conserve")
                    if src(v) == self.C or (isinstance(v, ast.Call) and src(v.func) == "len"):
                        p.ints[tg.id] = None
                        return
                    # reading the queue for other purposes (iteration over keys etc.)
                    p.sizes.pop(tg.id, None)
                    p.ints.pop(tg.id, None)
                    return
                sz = self.size_of(v, p)
                iv = self.int_of(v, p)
                p.sizes.pop(tg.id, None)
                p.ints.pop(tg.id, None)
                if sz is not None and not isinstance(v, (ast.Constant, ast.Attribute)):
                    p.sizes[tg.id] = sz
                elif iv is not None:
                    p.ints[tg.id] = iv
                return
            if src(tg) == self.C:
                p.dc = None
                p.trace.append(f"L{st.lineno}:{src(st)}")
                return
            if self._queue_item(tg):
                # self.Q[k] = v replaces whatever is stored under k at that moment.  Another thread may have appended to that entry since this
                # method popped it (the hand-off happens outside the lock), so the number of items dropped is not determined by this method.
                d = self.size_of(v, p)
                p.dq = None
                p.back = f_add(p.back, d)
                p.trace.append(f"L{st.lineno}:{src(st)} [overwrites the entry: items stored under the key since the pop are dropped]")
                return
            if src(tg) == self.Q:
                raise AnalysisError(f"line {st.lineno}: `{src(st)}` replaces the whole queue (unknown idiom)", "conserve")
            return
        if isinstance(st, ast.AugAssign):
            if src(st.target) == self.C:
                d = self.int_of(st.value, p)
                if isinstance(st.op, ast.Add):
                    p.dc = f_add(p.dc, d)
                elif isinstance(st.op, ast.Sub):
                    p.dc = f_add(p.dc, d, -1)
                else:
                    p.dc = None
                p.trace.append(f"L{st.lineno}:{src(st)} [{f_str(d)}]")
                return
            if isinstance(st.target, ast.Name):
                p.ints.pop(st.target.id, None)
                p.sizes.pop(st.target.id, None)
            if self._queue_item(st.target) and isinstance(st.op, ast.Add):
                d = self.size_of(st.value, p)
                p.dq = f_add(p.dq, d)
                p.back = f_add(p.back, d)
                return
            return
        if isinstance(st, ast.Expr) and isinstance(st.value, ast.Call):
            c = st.value
            fn = c.func
            if isinstance(fn, ast.Attribute) and self._queue_item(fn.value) and fn.attr in ("append", "extend"):
                d = f_const(1) if fn.attr == "append" else self.size_of(c.args[0], p)
                p.dq = f_add(p.dq, d)
                p.back = f_add(p.back, d)
                p.trace.append(f"L{st.lineno}:{src(st)} [{f_str(d)}]")
                return
            if src(fn) == self.H:
                d = self.size_of(c.args[0], p) if c.args else None
                p.off = f_add(p.off, d)
                p.handoffs.append((st.lineno, d, list(p.facts)))
                p.trace.append(f"L{st.lineno}:{src(st)} [{f_str(d)}]")
                return
            if isinstance(fn, ast.Attribute) and (src(fn.value) == self.Q or self._queue_item(fn.value)) and fn.attr in ("pop", "clear", "remove", "popitem", "insert", "update", "setdefault"):
                p.dq = None
                p.trace.append(f"L{st.lineno}:{src(st)} [untracked]")
                return
            # a local list mutated in place changes its size
            if isinstance(fn, ast.Attribute) and isinstance(fn.value, ast.Name) and fn.value.id in p.sizes and fn.attr in ("append", "extend", "pop", "remove", "clear", "insert"):
                p.sizes[fn.value.id] = None
            return
        if isinstance(st, ast.Delete):
            if any(self.mentions(t) for t in st.targets):
                p.dq = None

    def block(self, stmts, paths: list[Path]) -> list[Path]:
        for st in stmts:
            if not paths:
                break
            paths = self.stmt(st, paths)
        return paths

    def run(self) -> list[Path]:
        self.finished: list[Path] = []
        end = self.block(self.fn.body, [Path()])
        return self.finished + end
