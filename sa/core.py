"""
Engine core: load /repo's source as ASTs, index definitions, resolve names.

Nothing from the analysed repository is imported or executed.
"""

from __future__ import annotations

import ast
import hashlib
import os
from typing import Iterable, Iterator, Optional

FuncNode = (ast.FunctionDef, ast.AsyncFunctionDef)


class AnalysisError(Exception):
    """The analysis cannot be carried out (missing anchor, unknown idiom). Exit code 2."""

    def __init__(self, msg: str, anchor: str = ""):
        super().__init__(msg)
        self.anchor = anchor


import builtins as _builtins

_BUILTIN_NAMES = set(dir(_builtins))


def _scope_info(node: ast.AST) -> tuple[set, set]:
    """(locals, fixed) for the code under `node`: locals = names bound inside it that are not parameters;
    fixed = parameters and names that are only read (globals, builtins, imported names)."""
    stored, loaded, params = set(), set(), set()
    for n in ast.walk(node):
        if isinstance(n, ast.Name):
            (stored if isinstance(n.ctx, (ast.Store, ast.Del)) else loaded).add(n.id)
        elif isinstance(n, ast.arg):
            params.add(n.arg)
        elif isinstance(n, ast.ExceptHandler) and n.name:
            stored.add(n.name)
        elif isinstance(n, (ast.Global, ast.Nonlocal)):
            params.update(n.names)
        elif isinstance(n, (ast.FunctionDef, ast.AsyncFunctionDef, ast.ClassDef)) and n is not node:
            params.add(n.name)
    locals_ = stored - params
    fixed = params | (loaded - locals_) | _BUILTIN_NAMES
    return locals_, fixed


def _match(pat: ast.AST, code: ast.AST, locals_: set, fixed: set, env: dict) -> bool:
    """Structural equality of two ASTs where a pattern Name that is not a fixed name of the code's scope may stand for
    any local of the code (consistently)."""
    # typing.cast(T, x) is x at run time
    while isinstance(pat, ast.Call) and isinstance(pat.func, ast.Name) and pat.func.id == "cast" and len(pat.args) == 2 and not pat.keywords:
        pat = pat.args[1]
    while isinstance(code, ast.Call) and isinstance(code.func, ast.Name) and code.func.id == "cast" and len(code.args) == 2 and not code.keywords:
        code = code.args[1]
    if isinstance(pat, ast.Name) and isinstance(code, ast.Name):
        if pat.id == code.id:
            return env.setdefault(pat.id, code.id) == code.id
        if pat.id in fixed or code.id not in locals_:
            return False
        if pat.id in env:
            return env[pat.id] == code.id
        if code.id in env.values():
            return False
        env[pat.id] = code.id
        return True
    if type(pat) is not type(code):
        return False
    if isinstance(pat, ast.ExceptHandler):
        if (pat.name is None) != (code.name is None):
            return False
        if pat.name is not None and not _match(ast.Name(id=pat.name, ctx=ast.Store()), ast.Name(id=code.name, ctx=ast.Store()), locals_, fixed, env):
            return False
    for field in pat._fields:
        if field in ("ctx", "type_comment", "lineno", "col_offset", "end_lineno", "end_col_offset", "kind"):
            continue
        if isinstance(pat, ast.ExceptHandler) and field == "name":
            continue
        a, b = getattr(pat, field, None), getattr(code, field, None)
        if isinstance(a, list):
            if not isinstance(b, list) or len(a) != len(b):
                return False
            for x, y in zip(a, b):
                if isinstance(x, ast.AST):
                    if not _match(x, y, locals_, fixed, env):
                        return False
                elif x != y:
                    return False
        elif isinstance(a, ast.AST):
            if not isinstance(b, ast.AST) or not _match(a, b, locals_, fixed, env):
                return False
        elif a != b:
            return False
    return True


class SrcText(str):
    """Normalised source text of a node.  `fragment in text` first tries the literal text, then a structural match in
    which the fragment's local variable names are metavariables (so a consistent rename of locals does not matter)."""

    node: Optional[ast.AST] = None

    def __new__(cls, text: str, node: Optional[ast.AST] = None):
        o = super().__new__(cls, text)
        o.node = node
        return o

    def __contains__(self, frag) -> bool:  # type: ignore[override]
        if str.__contains__(self, frag):
            return True
        if self.node is None or not isinstance(frag, str) or not frag.strip():
            return False
        return structurally_contains(self.node, frag)


def structurally_contains(node: ast.AST, frag: str, env: Optional[dict] = None) -> bool:
    try:
        ptree = ast.parse(frag)
    except SyntaxError:
        return False
    if len(ptree.body) != 1:
        return False
    pat: ast.AST = ptree.body[0]
    if isinstance(pat, ast.Expr):
        pat = pat.value
    if isinstance(pat, (ast.Name, ast.Constant)):
        return False  # a bare identifier is only ever matched literally
    locals_, fixed = _scope_info(node)
    for n in ast.walk(node):
        if type(n) is type(pat):
            e = dict(env or {})
            if _match(pat, n, locals_, fixed, e):
                if env is not None:
                    env.update(e)
                return True
    return False


def src(node: Optional[ast.AST]) -> str:
    """Normalised source text of a node (formatting-independent); see SrcText for the meaning of `in`."""
    if node is None:
        return SrcText("")
    return SrcText(ast.unparse(node), node)


def dotted(node: ast.AST) -> Optional[str]:
    """`a.b.c` for Name/Attribute chains, else None."""
    parts = []
    while isinstance(node, ast.Attribute):
        parts.append(node.attr)
        node = node.value
    if isinstance(node, ast.Name):
        parts.append(node.id)
        return ".".join(reversed(parts))
    if isinstance(node, ast.Call):
        # chain rooted at a call, e.g. f(x).then -> "f().then"
        inner = dotted(node.func)
        if inner is None:
            return None
        parts.append(inner + "()")
        return ".".join(reversed(parts))
    return None


def call_name(call: ast.Call) -> Optional[str]:
    return dotted(call.func)


def last_attr(call: ast.Call) -> Optional[str]:
    f = call.func
    if isinstance(f, ast.Attribute):
        return f.attr
    if isinstance(f, ast.Name):
        return f.id
    return None


def walk_shallow(node: ast.AST, include_lambda: bool = True) -> Iterator[ast.AST]:
    """Walk a function body without descending into nested defs / classes.

    Lambdas are descended into when include_lambda (they are the repo's
    continuation idiom: events_queue.put(lambda: ...)).
    """
    stack = list(ast.iter_child_nodes(node))
    while stack:
        n = stack.pop()
        if isinstance(n, FuncNode) or isinstance(n, ast.ClassDef):
            continue
        if isinstance(n, ast.Lambda) and not include_lambda:
            continue
        yield n
        stack.extend(ast.iter_child_nodes(n))


def calls_in(node: ast.AST, shallow: bool = False) -> list[ast.Call]:
    it = walk_shallow(node) if shallow else ast.walk(node)
    out = [n for n in it if isinstance(n, ast.Call)]
    out.sort(key=lambda c: (c.lineno, c.col_offset))
    return out


def kwarg(call: ast.Call, name: str) -> Optional[ast.AST]:
    for k in call.keywords:
        if k.arg == name:
            return k.value
    return None


def arg_or_kw(call: ast.Call, pos: int, name: str) -> Optional[ast.AST]:
    v = kwarg(call, name)
    if v is not None:
        return v
    if pos < len(call.args) and not any(isinstance(a, ast.Starred) for a in call.args[: pos + 1]):
        return call.args[pos]
    return None


def names_in(node: ast.AST) -> set[str]:
    return {n.id for n in ast.walk(node) if isinstance(n, ast.Name)}


def attrs_in(node: ast.AST) -> set[str]:
    """All dotted attribute chains in node."""
    out = set()
    for n in ast.walk(node):
        if isinstance(n, (ast.Attribute, ast.Name)):
            d = dotted(n)
            if d:
                out.add(d)
    return out


def const_str(node: Optional[ast.AST]) -> Optional[str]:
    if isinstance(node, ast.Constant) and isinstance(node.value, str):
        return node.value
    return None


class Module:
    def __init__(self, root: str, rel: str):
        self.rel = rel
        self.path = os.path.join(root, rel)
        with open(self.path, "rb") as f:
            data = f.read()
        self.sha = hashlib.sha256(data).hexdigest()
        self.text = data.decode("utf-8")
        try:
            self.tree = ast.parse(self.text, filename=self.path)
        except SyntaxError as e:
            raise AnalysisError(f"cannot parse {rel}: {e}", anchor=rel)
        self.renamed_back = 0
        if os.environ.get("VERIF_NO_NORMALISE") != "1":
            from . import normalize

            try:
                self.renamed_back = normalize.normalise_module(rel, self.tree)
            except RecursionError:
                self.renamed_back = 0
        self.funcs: dict[str, ast.AST] = {}
        self.classes: dict[str, ast.ClassDef] = {}
        self.parent: dict[ast.AST, ast.AST] = {}
        self.qual: dict[ast.AST, str] = {}
        self.imports: dict[str, str] = {}  # local name -> dotted origin
        self._index(self.tree, "")
        for n in ast.walk(self.tree):
            for c in ast.iter_child_nodes(n):
                self.parent[c] = n
        self._index_imports()

    def _index(self, node: ast.AST, prefix: str) -> None:
        for child in ast.iter_child_nodes(node):
            if isinstance(child, FuncNode):
                q = prefix + child.name
                # keep first definition unless overloads: last non-overload wins
                if q in self.funcs and _is_overload(child):
                    pass
                else:
                    if not _is_overload(child) or q not in self.funcs:
                        self.funcs[q] = child
                self.qual[child] = q
                self._index(child, q + ".")
            elif isinstance(child, ast.ClassDef):
                q = prefix + child.name
                self.classes[q] = child
                self.qual[child] = q
                self._index(child, q + ".")
            elif isinstance(child, (ast.If, ast.Try, ast.With, ast.For, ast.While)):
                self._index(child, prefix)

    def _index_imports(self) -> None:
        for n in ast.walk(self.tree):
            if isinstance(n, ast.ImportFrom) and n.module:
                for a in n.names:
                    self.imports[a.asname or a.name] = f"{n.module}.{a.name}"
            elif isinstance(n, ast.Import):
                for a in n.names:
                    self.imports[a.asname or a.name.split(".")[0]] = a.name

    # -- anchors -----------------------------------------------------------
    def func(self, qual: str) -> ast.AST:
        f = self.funcs.get(qual)
        if f is None:
            raise AnalysisError(f"anchor function {self.rel}:{qual} not found", f"{self.rel}:{qual}")
        return f

    def has_func(self, qual: str) -> bool:
        return qual in self.funcs

    def cls(self, qual: str) -> ast.ClassDef:
        c = self.classes.get(qual)
        if c is None:
            raise AnalysisError(f"anchor class {self.rel}:{qual} not found", f"{self.rel}:{qual}")
        return c

    def enclosing_func(self, node: ast.AST) -> Optional[ast.AST]:
        p = self.parent.get(node)
        while p is not None and not isinstance(p, FuncNode):
            p = self.parent.get(p)
        return p

    def enclosing_qual(self, node: ast.AST) -> str:
        p = node
        while p is not None and p not in self.qual:
            p = self.parent.get(p)
        return self.qual.get(p, "<module>") if p is not None else "<module>"

    def enclosing_class(self, node: ast.AST) -> Optional[ast.ClassDef]:
        p = self.parent.get(node)
        while p is not None and not isinstance(p, ast.ClassDef):
            p = self.parent.get(p)
        return p

    def construct(self, node: ast.AST, with_stmt: bool = False) -> str:
        q = self.enclosing_qual(node)
        s = f"{self.rel}:{q}"
        if with_stmt:
            s += ":" + src(node)[:160]
        return s

    def module_consts(self) -> dict[str, ast.AST]:
        out = {}
        for st in self.tree.body:
            if isinstance(st, ast.Assign) and len(st.targets) == 1 and isinstance(st.targets[0], ast.Name):
                out[st.targets[0].id] = st.value
            elif isinstance(st, ast.AnnAssign) and isinstance(st.target, ast.Name) and st.value is not None:
                out[st.target.id] = st.value
        return out


def _is_overload(fn: ast.AST) -> bool:
    for d in getattr(fn, "decorator_list", []):
        if dotted(d) in ("overload", "typing.overload"):
            return True
    return False


def decorators(fn: ast.AST) -> list[str]:
    out = []
    for d in getattr(fn, "decorator_list", []):
        if isinstance(d, ast.Call):
            out.append(dotted(d.func) or "?")
        else:
            out.append(dotted(d) or "?")
    return out


def decorator_call(fn: ast.AST, name: str) -> Optional[ast.AST]:
    for d in getattr(fn, "decorator_list", []):
        if isinstance(d, ast.Call) and dotted(d.func) == name:
            return d
        if dotted(d) == name:
            return d
    return None


class Repo:
    """All analysed source of the repository."""

    PKG = "redun"

    def __init__(self, root: str = "/repo", include_tests: bool = False):
        self.root = root
        self.modules: dict[str, Module] = {}
        pkg = os.path.join(root, self.PKG)
        if not os.path.isdir(pkg):
            raise AnalysisError(f"{pkg} not found", anchor=pkg)
        for dirpath, dirnames, filenames in os.walk(pkg):
            dirnames.sort()
            relbase = os.path.relpath(dirpath, root)
            if not include_tests and (relbase == "redun/tests" or relbase.startswith("redun/tests/")):
                dirnames[:] = []
                continue
            for fn in sorted(filenames):
                if fn.endswith(".py"):
                    rel = os.path.join(relbase, fn)
                    self.modules[rel] = Module(root, rel)
        if len(self.modules) < 60:
            raise AnalysisError(f"only {len(self.modules)} modules parsed under {pkg} (expected >= 60)", anchor=pkg)
        self._class_index: Optional[dict[str, list[tuple[Module, ast.ClassDef]]]] = None

    def mod(self, rel: str) -> Module:
        m = self.modules.get(rel)
        if m is None:
            raise AnalysisError(f"anchor module {rel} not found", anchor=rel)
        return m

    def n_functions(self) -> int:
        return sum(len(m.funcs) for m in self.modules.values())

    def extra_module(self, rel: str) -> Optional[Module]:
        """Parse a file outside redun/ (examples, docs)."""
        p = os.path.join(self.root, rel)
        if not os.path.exists(p):
            return None
        return Module(self.root, rel)

    # -- class hierarchy ---------------------------------------------------
    @property
    def class_index(self) -> dict[str, list[tuple[Module, ast.ClassDef]]]:
        if self._class_index is None:
            idx: dict[str, list[tuple[Module, ast.ClassDef]]] = {}
            for m in self.modules.values():
                for q, c in m.classes.items():
                    idx.setdefault(c.name, []).append((m, c))
            self._class_index = idx
        return self._class_index

    def resolve_class(self, mod: Module, name: str) -> Optional[tuple[Module, ast.ClassDef]]:
        """Resolve a (possibly aliased/imported) class name as seen from `mod`."""
        base = name.split(".")[-1]
        if name in mod.classes:
            return mod, mod.classes[name]
        origin = mod.imports.get(name.split(".")[0])
        if origin:
            parts = origin.split(".")
            if "." in name:
                # module alias . Class
                modpath = origin.replace(".", "/")
                for cand in (modpath + ".py", modpath + "/__init__.py"):
                    if cand in self.modules and base in self.modules[cand].classes:
                        return self.modules[cand], self.modules[cand].classes[base]
            else:
                real = parts[-1]
                modpath = "/".join(parts[:-1])
                for cand in (modpath + ".py", modpath + "/__init__.py"):
                    if cand in self.modules and real in self.modules[cand].classes:
                        return self.modules[cand], self.modules[cand].classes[real]
        cands = self.class_index.get(base, [])
        if len(cands) == 1:
            return cands[0]
        return None

    def bases(self, mod: Module, cls: ast.ClassDef) -> list[tuple[Module, ast.ClassDef]]:
        out = []
        for b in cls.bases:
            d = dotted(b)
            if isinstance(b, ast.Subscript):
                d = dotted(b.value)
            if not d:
                continue
            r = self.resolve_class(mod, d)
            if r and r[1] is not cls:
                out.append(r)
        return out

    def mro(self, mod: Module, cls: ast.ClassDef) -> list[tuple[Module, ast.ClassDef]]:
        """Approximate linearisation: DFS, left to right, first occurrence, then object-last fixup
        for diamonds (sufficient for redun's single-inheritance-mostly hierarchy)."""
        order: list[tuple[Module, ast.ClassDef]] = []
        seen = set()

        def visit(m, c):
            if id(c) in seen:
                return
            seen.add(id(c))
            order.append((m, c))
            for bm, bc in self.bases(m, c):
                visit(bm, bc)

        visit(mod, cls)
        return order

    def resolve_method(self, mod: Module, cls: ast.ClassDef, name: str):
        """(module, owner class, FunctionDef) of the method `name` as seen on cls, or None."""
        for m, c in self.mro(mod, cls):
            for st in c.body:
                if isinstance(st, FuncNode) and st.name == name:
                    return m, c, st
        return None

    def class_attr(self, mod: Module, cls: ast.ClassDef, name: str) -> Optional[ast.AST]:
        """Class-level constant `name` through the MRO."""
        for m, c in self.mro(mod, cls):
            for st in c.body:
                if isinstance(st, ast.Assign):
                    for t in st.targets:
                        if isinstance(t, ast.Name) and t.id == name:
                            return st.value
                elif isinstance(st, ast.AnnAssign) and isinstance(st.target, ast.Name) and st.target.id == name:
                    return st.value
        return None

    def subclasses(self, target: ast.ClassDef, strict: bool = False) -> list[tuple[Module, ast.ClassDef]]:
        out = []
        for m in self.modules.values():
            for c in m.classes.values():
                if c is target and strict:
                    continue
                if any(cc is target for _, cc in self.mro(m, c)):
                    out.append((m, c))
        return out

    def all_calls(self, pred=None) -> Iterator[tuple[Module, ast.Call]]:
        for m in self.modules.values():
            for n in ast.walk(m.tree):
                if isinstance(n, ast.Call) and (pred is None or pred(n)):
                    yield m, n


def assigned_targets(stmt: ast.AST) -> list[ast.AST]:
    """Targets written by an assignment-like statement (flattened tuples)."""
    out: list[ast.AST] = []

    def flat(t):
        if isinstance(t, (ast.Tuple, ast.List)):
            for e in t.elts:
                flat(e)
        elif isinstance(t, ast.Starred):
            flat(t.value)
        else:
            out.append(t)

    if isinstance(stmt, ast.Assign):
        for t in stmt.targets:
            flat(t)
    elif isinstance(stmt, (ast.AugAssign, ast.AnnAssign)):
        flat(stmt.target)
    elif isinstance(stmt, (ast.For, ast.AsyncFor)):
        flat(stmt.target)
    elif isinstance(stmt, ast.NamedExpr):
        flat(stmt.target)
    return out


def stmt_of(mod: Module, node: ast.AST) -> ast.AST:
    """Smallest enclosing statement."""
    p = node
    while p is not None and not isinstance(p, ast.stmt):
        p = mod.parent.get(p)
    if p is None:
        raise AnalysisError("expression without statement")
    return p


def unconditionally_evaluated(root: ast.AST, target: ast.AST) -> bool:
    """Is `target` evaluated whenever `root` (a statement or expression containing it) is evaluated?
    False when it sits in a short-circuited operand (2nd+ operand of and/or), an IfExp branch, a lambda or a comprehension body/filter."""
    def walk(node) -> Optional[bool]:
        if node is target:
            return True
        if isinstance(node, ast.BoolOp):
            for i, v in enumerate(node.values):
                r = walk(v)
                if r is not None:
                    return r and i == 0
            return None
        if isinstance(node, ast.IfExp):
            r = walk(node.test)
            if r is not None:
                return r
            for b in (node.body, node.orelse):
                if walk(b) is not None:
                    return False
            return None
        if isinstance(node, ast.Lambda):
            return False if walk(node.body) is not None else None
        if isinstance(node, (ast.ListComp, ast.SetComp, ast.GeneratorExp, ast.DictComp)):
            for ch in ast.iter_child_nodes(node):
                if walk(ch) is not None:
                    first_iter = node.generators[0].iter
                    return any(x is target for x in ast.walk(first_iter))
            return None
        for ch in ast.iter_child_nodes(node):
            r = walk(ch)
            if r is not None:
                return r
        return None

    r = walk(root)
    return bool(r)
