"""Transitive effect summaries over the methods of one class (fixpoint over self.<m>() calls)."""

from __future__ import annotations

import ast
from typing import Callable

from .core import FuncNode, Module, Repo, call_name, calls_in, last_attr


def class_methods(cls: ast.ClassDef) -> dict[str, ast.AST]:
    return {st.name: st for st in cls.body if isinstance(st, FuncNode)}


def self_calls(fn: ast.AST) -> list[tuple[str, ast.Call]]:
    out = []
    for c in calls_in(fn):
        d = call_name(c) or ""
        if d.startswith("self.") and d.count(".") == 1:
            out.append((d[5:], c))
    return out


def transitive(cls: ast.ClassDef, direct: Callable[[ast.AST], bool]) -> dict[str, bool]:
    """method name -> has effect (directly, or through self.<m>() calls, to a fixpoint)."""
    ms = class_methods(cls)
    eff = {n: bool(direct(f)) for n, f in ms.items()}
    changed = True
    while changed:
        changed = False
        for n, f in ms.items():
            if eff[n]:
                continue
            for callee, _ in self_calls(f):
                if eff.get(callee):
                    eff[n] = True
                    changed = True
                    break
    return eff


def is_commit_call(c: ast.Call) -> bool:
    return last_attr(c) == "commit" and isinstance(c.func, ast.Attribute) and not c.args


def commits_directly(fn: ast.AST) -> bool:
    return any(is_commit_call(c) for c in calls_in(fn))


def commit_summary(cls: ast.ClassDef) -> dict[str, bool]:
    return transitive(cls, commits_directly)


def expr_commits(node: ast.AST, summary: dict[str, bool]) -> list[str]:
    """Commit points inside an AST fragment: direct .commit() or self.<m>() with a committing summary."""
    out = []
    for c in calls_in(node):
        if is_commit_call(c):
            out.append(f"{ast.unparse(c.func)}()")
        else:
            d = call_name(c) or ""
            if d.startswith("self.") and d.count(".") == 1 and summary.get(d[5:]):
                out.append(d + "()")
    return out
