"""Shared rules over redun/file.py used by C04 and C30: totality of hashing on a missing path."""

from __future__ import annotations

import ast

from .cfg import CFG, facts_at
from .core import AnalysisError, FuncNode, call_name, calls_in, const_str, kwarg, last_attr, src
from .raises import handler_names, is_subclass

FILE = "redun/file.py"

# calls that raise when the path does not exist (frozen table, one reason each)
MISSING_RAISES = {
    "stat": "os.stat / fs.stat raise FileNotFoundError",
    "head_object": "boto head_object raises ClientError(404)",
    "open": "open for reading raises FileNotFoundError",
    "getsize": "os.path.getsize raises",
    "getmtime": "os.path.getmtime raises",
    "info": "fsspec info raises FileNotFoundError",
}
CATCHES_MISSING = ("FileNotFoundError", "OSError", "IOError", "ClientError", "Exception", "BaseException", "RedunFileNotFoundError")


OS_LEVEL = {"stat", "getsize", "getmtime", "open"}
CATCHES_ANY_OSERROR = ("OSError", "IOError", "EnvironmentError", "Exception", "BaseException")


def _is_read_open(c: ast.Call) -> bool:
    if last_attr(c) != "open":
        return False
    mode = kwarg(c, "mode")
    if mode is None and len(c.args) >= 2:
        mode = c.args[1]
    m = const_str(mode) if mode is not None else "r"
    if m is None:
        return True
    return not (set(m) & set("wax+"))


def _guarded(mod, fn, cfg: CFG, c: ast.Call) -> bool:
    node = cfg.node_of(c)
    for fact, truth in facts_at(cfg, node):
        if truth and ("exists(" in fact or "isfile(" in fact):
            return True
    # enclosing try with a handler for the missing-path exception
    p = mod.parent.get(c)
    while p is not None and p is not fn:
        if isinstance(p, ast.Try):
            in_body = any(any(x is c for x in ast.walk(b)) for b in p.body)
            if in_body:
                for h in p.handlers:
                    names = handler_names(h)
                    if last_attr(c) in OS_LEVEL:
                        # a path is also absent when a parent is not a directory (ENOTDIR), a symlink loops (ELOOP) or a name is too long:
                        # os.path.exists() answers False for every OSError, so the try-form is as total only if it catches OSError
                        if any(n in CATCHES_ANY_OSERROR for n in names):
                            return True
                    elif any(n in CATCHES_MISSING for n in names):
                        return True
        p = mod.parent.get(p)
    return False


def missing_path_obligations(repo):
    """Yield (construct, ok, message, rel, line) for every call in a hash computation of a file value class or
    filesystem that raises on a missing path."""
    m = repo.mod(FILE)
    out = []
    # file value classes
    roots = [m.cls("File"), m.cls("FileSet")]
    seen_fn = set()
    nclasses = 0
    for root in roots:
        for cm, c in repo.subclasses(root):
            nclasses += 1
            res = repo.resolve_method(cm, c, "_calc_hash")
            if res is None:
                continue
            fm, owner, fn = res
            if id(fn) in seen_fn:
                out.append((f"{cm.rel}:{c.name}._calc_hash[{owner.name}]", True, "inherits a checked implementation", cm.rel, c.lineno))
                continue
            seen_fn.add(id(fn))
            cfg = CFG(fn)
            risky = [x for x in calls_in(fn) if (last_attr(x) in MISSING_RAISES and (last_attr(x) != "open" or _is_read_open(x)))]
            if not risky:
                out.append((f"{fm.rel}:{owner.name}._calc_hash", True, "no call that raises on a missing path", fm.rel, fn.lineno))
            for x in risky:
                ok = _guarded(fm, fn, cfg, x)
                out.append(
                    (
                        f"{fm.rel}:{owner.name}._calc_hash:{last_attr(x)}",
                        ok,
                        f"`{src(x)[:70]}` raises when the path is missing ({MISSING_RAISES[last_attr(x)]}) and is neither behind an exists() test nor inside a "
                        f"matching try/except: hashing / validity-checking a {owner.name} whose file was deleted raises instead of yielding a deterministic hash",
                        fm.rel,
                        x.lineno,
                    )
                )
    # filesystem get_hash siblings
    fsbase = m.cls("FileSystem")
    nfs = 0
    for cm, c in repo.subclasses(fsbase, strict=True):
        for st in c.body:
            if isinstance(st, FuncNode) and st.name == "get_hash":
                nfs += 1
                cfg = CFG(st)
                risky = [x for x in calls_in(st) if last_attr(x) in MISSING_RAISES and (last_attr(x) != "open" or _is_read_open(x))]
                if not risky:
                    out.append((f"{cm.rel}:{c.name}.get_hash", False, "sibling idiom not recognised: no stat-like call found", cm.rel, st.lineno))
                for x in risky:
                    ok = _guarded(cm, st, cfg, x)
                    out.append((f"{cm.rel}:{c.name}.get_hash:{last_attr(x)}", ok, f"`{src(x)[:60]}` is not guarded for a missing path (the sibling filesystems all guard it)", cm.rel, x.lineno))
    if nclasses < 9 or nfs < 4:
        raise AnalysisError(f"file hierarchy shrank: {nclasses} value classes, {nfs} filesystem get_hash implementations", "redun/file.py")
    return out


def walk_join_obligations(repo):
    """os.walk idiom: inside `for d, _, files in os.walk(top)`, a path built for an entry of `files` (or of the dirnames) must be joined to the
    walked directory `d`, not to `top` or anything else -- otherwise every entry below the first level is addressed at a path that does not
    exist (for file hashing: it silently gets the constant "missing file" hash, so rewriting a nested member never changes the Dir hash).
    Yields (construct, ok, message, rel, line)."""
    out = []
    for mod in repo.modules.values():
        for q, fn in mod.funcs.items():
            for loop in ast.walk(fn):
                if not (isinstance(loop, ast.For) and isinstance(loop.iter, ast.Call) and (call_name(loop.iter) or "").endswith("os.walk") and isinstance(loop.target, ast.Tuple) and len(loop.target.elts) == 3):
                    continue
                if mod.enclosing_func(loop) is not fn:
                    continue
                dvar = src(loop.target.elts[0])
                entry_lists = {src(loop.target.elts[1]), src(loop.target.elts[2])}
                # variables iterating over the entry lists
                entries = set()
                for n in ast.walk(loop):
                    if isinstance(n, (ast.For, ast.comprehension)) and src(n.iter) in entry_lists:
                        entries |= {x.id for x in ast.walk(n.target) if isinstance(x, ast.Name)}
                joins = [c for c in ast.walk(loop) if isinstance(c, ast.Call) and (call_name(c) or "").endswith("path.join") and len(c.args) >= 2 and any(isinstance(a, ast.Name) and a.id in entries for a in c.args[1:])]
                for c in joins:
                    ok = src(c.args[0]) == dvar
                    out.append(
                        (
                            f"{mod.rel}:{q}:os.walk-join",
                            ok,
                            f"`{src(c)}` joins an entry of os.walk({src(loop.iter.args[0]) if loop.iter.args else ''}) to `{src(c.args[0])}` instead of the walked directory `{dvar}`: entries below the first "
                            "level are addressed at paths that do not exist",
                            mod.rel,
                            c.lineno,
                        )
                    )
    return out


HASH_ENUM_OVERRIDES = {
    # class -> why its own enumeration covers everything Dir.__iter__ (a recursive glob) yields
    "S3FileSystem": "lists every object below the prefix (C30.7 bounds it to the directory); the S3 glob enumerates the same keys",
}


def dir_hash_enumeration_obligations(repo):
    """The base FileSystem.iter_file_hashes hashes `for file in Dir(path)`: the hashed member set is the iterated member set by construction.
    A subclass that enumerates on its own must cover at least what the recursive glob behind Dir.__iter__ yields; os.walk without
    followlinks=True does not (the glob follows symlinked sub-directories), so members listed by `for f in Dir(..)` would be left out of the hash
    and out of is_valid().  Yields (construct, ok, message, rel, line)."""
    from .core import AnalysisError, FuncNode

    out = []
    m = repo.mod("redun/file.py")
    base = m.func("FileSystem.iter_file_hashes")
    ok = any(isinstance(n, ast.For) and isinstance(n.iter, ast.Call) and call_name(n.iter) == "Dir" for n in ast.walk(base)) and any(isinstance(n, ast.Yield) and src(n.value).endswith(".hash") for n in ast.walk(base))
    out.append((f"{m.rel}:FileSystem.iter_file_hashes:iterates-Dir", ok, "the generic directory hash no longer hashes exactly the files that iterating the Dir yields", m.rel, base.lineno))
    for cm, c in repo.subclasses(m.cls("FileSystem")):
        if c.name == "FileSystem":
            continue
        ov = next((st for st in c.body if isinstance(st, FuncNode) and st.name == "iter_file_hashes"), None)
        if ov is None:
            out.append((f"{cm.rel}:{c.name}:iter_file_hashes:inherited", True, "", cm.rel, c.lineno))
            continue
        if c.name in HASH_ENUM_OVERRIDES:
            out.append((f"{cm.rel}:{c.name}:iter_file_hashes:override", True, "", cm.rel, ov.lineno))
            continue
        walks = [x for x in ast.walk(ov) if isinstance(x, ast.Call) and (call_name(x) or "").endswith("os.walk")]
        if walks:
            for w in walks:
                fl = next((k.value for k in w.keywords if k.arg == "followlinks"), None)
                follows = isinstance(fl, ast.Constant) and fl.value is True
                out.append(
                    (
                        f"{cm.rel}:{c.name}:iter_file_hashes:os.walk",
                        follows,
                        f"{c.name}.iter_file_hashes enumerates with `{src(w)}`, which does not descend into symlinked sub-directories, while Dir.__iter__ (recursive glob) does: "
                        "files under such a link are listed, copied and returned as members of the Dir but are not part of its hash, so deleting or rewriting one leaves the recorded hash equal "
                        "to the fresh one and a cached Dir result is replayed",
                        cm.rel,
                        w.lineno,
                    )
                )
            continue
        if any(isinstance(n, ast.For) and isinstance(n.iter, ast.Call) and call_name(n.iter) in ("Dir", "glob_file") for n in ast.walk(ov)):
            out.append((f"{cm.rel}:{c.name}:iter_file_hashes:override", True, "", cm.rel, ov.lineno))
            continue
        raise AnalysisError(f"{c.name}.iter_file_hashes enumerates directory members in a way this analysis does not know (not Dir(..)/glob_file, os.walk or a listed override)", f"{c.name}.iter_file_hashes")
    return out


def existence_gated_writes(mod, fn):
    """Calls `<F>.write(...)` / `<F>.open('w..')` in `fn` that are reached only when `<F>.exists()` is false (F = the same file object or the same
    path expression).  For files whose *name* is a digest of what the caller believes the content to be (value hash, eval hash) this is the bug
    pattern `already there => already right`: a partial file from an interrupted writer, or content produced for an earlier text under the same
    key, is taken for the value.  Returns [(call, guard text)]."""
    out = []
    cfg = CFG(fn)
    aliases = {}
    for a in ast.walk(fn):
        if isinstance(a, ast.Assign) and len(a.targets) == 1 and isinstance(a.targets[0], ast.Name) and isinstance(a.value, ast.Call) and call_name(a.value) in ("File", "BaseFile") and a.value.args:
            aliases[a.targets[0].id] = src(a.value.args[0])
    def key(e):
        t = src(e)
        if isinstance(e, ast.Name) and e.id in aliases:
            return aliases[e.id]
        if isinstance(e, ast.Call) and call_name(e) in ("File", "BaseFile") and e.args:
            return src(e.args[0])
        return t
    for c in calls_in(fn, shallow=True):
        if not (isinstance(c.func, ast.Attribute) and c.func.attr in ("write", "open")):
            continue
        if c.func.attr == "open" and not any(isinstance(a, ast.Constant) and isinstance(a.value, str) and "w" in a.value for a in list(c.args) + [k.value for k in c.keywords]):
            continue
        k = key(c.func.value)
        for f, t in facts_at(cfg, cfg.node_of(c)):
            if t or not f.endswith(".exists()"):
                continue
            try:
                fe = ast.parse(f, mode="eval").body
            except SyntaxError:
                continue
            if isinstance(fe, ast.Call) and isinstance(fe.func, ast.Attribute) and key(fe.func.value) == k:
                out.append((c, f))
    return out
