"""Lossy-use detection: how does an identity field travel from `self.<field>` to the place where it is hashed?

A field may be wrapped in containers and handed to encoders (hash functions, picklers, the type registry) -- those are injective on the value.
Anything else between the attribute load and the enclosing statement is reported: a table lookup (`T.get(self.f, self.f)`, `T[self.f]`), a string
method that maps several inputs to one output, a slice, and -- for mapping-valued fields -- the wrappers that iterate a dict and so keep only its
keys (`sorted(d)`, `list(d)`, `set(d)`, `tuple(d)`, `len(d)`, `d.keys()`)."""

from __future__ import annotations

import ast

from .core import call_name, last_attr, src

ENCODERS = {"hash_struct", "hash_bytes", "hash_tag_bytes", "pickle_dumps", "get_hash", "hash_arguments", "hash_positional_args", "hash_kwargs", "hash_eval", "hash_stream", "encode"}
KEYS_ONLY = {"sorted", "list", "set", "tuple", "frozenset", "len"}
NON_INJECTIVE_METHODS = {"get", "lower", "upper", "strip", "lstrip", "rstrip", "split", "rsplit", "casefold", "title", "partition", "replace", "pop", "setdefault"}


def lossy_uses(mod, fn, field: str, mapping_valued: bool = True) -> list[tuple[int, str]]:
    """(line, description) for every use of self.<field> in fn that reaches its statement through a value-losing operation."""
    out = []
    for node in ast.walk(fn):
        if not (isinstance(node, ast.Attribute) and node.attr == field and isinstance(node.value, ast.Name) and node.value.id == "self" and isinstance(node.ctx, ast.Load)):
            continue
        child = node
        p = mod.parent.get(node)
        while p is not None and not isinstance(p, ast.stmt):
            if isinstance(p, ast.Call):
                cn = (call_name(p) or "").split(".")[-1]
                if child in p.args or any(k.value is child for k in p.keywords):
                    if isinstance(p.func, ast.Name) and p.func.id in KEYS_ONLY and mapping_valued and child is node:
                        out.append((p.lineno, f"`{src(p)[:60]}` iterates the mapping and keeps only its keys"))
                    elif isinstance(p.func, ast.Attribute) and p.func.attr in NON_INJECTIVE_METHODS:
                        out.append((p.lineno, f"`{src(p)[:60]}` maps the value through `{p.func.attr}` (several inputs can give one output)"))
                    elif cn in ENCODERS or (isinstance(p.func, ast.Name) and p.func.id in KEYS_ONLY):
                        pass
                    # other calls: unknown helpers are examined by the caller through the helper's own body
                elif child is p.func:
                    pass
                elif isinstance(p.func, ast.Attribute) and p.func.value is child and p.func.attr in NON_INJECTIVE_METHODS:
                    out.append((p.lineno, f"`{src(p)[:60]}` maps the value through `{p.func.attr}`"))
            elif isinstance(p, ast.Attribute) and p.value is child:
                if p.attr == "keys" and mapping_valued:
                    out.append((p.lineno, f"`{src(p)}` keeps only the keys"))
                elif p.attr in NON_INJECTIVE_METHODS:
                    gp = mod.parent.get(p)
                    if isinstance(gp, ast.Call) and gp.func is p:
                        out.append((gp.lineno, f"`{src(gp)[:60]}` maps the value through `{p.attr}` (several inputs can give one output)"))
            elif isinstance(p, ast.Subscript):
                if p.slice is child or any(x is child for x in ast.walk(p.slice)):
                    out.append((p.lineno, f"`{src(p)[:60]}` uses the value as a table index"))
                elif p.value is child and isinstance(p.slice, ast.Slice):
                    out.append((p.lineno, f"`{src(p)[:60]}` keeps only a slice of the value"))
            child = p
            p = mod.parent.get(p)
    # de-duplicate
    seen, res = set(), []
    for x in out:
        if x not in seen:
            seen.add(x)
            res.append(x)
    return res
