"""Lossy-use detection: how does an identity field travel from `self.<field>` to the place where it is hashed?

A field may be wrapped in containers and handed to encoders (hash functions, picklers, the type registry) -- those are injective on the value.
Anything else between the attribute load and the enclosing statement is reported: a table lookup (`T.get(self.f, self.f)`, `T[self.f]`), a string
method that maps several inputs to one output, a slice, and -- for mapping-valued fields -- the wrappers that iterate a dict and so keep only its
keys (`sorted(d)`, `list(d)`, `set(d)`, `tuple(d)`, `len(d)`, `d.keys()`)."""

from __future__ import annotations

import ast

from .core import call_name, last_attr, src

ENCODERS = {"hash_struct", "hash_bytes", "hash_tag_bytes", "pickle_dumps", "get_hash", "hash_arguments", "hash_positional_args", "hash_kwargs", "hash_eval", "hash_stream", "encode"}
KEYS_ONLY = {"sorted", "list", "set", "tuple", "frozenset", "len"}
NON_INJECTIVE_METHODS = {"get", "lower", "upper", "strip", "lstrip", "rstrip", "split", "rsplit", "casefold", "title", "partition", "replace", "pop", "setdefault"}


def lossy_uses(mod, fn, field: str, mapping_valued: bool = True) -> list[tuple[int, str]]:
    """(line, description) for every use of self.<field> in fn that reaches its statement through a value-losing operation."""
    out = []
    for node in ast.walk(fn):
        if not (isinstance(node, ast.Attribute) and node.attr == field and isinstance(node.value, ast.Name) and node.value.id == "self" and isinstance(node.ctx, ast.Load)):
            continue
        child = node
        p = mod.parent.get(node)
        while p is not None and not isinstance(p, ast.stmt):
            if isinstance(p, ast.Call):
                cn = (call_name(p) or "").split(".")[-1]
                if child in p.args or any(k.value is child for k in p.keywords):
                    if isinstance(p.func, ast.Name) and p.func.id in KEYS_ONLY and mapping_valued and child is node:
                        out.append((p.lineno, f"`{src(p)[:60]}` iterates the mapping and keeps only its keys"))
                    elif isinstance(p.func, ast.Attribute) and p.func.attr in NON_INJECTIVE_METHODS:
                        out.append((p.lineno, f"`{src(p)[:60]}` maps the value through `{p.func.attr}` (several inputs can give one output)"))
                    elif cn in ENCODERS or (isinstance(p.func, ast.Name) and p.func.id in KEYS_ONLY):
                        pass
                    # other calls: unknown helpers are examined by the caller through the helper's own body
                elif child is p.func:
                    pass
                elif isinstance(p.func, ast.Attribute) and p.func.value is child and p.func.attr in NON_INJECTIVE_METHODS:
                    out.append((p.lineno, f"`{src(p)[:60]}` maps the value through `{p.func.attr}`"))
            elif isinstance(p, ast.Attribute) and p.value is child:
                if p.attr == "keys" and mapping_valued:
                    out.append((p.lineno, f"`{src(p)}` keeps only the keys"))
                elif p.attr in NON_INJECTIVE_METHODS:
                    gp = mod.parent.get(p)
                    if isinstance(gp, ast.Call) and gp.func is p:
                        out.append((gp.lineno, f"`{src(gp)[:60]}` maps the value through `{p.attr}` (several inputs can give one output)"))
            elif isinstance(p, ast.Subscript):
                if p.slice is child or any(x is child for x in ast.walk(p.slice)):
                    out.append((p.lineno, f"`{src(p)[:60]}` uses the value as a table index"))
                elif p.value is child and isinstance(p.slice, ast.Slice):
                    out.append((p.lineno, f"`{src(p)[:60]}` keeps only a slice of the value"))
            child = p
            p = mod.parent.get(p)
    # de-duplicate
    seen, res = set(), []
    for x in out:
        if x not in seen:
            seen.add(x)
            res.append(x)
    return res


def merge_purity_obligations(repo, rel="redun/utils.py", entry="merge_dicts"):
    """merge_dicts is used on option/context dicts that are shared by reference between a Task, its clones and every expression created from them:
    it must not write into its inputs.  Within the entry function and the module-level helpers it calls: an in-place mutation (subscript store,
    append/update/setdefault/pop/...) is fine on a container created in that function; a helper that mutates one of its parameters may only be
    handed a container the caller created itself -- handing it `target[key]` (something previously stored from an input) mutates the input.
    Yields (construct, ok, message, rel, line)."""
    from .core import FuncNode

    m = repo.mod(rel)
    MUT = {"append", "update", "setdefault", "pop", "popitem", "clear", "extend", "insert", "remove", "__setitem__"}
    todo, seen = [entry], set()
    summaries = {}
    out = []
    while todo:
        name = todo.pop()
        if name in seen or name not in m.funcs:
            continue
        seen.add(name)
        fn = m.funcs[name]
        params = [a.arg for a in fn.args.args]
        fresh = set()
        for a in ast.walk(fn):
            if isinstance(a, (ast.Assign, ast.AnnAssign)) and a.value is not None:
                tg = a.targets[0] if isinstance(a, ast.Assign) else a.target
                v = a.value
                is_fresh = isinstance(v, (ast.Dict, ast.List, ast.Set, ast.DictComp, ast.ListComp, ast.SetComp)) or (isinstance(v, ast.Call) and (call_name(v) or "") in ("dict", "list", "set", "defaultdict", "collections.defaultdict", "OrderedDict"))
                if isinstance(tg, ast.Name) and is_fresh:
                    fresh.add(tg.id)

        def root(e):
            while isinstance(e, (ast.Subscript, ast.Attribute, ast.Call)):
                e = e.value if isinstance(e, (ast.Subscript, ast.Attribute)) else e.func
            return e.id if isinstance(e, ast.Name) else None

        mutated_params = set()
        for n in ast.walk(fn):
            tgt = None
            if isinstance(n, (ast.Assign, ast.AugAssign)):
                for t in n.targets if isinstance(n, ast.Assign) else [n.target]:
                    if isinstance(t, ast.Subscript):
                        tgt = t.value
            elif isinstance(n, ast.Call) and isinstance(n.func, ast.Attribute) and n.func.attr in MUT:
                tgt = n.func.value
            elif isinstance(n, ast.Delete):
                for t in n.targets:
                    if isinstance(t, ast.Subscript):
                        tgt = t.value
            if tgt is None:
                continue
            r = root(tgt)
            if r in fresh:
                continue
            if r in params:
                mutated_params.add(params.index(r))
                if name == entry:
                    out.append((f"{rel}:{name}:mutates-input", False, f"`{src(n)[:60]}` writes into the argument `{r}` of {name}", rel, n.lineno))
                continue
            out.append((f"{rel}:{name}:mutates:{r}", False, f"`{src(n)[:60]}` in {name} mutates `{r}`, which is neither created in {name} nor one of its parameters", rel, n.lineno))
        summaries[name] = mutated_params
        for c in ast.walk(fn):
            if isinstance(c, ast.Call) and isinstance(c.func, ast.Name) and c.func.id in m.funcs and c.func.id != name:
                todo.append(c.func.id)
    # call sites of parameter-mutating helpers
    for name in seen:
        fn = m.funcs[name]
        fresh = {t.id for a in ast.walk(fn) if isinstance(a, (ast.Assign, ast.AnnAssign)) and a.value is not None for t in [a.targets[0] if isinstance(a, ast.Assign) else a.target] if isinstance(t, ast.Name) and (isinstance(a.value, (ast.Dict, ast.DictComp)) or (isinstance(a.value, ast.Call) and (call_name(a.value) or "") in ("dict", "defaultdict")))}
        for c in ast.walk(fn):
            if isinstance(c, ast.Call) and isinstance(c.func, ast.Name) and summaries.get(c.func.id):
                for i in summaries[c.func.id]:
                    if i < len(c.args):
                        a = c.args[i]
                        ok = isinstance(a, ast.Name) and a.id in fresh
                        out.append(
                            (
                                f"{rel}:{name}:{c.func.id}({src(a)[:30]})",
                                ok,
                                f"{name} hands `{src(a)}` to {c.func.id}(), which writes into that argument; `{src(a)}` is not a container created in {name} -- it can be a nested dict that was stored by reference from "
                                f"one of {entry}'s inputs, so merging rewrites the caller's dict: Task.update_context() on a derived task then changes the options (and the hash) of the original task and of every "
                                "expression already created from it, and a parent job's context picks up its child's override",
                                rel,
                                c.lineno,
                            )
                        )
    if not out:
        out.append((f"{rel}:{entry}:pure", True, "", rel, m.funcs[entry].lineno))
    return out


def hash_purity_obligations(repo, rels=("redun/value.py", "redun/task.py", "redun/expression.py", "redun/file.py", "redun/hashing.py")):
    """A value's hash is a function of the value (its serialisation) alone.  A get_hash/_calc_hash/hash_* that reads a module-level mutable
    container (a memo dict) makes the hash depend on what else was hashed in the process: a memo keyed by the instance equates values that are
    `==` but not identical in type (1 and 1.0, 0 and -0.0, True and 1), one keyed by anything coarser than the serialisation equates more.
    Yields (construct, ok, message, rel, line)."""
    out = []
    for rel in rels:
        mod = repo.mod(rel)
        mutable_globals = {}
        for st in mod.tree.body:
            tg, v = None, None
            if isinstance(st, ast.Assign) and len(st.targets) == 1 and isinstance(st.targets[0], ast.Name):
                tg, v = st.targets[0].id, st.value
            elif isinstance(st, ast.AnnAssign) and isinstance(st.target, ast.Name) and st.value is not None:
                tg, v = st.target.id, st.value
            if tg is None:
                continue
            if isinstance(v, (ast.Dict, ast.List, ast.Set)) or (isinstance(v, ast.Call) and (call_name(v) or "").split(".")[-1] in ("dict", "list", "set", "defaultdict", "OrderedDict", "WeakValueDictionary", "WeakKeyDictionary")):
                mutable_globals[tg] = st.lineno
        for q, fn in mod.funcs.items():
            leaf = q.split(".")[-1]
            if leaf not in ("get_hash", "_calc_hash") and not leaf.startswith("hash_"):
                continue
            # only reads that can influence the result: subscripts / .get() / membership tests on the global
            used = []
            for n in ast.walk(fn):
                if isinstance(n, ast.Name) and n.id in mutable_globals and isinstance(n.ctx, ast.Load):
                    par = mod.parent.get(n)
                    writes_only = isinstance(par, ast.Subscript) and isinstance(par.ctx, ast.Store)
                    if not writes_only:
                        used.append(n)
            out.append(
                (
                    f"{rel}:{q}:reads-module-state",
                    not used,
                    f"{q} reads the module-level container `{used[0].id if used else ''}` (line {used[0].lineno if used else 0}): a hash served from a memo depends on what was hashed before in this process -- "
                    "keyed by the value itself it gives 1 and 1.0 (equal, same Python hash) one hash, so f(1) and f(1.0) become the same expression and are merged",
                    rel,
                    used[0].lineno if used else fn.lineno,
                )
            )
    return out


MEMO_DECORATORS = ("lru_cache", "cache", "lru_cache_custom", "memoize", "cached")


def memoised_callee_obligations(repo, rels, is_root, depth=3):
    """A function whose result must depend on its argument's exact value (type included) must not be served from a memo keyed by `==`/hash():
    functools.lru_cache and friends equate 1, 1.0 and True (and 0.0 with -0.0).  For every root function (selected by `is_root(leaf_name)`) in the
    given modules, the root and its same-module callees (by plain name or self-method, up to `depth` levels) carry no memoising decorator.
    Yields (construct, ok, message, rel, line)."""
    from .core import calls_in, decorators

    out = []
    for rel in rels:
        mod = repo.mod(rel)
        by_leaf = {}
        for q, fn in mod.funcs.items():
            by_leaf.setdefault(q.split(".")[-1], []).append((q, fn))
        for q, fn in mod.funcs.items():
            leaf = q.split(".")[-1]
            if not is_root(leaf):
                continue
            seen = {q}
            frontier = [(q, fn)]
            memo = None
            for _ in range(depth + 1):
                nxt = []
                for qq, f in frontier:
                    ds = [d.split(".")[-1] for d in decorators(f)]
                    hit = [d for d in ds if d in MEMO_DECORATORS]
                    if hit and memo is None:
                        memo = (qq, hit[0], f.lineno)
                    for c in calls_in(f):
                        nm = call_name(c) or ""
                        if "." in nm and not nm.startswith("self.") and not nm.startswith("cls."):
                            continue
                        for q2, f2 in by_leaf.get(nm.split(".")[-1], []):
                            if q2 not in seen:
                                seen.add(q2)
                                nxt.append((q2, f2))
                frontier = nxt
            out.append(
                (
                    f"{rel}:{q}:memoised",
                    memo is None,
                    (f"{q} is served through `{memo[0]}`, which is decorated with @{memo[1]} (line {memo[2]}): the memo is keyed by ==/hash(), so arguments that are equal but of "
                     "different type (1, 1.0, True; 0.0, -0.0) share one entry and whichever was seen first in the process decides the result for the others") if memo else "",
                    rel,
                    memo[2] if memo else fn.lineno,
                )
            )
    return out
