"""Reference-directed inlining of *new private helpers*.

"Extract method" is the most common behaviour-preserving refactoring, and the rules of this checker look at the statements of the
functions they were calibrated on.  Before the per-function normalisation this pass undoes extractions: a private function or method
that does not exist in the reference snapshot (sa/reference/names.json.gz) and is called from the same module is spliced back into
its callers, when its body has a shape for which splicing is exactly behaviour-preserving:

  * expression helper: the body is a single `return <expr>`; the call is replaced by <expr> wherever it occurs;
  * statement helper: every `return` can be brought into tail position by nesting the remainder of a block under the `else` of a guard
    (no `return` inside loops / try); the call occurs as an expression statement, as the whole right-hand side of an assignment, as the
    operand of `return`, or as the (possibly negated) test of an `if` whose body the caller executes for a constant-boolean result.

Parameters are substituted by the argument expressions when those are side-effect-free references (names, attribute chains, constants,
subscripts of those); otherwise the argument is bound to the parameter name first.  A helper whose every call site in the module was inlined
is removed from the tree, so that who-may rules see its statements only where they execute.  Anything that does not fit is left alone
(the rules then see the helper as what it is -- an unknown callee)."""

from __future__ import annotations

import ast
import copy
from typing import Optional

FuncNode = (ast.FunctionDef, ast.AsyncFunctionDef)


def _body_wo_doc(fn) -> list:
    b = list(fn.body)
    if b and isinstance(b[0], ast.Expr) and isinstance(b[0].value, ast.Constant) and isinstance(b[0].value.value, str):
        b = b[1:]
    return b


def _simple_ref(e) -> bool:
    if isinstance(e, (ast.Name, ast.Constant)):
        return True
    if isinstance(e, ast.Attribute):
        return _simple_ref(e.value)
    if isinstance(e, ast.Subscript):
        return _simple_ref(e.value) and _simple_ref(e.slice)
    if isinstance(e, ast.Tuple):
        return all(_simple_ref(x) for x in e.elts)
    return False


def _contains_return(node) -> bool:
    """A `return` of the function `node` belongs to (not of a function nested in it)."""
    if isinstance(node, FuncNode + (ast.Lambda, ast.ClassDef)):
        return False
    if isinstance(node, ast.Return):
        return True
    return any(_contains_return(ch) for ch in ast.iter_child_nodes(node))


def _tailify(stmts: list) -> Optional[list]:
    """Rewrite so that every Return is in tail position (of nested if / with blocks); None if impossible."""
    out = []
    for i, st in enumerate(stmts):
        if isinstance(st, ast.Return):
            return out + [st]
        if isinstance(st, ast.ClassDef):
            return None
        if not _contains_return(st):
            out.append(st)
            continue
        rest = stmts[i + 1 :]
        if isinstance(st, ast.If):
            body = _tailify(list(st.body) + copy.deepcopy(rest))
            orelse = _tailify(list(st.orelse) + rest)
            if body is None or orelse is None:
                return None
            new = ast.If(test=st.test, body=body or [ast.Pass()], orelse=orelse)
            return out + [ast.copy_location(new, st)]
        if isinstance(st, (ast.With, ast.AsyncWith)) and not rest:
            body = _tailify(list(st.body))
            if body is None:
                return None
            new = copy.copy(st)
            new.body = body
            return out + [new]
        if isinstance(st, ast.Try) and not rest and not st.finalbody and not st.orelse:
            # `return E` inside a try body / handler at the end of the helper: E is evaluated under the same handlers after splicing
            body = _tailify(list(st.body))
            hs = []
            for h in st.handlers:
                hb = _tailify(list(h.body))
                if hb is None:
                    return None
                h2 = copy.copy(h)
                h2.body = hb
                hs.append(h2)
            if body is None:
                return None
            new = copy.copy(st)
            new.body, new.handlers = body, hs
            return out + [new]
        return None
    return out


def _replace_tail(stmts: list, on_return) -> list:
    """Apply on_return(Return) -> list[stmt] to the Returns in tail position; a block without a tail Return falls through."""
    if not stmts:
        return stmts
    last = stmts[-1]
    if isinstance(last, ast.Return):
        return stmts[:-1] + on_return(last)
    if isinstance(last, ast.If):
        new = copy.copy(last)
        new.body = _replace_tail(list(last.body), on_return) or [ast.Pass()]
        new.orelse = _replace_tail(list(last.orelse), on_return)
        return stmts[:-1] + [new]
    if isinstance(last, (ast.With, ast.AsyncWith)):
        new = copy.copy(last)
        new.body = _replace_tail(list(last.body), on_return) or [ast.Pass()]
        return stmts[:-1] + [new]
    if isinstance(last, ast.Try) and not last.finalbody and not last.orelse:
        new = copy.copy(last)
        new.body = _replace_tail(list(last.body), on_return) or [ast.Pass()]
        hs = []
        for h in last.handlers:
            h2 = copy.copy(h)
            h2.body = _replace_tail(list(h.body), on_return) or [ast.Pass()]
            hs.append(h2)
        new.handlers = hs
        return stmts[:-1] + [new]
    return stmts


class _Subst(ast.NodeTransformer):
    def __init__(self, mp):
        self.mp = mp

    def visit_Name(self, n):
        if n.id in self.mp and isinstance(n.ctx, ast.Load):
            return copy.deepcopy(self.mp[n.id])
        return n


def _bind(helper, call, is_method: bool, is_static: bool):
    """-> (substitution map, prelude assignments) or None."""
    a = helper.args
    if a.vararg or a.kwarg or a.posonlyargs:
        return None
    params = [p.arg for p in a.args]
    args = list(call.args)
    if any(isinstance(x, ast.Starred) for x in args) or any(k.arg is None for k in call.keywords):
        return None
    mp = {}
    if is_method and not is_static:
        if not params:
            return None
        recv = call.func.value if isinstance(call.func, ast.Attribute) else None
        if recv is None:
            return None
        mp[params[0]] = recv
        params = params[1:]
    if len(args) > len(params):
        return None
    for p, v in zip(params, args):
        mp[p] = v
    kw = {k.arg: k.value for k in call.keywords}
    defaults = dict(zip([p.arg for p in a.args][len(a.args) - len(a.defaults) :], a.defaults))
    for p in params[len(args) :]:
        if p in kw:
            mp[p] = kw.pop(p)
        elif p in defaults:
            mp[p] = defaults[p]
        else:
            return None
    for ko, d in zip(a.kwonlyargs, a.kw_defaults):
        if ko.arg in kw:
            mp[ko.arg] = kw.pop(ko.arg)
        elif d is not None:
            mp[ko.arg] = d
        else:
            return None
    if kw:
        return None
    # parameters that are rebound in the helper, or whose argument is not a plain reference, are bound by an assignment first
    stored = {n.id for n in ast.walk(helper) if isinstance(n, ast.Name) and isinstance(n.ctx, (ast.Store, ast.Del))}
    nloads: dict = {}
    for n in ast.walk(helper):
        if isinstance(n, ast.Name) and isinstance(n.ctx, ast.Load):
            nloads[n.id] = nloads.get(n.id, 0) + 1
    body = _body_wo_doc(helper)
    single_expr = len(body) == 1 and isinstance(body[0], ast.Return)
    prelude = []
    for p, v in list(mp.items()):
        if isinstance(v, ast.Name) and v.id == p:
            del mp[p]
            continue
        # an argument with effects may take the place of its parameter when the helper is one expression that reads the parameter once
        # (the only other things evaluated in that expression before it are reads of the remaining -- effect-free -- arguments)
        if single_expr and p not in stored and nloads.get(p, 0) == 1 and not _simple_ref(v) and all(_simple_ref(o) for q, o in mp.items() if q != p):
            continue
        if p in stored or not _simple_ref(v):
            prelude.append(ast.Assign(targets=[ast.Name(id=p, ctx=ast.Store())], value=copy.deepcopy(v), lineno=call.lineno))
            del mp[p]
    return mp, prelude


def _set_loc(nodes, at):
    for st in nodes:
        for n in ast.walk(st):
            if hasattr(n, "lineno") or isinstance(n, (ast.stmt, ast.expr)):
                n.lineno = getattr(at, "lineno", 1)
                n.end_lineno = getattr(at, "end_lineno", n.lineno)
                n.col_offset = getattr(at, "col_offset", 0)
                n.end_col_offset = getattr(at, "end_col_offset", 0)
    return nodes


def _is_call_of(e, owner: Optional[str], name: str) -> bool:
    if not isinstance(e, ast.Call):
        return False
    f = e.func
    if owner is None:
        return isinstance(f, ast.Name) and f.id == name
    return isinstance(f, ast.Attribute) and f.attr == name and isinstance(f.value, ast.Name) and f.value.id in ("self", "cls", owner)


def _inline_into_block(stmts: list, owner, name, helper, is_static) -> tuple[list, int]:
    """Splice statement-position calls of the helper in `stmts` (recursively in nested blocks)."""
    is_method = owner is not None
    n_inl = 0
    out = []
    body0 = _body_wo_doc(helper)
    for st in stmts:
        # recurse into nested blocks first
        for fld in ("body", "orelse", "finalbody"):
            blk = getattr(st, fld, None)
            if isinstance(blk, list) and blk and isinstance(blk[0], ast.stmt) and not isinstance(st, FuncNode + (ast.ClassDef,)):
                nb, k = _inline_into_block(blk, owner, name, helper, is_static)
                setattr(st, fld, nb)
                n_inl += k
        if isinstance(st, ast.Try):
            for h in st.handlers:
                h.body, k = _inline_into_block(h.body, owner, name, helper, is_static)
                n_inl += k
        # a call buried in a simple statement (an argument of another call, ...) is hoisted into a temporary first, when nothing with an effect
        # is evaluated before it in that statement
        if isinstance(st, (ast.Assign, ast.Expr, ast.Return, ast.AugAssign, ast.AnnAssign)) and not any(
            _is_call_of(top, owner, name) for top in [getattr(st, "value", None)]
        ):
            inner = [c for c in ast.walk(st) if _is_call_of(c, owner, name)]
            if len(inner) == 1 and _hoistable(st, inner[0]):
                rb = _body_wo_doc(helper)
                tmp = rb[-1].value.id if rb and isinstance(rb[-1], ast.Return) and isinstance(rb[-1].value, ast.Name) else f"_{name.strip('_')}_result"
                used = {n.id for n in ast.walk(st) if isinstance(n, ast.Name)}
                if tmp not in used:
                    call0 = inner[0]

                    class Hoist(ast.NodeTransformer):
                        def visit_Call(self, c):
                            if c is call0:
                                return ast.copy_location(ast.Name(id=tmp, ctx=ast.Load()), c)
                            self.generic_visit(c)
                            return c

                    pre = ast.copy_location(ast.Assign(targets=[ast.Name(id=tmp, ctx=ast.Store())], value=call0), st)
                    st2 = Hoist().visit(st)
                    ast.fix_missing_locations(pre)
                    nb, k = _inline_into_block([pre], owner, name, helper, is_static)
                    if k:
                        out.extend(nb)
                        out.append(st2)
                        n_inl += k
                        continue
                    # not inlinable after all: put the call back
                    class Unhoist(ast.NodeTransformer):
                        def visit_Name(self, x):
                            return call0 if x.id == tmp and isinstance(x.ctx, ast.Load) else x

                    st = Unhoist().visit(st2)
        call = None
        kind = None
        if isinstance(st, ast.Expr) and _is_call_of(st.value, owner, name):
            call, kind = st.value, "expr"
        elif isinstance(st, ast.Assign) and _is_call_of(st.value, owner, name):
            call, kind = st.value, "assign"
        elif isinstance(st, ast.Return) and st.value is not None and _is_call_of(st.value, owner, name):
            call, kind = st.value, "return"
        elif isinstance(st, ast.If) and not st.orelse:
            t = st.test
            if _is_call_of(t, owner, name):
                call, kind = t, "if"
            elif isinstance(t, ast.UnaryOp) and isinstance(t.op, ast.Not) and _is_call_of(t.operand, owner, name):
                call, kind = t.operand, "ifnot"
        if call is None:
            out.append(st)
            continue
        b = _bind(helper, call, is_method, is_static)
        tail = _tailify(copy.deepcopy(body0))
        if b is None or tail is None:
            out.append(st)
            continue
        mp, prelude = b
        if any(isinstance(n, FuncNode) for x in body0 for n in ast.walk(x)) and any(not (isinstance(v, ast.Name) and v.id == p) for p, v in mp.items()):
            # closures in the helper: splice only when every parameter keeps its name (no substitution inside nested scopes)
            out.append(st)
            continue
        tail = [_Subst(mp).visit(x) for x in tail]
        ok = True
        if kind == "expr":
            new = _replace_tail(tail, lambda r: ([ast.Expr(value=r.value)] if r.value is not None and any(isinstance(c, ast.Call) for c in ast.walk(r.value)) else []))
        elif kind == "assign":
            tg = st.targets
            new = _replace_tail(tail, lambda r: [ast.Assign(targets=copy.deepcopy(tg), value=r.value if r.value is not None else ast.Constant(value=None), lineno=st.lineno)])
            # a block that falls through without return yields None
            if not _all_paths_return(tail):
                ok = False
        elif kind == "return":
            new = tail
            if not _all_paths_return(tail):
                ok = False
        else:
            want = kind == "if"  # the caller's body runs when the helper returns `want`
            state = {"ok": True}

            def on_ret(r, _want=want, _st=st, _state=state):
                if isinstance(r.value, ast.Constant) and isinstance(r.value.value, bool):
                    return copy.deepcopy(_st.body) if r.value.value is _want else []
                _state["ok"] = False
                return [r]

            new = _replace_tail(tail, on_ret)
            ok = state["ok"] and _all_paths_return(tail)
            # falling through after the caller's body must not happen when the helper continues: require the caller's body to leave
            if ok and not isinstance(st.body[-1], (ast.Return, ast.Raise, ast.Continue, ast.Break)):
                ok = False
        if not ok:
            out.append(st)
            continue
        block = prelude + (new or [ast.Pass()])
        out.extend(_set_loc(block, st))
        n_inl += 1
    return out, n_inl


def _hoistable(st, call) -> bool:
    """No call other than the ancestors of `call` starts before it in `st`, and `call` is not under a lambda / comprehension / boolean operator /
    conditional expression (where it might not be evaluated, or be evaluated repeatedly)."""
    path = []

    def find(n, acc):
        if n is call:
            path.extend(acc)
            return True
        return any(find(ch, acc + [n]) for ch in ast.iter_child_nodes(n))

    if not find(st, []):
        return False
    if any(isinstance(a, (ast.Lambda, ast.ListComp, ast.SetComp, ast.DictComp, ast.GeneratorExp, ast.BoolOp, ast.IfExp)) for a in path):
        return False
    pos = (call.lineno, call.col_offset)
    for n in ast.walk(st):
        if isinstance(n, ast.Call) and n is not call and n not in path and not any(y is n for y in ast.walk(call)):
            if (n.lineno, n.col_offset) < pos:
                return False
    # targets of an assignment with effects (subscripts with calls) are evaluated after the value: fine
    return True


def _all_paths_return(stmts: list) -> bool:
    if not stmts:
        return False
    last = stmts[-1]
    if isinstance(last, (ast.Return, ast.Raise)):
        return True
    if isinstance(last, ast.If):
        return bool(last.orelse) and _all_paths_return(list(last.body)) and _all_paths_return(list(last.orelse))
    if isinstance(last, (ast.With, ast.AsyncWith)):
        return _all_paths_return(list(last.body))
    if isinstance(last, ast.Try) and not last.finalbody and not last.orelse:
        return _all_paths_return(list(last.body)) and all(_all_paths_return(list(h.body)) for h in last.handlers)
    return False


class _ExprInline(ast.NodeTransformer):
    def __init__(self, owner, name, helper, is_static):
        self.owner, self.name, self.helper, self.is_static = owner, name, helper, is_static
        self.n = 0

    def visit_Call(self, c):
        self.generic_visit(c)
        if _is_call_of(c, self.owner, self.name):
            b = _bind(self.helper, c, self.owner is not None, self.is_static)
            if b is not None and not b[1]:
                expr = copy.deepcopy(_body_wo_doc(self.helper)[0].value)
                new = _Subst(b[0]).visit(expr)
                self.n += 1
                return _set_loc([ast.Expr(value=new)], c)[0].value
        return c


def _literal(e) -> bool:
    if isinstance(e, ast.Constant):
        return True
    if isinstance(e, ast.UnaryOp) and isinstance(e.op, (ast.USub, ast.UAdd)) and isinstance(e.operand, ast.Constant):
        return True
    if isinstance(e, (ast.Tuple, ast.Set)):
        return all(_literal(x) for x in e.elts)
    if isinstance(e, ast.Call) and isinstance(e.func, ast.Name) and e.func.id in ("frozenset", "set", "tuple") and len(e.args) == 1 and not e.keywords:
        return isinstance(e.args[0], (ast.Tuple, ast.Set, ast.List, ast.Constant)) and (isinstance(e.args[0], ast.Constant) or all(_literal(x) for x in e.args[0].elts))
    return False


def propagate_new_constants(tree: ast.Module, ref_tree: ast.Module) -> int:
    """"Replace a repeated literal by a module constant", undone: a module-level name that the reference does not have, bound once to an
    immutable literal, is replaced by that literal where it is read inside functions."""
    def top_names(t):
        out = {}
        for st in t.body:
            if isinstance(st, ast.Assign) and len(st.targets) == 1 and isinstance(st.targets[0], ast.Name):
                out.setdefault(st.targets[0].id, []).append(st.value)
            elif isinstance(st, ast.AnnAssign) and isinstance(st.target, ast.Name) and st.value is not None:
                out.setdefault(st.target.id, []).append(st.value)
        return out

    ref_top = top_names(ref_tree)
    consts = {k: v[0] for k, v in top_names(tree).items() if k not in ref_top and len(v) == 1 and _literal(v[0])}
    if not consts:
        return 0
    stored_elsewhere = {n.id for f in ast.walk(tree) if isinstance(f, FuncNode) for n in ast.walk(f) if isinstance(n, ast.Name) and isinstance(n.ctx, (ast.Store, ast.Del))}
    stored_elsewhere |= {a.arg for f in ast.walk(tree) if isinstance(f, FuncNode + (ast.Lambda,)) for a in f.args.args + f.args.kwonlyargs + f.args.posonlyargs}
    consts = {k: v for k, v in consts.items() if k not in stored_elsewhere}
    n = [0]

    class Prop(ast.NodeTransformer):
        def visit_Name(self, x):
            if isinstance(x.ctx, ast.Load) and x.id in consts:
                n[0] += 1
                return _set_loc([ast.Expr(value=copy.deepcopy(consts[x.id]))], x)[0].value
            return x

    for f in ast.walk(tree):
        if isinstance(f, FuncNode):
            f.body = [Prop().visit(st) for st in f.body]
    if n[0]:
        ast.fix_missing_locations(tree)
    return n[0]


def inline_new_helpers(tree: ast.Module, ref_tree: ast.Module) -> int:
    from .normalize import _outer_functions

    ref_names = {q for (q, _k) in _outer_functions(ref_tree)}
    total = propagate_new_constants(tree, ref_tree)
    for _round in range(3):
        cur = _outer_functions(tree)
        cands = []
        for (q, k), fn in cur.items():
            leaf = q.split(".")[-1]
            if q in ref_names or k != 0 or not leaf.startswith("_") or leaf.startswith("__") or isinstance(fn, ast.AsyncFunctionDef):
                continue
            decs = [ast.unparse(d) for d in fn.decorator_list]
            if any(d not in ("staticmethod",) for d in decs):
                continue
            if any(isinstance(n, (ast.Yield, ast.YieldFrom, ast.Await, ast.Lambda, ast.Global, ast.Nonlocal)) for n in ast.walk(fn)):
                continue
            # recursion: leave alone
            if any(isinstance(n, ast.Call) and ((isinstance(n.func, ast.Attribute) and n.func.attr == leaf) or (isinstance(n.func, ast.Name) and n.func.id == leaf)) for n in ast.walk(fn)):
                continue
            cands.append((q, fn, "staticmethod" in decs))
        if not cands:
            break
        did = 0
        for q, fn, is_static in cands:
            owner = q.rsplit(".", 1)[0] if "." in q else None
            if owner is not None and "." in owner:
                continue
            name = q.split(".")[-1]
            body = _body_wo_doc(fn)
            scope = tree if owner is None else next((c for c in ast.walk(tree) if isinstance(c, ast.ClassDef) and c.name == owner), None)
            if scope is None or not body:
                continue
            k = 0
            if len(body) == 1 and isinstance(body[0], ast.Return) and body[0].value is not None:
                tr = _ExprInline(owner, name, fn, is_static)
                for other in ast.walk(scope):
                    if isinstance(other, FuncNode) and other is not fn:
                        tr.visit(other)
                k += tr.n
            else:
                for other in ast.walk(scope):
                    if isinstance(other, FuncNode) and other is not fn:
                        other.body, kk = _inline_into_block(list(other.body), owner, name, fn, is_static)
                        k += kk
            if k:
                # drop the helper when nothing refers to it any more
                still = any(
                    (isinstance(n, ast.Attribute) and n.attr == name) or (isinstance(n, ast.Name) and n.id == name)
                    for f2 in ast.walk(tree)
                    if isinstance(f2, FuncNode) and f2 is not fn
                    for n in ast.walk(f2)
                )
                if not still:
                    holder = tree if owner is None else scope
                    if fn in holder.body:
                        holder.body.remove(fn)
                did += k
        total += did
        if not did:
            break
    if total:
        ast.fix_missing_locations(tree)
    return total
