"""
Kill matrix: for every property a list of small source mutations, each breaking one rule instance.
A mutant is applied to a scratch copy of /repo/redun (outside /repo and /verif, removed afterwards),
the property's rules are re-run on the copy and must report a violation.

Mutants are text edits anchored on a unique source fragment of the *current* tree; when the fragment is absent
(the tree was changed) the mutant is skipped, never guessed.  The edits keep the module syntactically valid
(checked with ast.parse); they are not claimed to keep the test suite green -- that is what /verif/seeded/ is for.
"""

from __future__ import annotations

import ast
import importlib
import os
import shutil
import tempfile
from concurrent.futures import ProcessPoolExecutor
from typing import Optional

from .core import AnalysisError, Repo
from .report import Ctx, load_known

SCRATCH_PARENT = "/var/tmp"


def _copy_tree(root: str) -> str:
    tmp = tempfile.mkdtemp(prefix="verif_km_", dir=SCRATCH_PARENT)
    shutil.copytree(
        os.path.join(root, "redun"),
        os.path.join(tmp, "redun"),
        ignore=shutil.ignore_patterns("tests", "__pycache__", "*.pyc", "*.db"),
    )
    return tmp


def _run(prop: str, root: str):
    repo = Repo(root)
    ctx = Ctx(prop, repo, "thorough")
    mod = importlib.import_module(f"sa.rules.{prop}")
    mod.run(ctx)
    for r in ctx.rules:
        r.done()
    return ctx


def run_mutant(prop: str, root: str, mutant: dict, tmp: Optional[str] = None) -> dict:
    """Returns {name, status: killed|missed|skipped|error|invalid, detail}."""
    own = tmp is None
    if own:
        tmp = _copy_tree(root)
    name = mutant["name"]
    path = os.path.join(tmp, mutant["file"])
    try:
        if not os.path.exists(path):
            return {"name": name, "status": "skipped", "detail": "file absent"}
        original = open(path).read()
        edits = mutant.get("edits") or [(mutant["find"], mutant["replace"])]
        text = original
        for find, replace in edits:
            if text.count(find) != 1:
                return {"name": name, "status": "skipped", "detail": f"anchor occurs {text.count(find)}x"}
            text = text.replace(find, replace, 1)
        try:
            ast.parse(text)
        except SyntaxError as e:
            return {"name": name, "status": "invalid", "detail": f"mutant does not parse: {e}"}
        open(path, "w").write(text)
        try:
            known = {(k["property"], k["rule"], k["construct"]) for k in load_known().get("known", [])}
            try:
                ctx = _run(prop, tmp)
            except AnalysisError as e:
                return {"name": name, "status": "error", "detail": f"ANALYSIS-ERROR {e}"}
            new = [f for f in ctx.findings if f.key() not in known]
            want = mutant.get("rule")
            if new:
                rules = sorted({f.rule for f in new})
                if want and not any(r == want or r.startswith(want) for r in rules):
                    return {"name": name, "status": "killed", "detail": f"by {rules} (expected {want})", "constructs": [f.construct for f in new][:3]}
                return {"name": name, "status": "killed", "detail": f"by {rules}", "constructs": [f.construct for f in new][:3]}
            return {"name": name, "status": "missed", "detail": "no new finding"}
        finally:
            open(path, "w").write(original)
    finally:
        if own:
            shutil.rmtree(tmp, ignore_errors=True)


def run_for(prop: str, root: str = "/repo") -> dict:
    from .mutants import MUTANTS

    muts = MUTANTS.get(prop, [])
    tmp = _copy_tree(root)
    try:
        results = [run_mutant(prop, root, m, tmp) for m in muts]
    finally:
        shutil.rmtree(tmp, ignore_errors=True)
    return summarise(results)


def summarise(results: list[dict]) -> dict:
    applied = [r for r in results if r["status"] in ("killed", "missed", "error")]
    return {
        "mutants": len(results),
        "applied": len(applied),
        "killed": sum(1 for r in results if r["status"] == "killed"),
        "analysis_error": [r["name"] for r in results if r["status"] == "error"],
        "skipped": sum(1 for r in results if r["status"] == "skipped"),
        "invalid": [r["name"] for r in results if r["status"] == "invalid"],
        "missed": [r["name"] for r in results if r["status"] == "missed"],
        "details": results,
    }


def _job(args):
    prop, root = args
    try:
        return prop, run_for(prop, root)
    except Exception as e:  # pragma: no cover
        return prop, {"mutants": 0, "applied": 0, "killed": 0, "analysis_error": [], "skipped": 0, "invalid": [], "missed": [f"crash: {e!r}"], "details": []}


def run_all(root: str = "/repo", jobs: int = 16) -> dict:
    from .mutants import MUTANTS

    props = sorted(MUTANTS)
    with ProcessPoolExecutor(max_workers=jobs) as ex:
        return dict(ex.map(_job, [(p, root) for p in props]))
