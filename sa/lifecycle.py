"""
Job lifecycle graph of redun's Scheduler, recovered from source.

Handlers are the main-thread functions a job passes through.  A handler is
summarised by its CFG paths; each path is a sequence of *events*:

  ("cond", atom, truth)          branch fact on a tracked attribute (job.X / sched.X)
  ("set", "job.X", value)        assignment of a constant (True/False/None) or "?" (unknown)
  ("consume", argtext) / ("release", argtext)
  ("cont", name)                 hand-off: done / reject / resolve / submit / waitq / collapse
  ("finalize",)
  ("assert", atom, truth)        an `assert` on a tracked attribute
  ("call", dotted)               every other call (for ordering rules)

Continuations are discovered, not assumed: a Scheduler method whose body is
`self.events_queue.put(lambda: self.H(...))` forwards to handler H.

The explorer runs a small abstract interpretation over (tracked booleans, units
held) along handler sequences.  No redun code is executed.
"""

from __future__ import annotations

import ast
from dataclasses import dataclass, field
from typing import Optional

from .cfg import CFG, Node, cond_facts
from .core import AnalysisError, FuncNode, Module, Repo, call_name, calls_in, dotted, last_attr, src, walk_shallow

SCHED = "redun/scheduler.py"


def node_exprs(n: Node) -> list[ast.AST]:
    a = n.ast
    if a is None or n.kind == "edge":
        return []
    if n.kind == "test":
        if isinstance(a, (ast.For, ast.AsyncFor)):
            return [a.iter]
        return [a]
    if n.kind == "handler":
        return [a.type] if a.type is not None else []
    if isinstance(a, (ast.With, ast.AsyncWith)):
        return [it.context_expr for it in a.items]
    if isinstance(a, (FuncNode, ast.ClassDef, ast.Try)):
        return []
    return [a]


@dataclass
class PathSummary:
    events: list  # list of tuples
    nodes: list  # CFG nodes (for reporting)
    exit_kind: str  # "return" | "raise"

    def sig(self) -> tuple:
        # calls are part of the signature as a *set* (which effects happen on the path), so that two paths that differ only in whether a
        # call such as the wait-queue wake-up is made are both kept; their order and multiplicity is not
        return (tuple(e for e in self.events if e[0] != "call"), frozenset(e[1] for e in self.events if e[0] == "call"), self.exit_kind)

    def consistent(self) -> bool:
        """False when the path takes contradictory outcomes of a test on one tracked atom with no assignment in between."""
        known: dict = {}
        for e in self.events:
            if e[0] == "cond":
                if e[1] in known and known[e[1]] != e[2]:
                    return False
                known[e[1]] = e[2]
            elif e[0] in ("set", "alias"):
                known.pop(e[1], None)
        return True

    def describe(self) -> list[str]:
        out = []
        for e in self.events:
            if e[0] == "call":
                continue
            out.append(" ".join(str(x) for x in e))
        return out


class Handler:
    def __init__(self, lc: "Lifecycle", mod: Module, qual: str, fn: ast.AST, jobvar: str, schedvar: str):
        self.lc = lc
        self.mod = mod
        self.qual = qual
        self.fn = fn
        self.jobvar = jobvar
        self.schedvar = schedvar
        self.cfg = CFG(fn)
        self._paths: Optional[list[PathSummary]] = None
        self._aliases = None
        self._alias_defs()

    # -- normalisation -------------------------------------------------------
    def norm_atom(self, text: str) -> str:
        jv, sv = self.jobvar, self.schedvar
        if text.isidentifier() and getattr(self, "_aliases", None) and text in self._aliases:
            return "local." + text
        if text == jv:
            return "job"
        if text.startswith(jv + "."):
            return "job." + text[len(jv) + 1 :]
        if text.startswith(sv + "."):
            return "sched." + text[len(sv) + 1 :]
        return text

    def _alias_defs(self) -> dict:
        """Local names assigned exactly once from a single tracked condition, e.g. `is_retry = job.args is not None`."""
        if getattr(self, "_aliases", None) is None:
            counts: dict = {}
            for n in ast.walk(self.fn):
                if isinstance(n, ast.Assign) and len(n.targets) == 1 and isinstance(n.targets[0], ast.Name):
                    counts.setdefault(n.targets[0].id, []).append(n)
            out = {}
            for name, defs in counts.items():
                if len(defs) != 1 or not isinstance(defs[0].value, ast.expr):
                    continue
                facts = cond_facts(defs[0].value, True)
                if len(facts) != 1:
                    continue
                atom, truth = facts[0]
                isnone = None
                if atom.endswith(" is None"):
                    atom, isnone = atom[: -len(" is None")], truth
                elif atom.endswith(" is not None"):
                    atom, isnone = atom[: -len(" is not None")], not truth
                a = self.norm_atom(atom)
                if self.tracked(a) and a != "job" and not a.startswith("local."):
                    out[name] = (defs[0], a, truth, isnone)
            self._aliases = out
        return self._aliases

    def tracked(self, atom: str) -> bool:
        if atom.startswith("local."):
            return True
        if atom == "job":
            return True
        if not (atom.startswith("job.") or atom.startswith("sched.")):
            return False
        rest = atom.split(".", 1)[1]
        return rest.isidentifier()

    # -- event extraction ----------------------------------------------------
    def _events_of_node(self, n: Node) -> list:
        evs: list = []
        if n.kind == "edge":
            t = n.test.ast
            if isinstance(t, ast.expr):
                for atom, truth in cond_facts(t, n.label == "T"):
                    isnone = None
                    if atom.endswith(" is None"):
                        atom, isnone = atom[: -len(" is None")], truth
                    elif atom.endswith(" is not None"):
                        atom, isnone = atom[: -len(" is not None")], not truth
                    a = self.norm_atom(atom)
                    if self.tracked(a) and isnone is not None:
                        evs.append(("isnone", a, isnone))
                    elif self.tracked(a):
                        evs.append(("cond", a, truth))
                    else:
                        c = self.lc.classify_test(self, atom, truth)
                        if c:
                            evs.append(c)
            return evs
        a = n.ast
        if isinstance(a, ast.Assert):
            for atom, truth in cond_facts(a.test, True):
                na = self.norm_atom(atom)
                if self.tracked(na):
                    evs.append(("assert", na, truth))
        for part in node_exprs(n):
            calls = [c for c in ast.walk(part) if isinstance(c, ast.Call)]
            calls.sort(key=lambda c: (c.end_lineno, c.end_col_offset))
            for c in calls:
                ev = self.lc.classify_call(self, c)
                if ev:
                    evs.append(ev)
                eff = self.lc.effect_of_call(self, c)
                if eff:
                    evs.append(eff)
        for name, (dnode, atom, truth, isnone) in self._alias_defs().items():
            if dnode is a:
                evs.append(("alias", "local." + name, atom, truth, isnone))
        # assignments to tracked attributes
        if isinstance(a, (ast.Assign, ast.AnnAssign, ast.AugAssign)):
            from .core import assigned_targets

            for t in assigned_targets(a):
                d = dotted(t)
                if not d:
                    continue
                na = self.norm_atom(d)
                if na.startswith("local."):
                    continue  # alias definitions are handled by the alias event
                if self.tracked(na):
                    val: object = "?"
                    v = getattr(a, "value", None)
                    if isinstance(a, ast.Assign) and len(a.targets) == 1 and a.targets[0] is t and isinstance(v, ast.Constant):
                        val = v.value
                    elif isinstance(a, ast.Assign) and any(x is t for x in a.targets) and isinstance(v, ast.Call) and self.lc.returns_non_none(self, v):
                        val = "!"  # unknown but not None
                    evs.append(("set", na, val))
        return evs

    def paths(self) -> list[PathSummary]:
        if self._paths is None:
            seen = {}
            for p in self.cfg.paths(max_visits=1, limit=200000):
                evs = []
                for n in p:
                    evs.extend(self._events_of_node(n))
                kind = "raise" if p[-1] is self.cfg.raise_exit else "return"
                for evs2, kind2 in self._expand_inlines(evs, kind):
                    ps = PathSummary(evs2, p, kind2)
                    if ps.consistent():
                        seen.setdefault(ps.sig(), ps)
            self._paths = list(seen.values())
        return self._paths

    def _expand_inlines(self, evs: list, kind: str, depth: int = 0):
        """Replace ("inline", helper) events by each of the helper's path summaries (helpers are Scheduler methods
        that take the job and contain lifecycle-relevant events)."""
        idx = next((i for i, e in enumerate(evs) if e[0] == "inline"), None)
        if idx is None or depth > 3:
            yield [e for e in evs if e[0] != "inline"], kind
            return
        helper = self.lc.helper_handler(evs[idx][1], evs[idx][2])
        for hp in helper.paths():
            if hp.exit_kind == "raise":
                yield from self._expand_inlines(evs[:idx] + hp.events, "raise", depth + 1)
            else:
                yield from self._expand_inlines(evs[:idx] + hp.events + evs[idx + 1 :], kind, depth + 1)


class Lifecycle:
    EXEC = "Scheduler._exec_job_main_thread"
    DONE = "Scheduler._done_job_main_thread"
    RESOLVE = "Scheduler._resolve_job_main_thread"
    REJECT = "Scheduler._reject_job_main_thread"

    def __init__(self, repo: Repo):
        self.repo = repo
        self.mod = repo.mod(SCHED)
        m = self.mod
        self.handlers: dict[str, Handler] = {}
        for q in (self.EXEC, self.DONE, self.RESOLVE, self.REJECT):
            fn = m.func(q)
            args = [a.arg for a in fn.args.args]
            if len(args) < 2 or args[0] != "self":
                raise AnalysisError(f"{q}: unexpected signature", q)
            self.handlers[q] = Handler(self, m, q, fn, args[1], "self")
        # Job.collapse closures
        col = m.func("Job.collapse")
        self.collapse_handlers = {}
        for st in col.body:
            if isinstance(st, FuncNode):
                self.collapse_handlers[st.name] = st
        reg = None
        for c in calls_in(col, shallow=True):
            if last_attr(c) == "then" and len(c.args) == 2 and all(isinstance(a, ast.Name) for a in c.args):
                reg = c
        if reg is None:
            raise AnalysisError("Job.collapse: registration `other_job.result_promise.then(ok, fail)` not found", "Job.collapse")
        ok_name, fail_name = reg.args[0].id, reg.args[1].id
        for nm in (ok_name, fail_name):
            if nm not in self.collapse_handlers:
                raise AnalysisError(f"Job.collapse: callback {nm} not defined locally", "Job.collapse")
        sched_var_ok = self._sched_local(self.collapse_handlers[ok_name])
        sched_var_fail = self._sched_local(self.collapse_handlers[fail_name])
        self.handlers["collapse.then"] = Handler(self, m, f"Job.collapse.{ok_name}", self.collapse_handlers[ok_name], "self", sched_var_ok)
        self.handlers["collapse.fail"] = Handler(self, m, f"Job.collapse.{fail_name}", self.collapse_handlers[fail_name], "self", sched_var_fail)

        # constant assignments to the job made by Job.collapse itself, before the twin settles
        self.collapse_prelude = []
        for st in col.body:
            if isinstance(st, ast.Assign) and len(st.targets) == 1 and isinstance(st.targets[0], ast.Attribute) and isinstance(st.targets[0].value, ast.Name) and st.targets[0].value.id == "self":
                val = st.value.value if isinstance(st.value, ast.Constant) else "?"
                self.collapse_prelude.append(("set", "job." + st.targets[0].attr, val))

        # wrappers: method -> handler it forwards to through the events queue
        self.wrappers: dict[str, str] = {}
        sched_cls = m.cls("Scheduler")
        for st in sched_cls.body:
            if not isinstance(st, FuncNode):
                continue
            for c in calls_in(st, shallow=True):
                if call_name(c) == "self.events_queue.put" and c.args and isinstance(c.args[0], ast.Lambda):
                    inner = c.args[0].body
                    if isinstance(inner, ast.Call):
                        d = call_name(inner) or ""
                        if d.startswith("self."):
                            tgt = "Scheduler." + d[5:]
                            if tgt in self.handlers:
                                self.wrappers[st.name] = tgt
        for need in ("done_job", "reject_job", "_resolve_job", "_exec_job"):
            if need not in self.wrappers:
                raise AnalysisError(f"Scheduler.{need} does not forward to a main-thread handler through events_queue", f"Scheduler.{need}")

        # initial values of job attributes from Job.__init__
        self.job_init: dict[str, object] = {}
        init = m.func("Job.__init__")
        for st in init.body:
            tgt = None
            val = None
            if isinstance(st, ast.Assign) and len(st.targets) == 1:
                tgt, val = st.targets[0], st.value
            elif isinstance(st, ast.AnnAssign):
                tgt, val = st.target, st.value
            if tgt is not None and isinstance(tgt, ast.Attribute) and isinstance(tgt.value, ast.Name) and tgt.value.id == "self":
                self.job_init["job." + tgt.attr] = val.value if isinstance(val, ast.Constant) else "?"
        if "job.was_cached" not in self.job_init:
            raise AnalysisError("Job.__init__ no longer initialises was_cached", "Job.__init__")

    @staticmethod
    def _sched_local(fn: ast.AST) -> str:
        for st in ast.walk(fn):
            if isinstance(st, ast.Assign) and isinstance(st.value, ast.Call) and call_name(st.value) == "get_current_scheduler":
                if isinstance(st.targets[0], ast.Name):
                    return st.targets[0].id
        return "scheduler"

    # -- classification ------------------------------------------------------
    def classify_test(self, h: Handler, atom: str, truth: bool):
        # `self._check_pending_job(job) is not None` true edge == collapsed
        if "_check_pending_job(" in atom:
            collapsed = None
            if atom.endswith("is not None"):
                collapsed = truth
            elif atom.endswith("is None"):
                collapsed = not truth
            elif atom.endswith(")"):
                collapsed = truth
            if collapsed is True:
                return ("cont", "collapse")
            if collapsed is False:
                return ("nocollapse",)
        return None

    def classify_call(self, h: Handler, c: ast.Call):
        d = call_name(c) or ""
        la = last_attr(c) or ""
        sv = h.schedvar
        if d == f"{sv}._consume_resources":
            return ("consume", src(c.args[0]) if c.args else "")
        if d == f"{sv}._release_resources":
            return ("release", src(c.args[0]) if c.args else "")
        if d == f"{sv}._finalize_job":
            return ("finalize",)
        if d == f"{sv}._add_job_pending_limits":
            return ("cont", "waitq")
        if d.startswith(sv + "."):
            meth = d[len(sv) + 1 :]
            if meth in self.wrappers:
                tgt = self.wrappers[meth]
                # only hand-offs of *this* job
                if c.args and isinstance(c.args[0], ast.Name) and c.args[0].id == h.jobvar:
                    return ("cont", self._short(tgt))
                return ("call", d)
            if "Scheduler." + meth in self.handlers:
                if c.args and isinstance(c.args[0], ast.Name) and c.args[0].id == h.jobvar:
                    return ("cont", self._short("Scheduler." + meth))
        if la in ("submit", "submit_script") and c.args and isinstance(c.args[0], ast.Name) and c.args[0].id == h.jobvar:
            return ("cont", "submit")
        if d.startswith(sv + ".") and d.count(".") == 1:
            meth = d[len(sv) + 1 :]
            pos = next((i for i, a in enumerate(c.args) if isinstance(a, ast.Name) and a.id == h.jobvar), None)
            if pos is not None and self.is_lifecycle_helper(meth):
                return ("inline", meth, pos)
        if d:
            return ("call", d)
        return None

    # -- helpers that are inlined ---------------------------------------------------
    NOT_HELPERS = ("_check_pending_job", "_get_cache", "_preprocess_args", "_postprocess_result", "_record_job_tags", "_set_task_traceback", "_get_subtree_tasks", "_log_cache_miss", "set_cache")

    def is_lifecycle_helper(self, meth: str) -> bool:
        """A Scheduler method (not a handler/wrapper) whose body consumes/releases units, finalises, hands the job on,
        or assigns a constant to a job attribute."""
        if meth in self.wrappers or "Scheduler." + meth in self.handlers or meth in self.NOT_HELPERS:
            return False
        if meth in ("_consume_resources", "_release_resources", "_finalize_job", "_add_job_pending_limits", "_check_jobs_pending_limits"):
            return False
        fn = self.mod.funcs.get("Scheduler." + meth)
        if fn is None or len(fn.args.args) < 2:
            return False
        cache = getattr(self, "_helper_flags", None)
        if cache is None:
            cache = self._helper_flags = {}
        if meth not in cache:
            t = False
            for c in calls_in(fn):
                d = call_name(c) or ""
                if d in ("self._consume_resources", "self._release_resources", "self._finalize_job", "self._add_job_pending_limits") or d[5:] in self.wrappers or "Scheduler." + d[5:] in self.handlers:
                    t = True
            for n in ast.walk(fn):
                if isinstance(n, ast.Assign) and isinstance(n.value, ast.Constant):
                    for tg in n.targets:
                        if isinstance(tg, ast.Attribute) and isinstance(tg.value, ast.Name) and tg.value.id in [a.arg for a in fn.args.args[1:]]:
                            t = True
            cache[meth] = t
        return cache[meth]

    def helper_handler(self, meth: str, pos: int) -> "Handler":
        key = (meth, pos)
        hh = getattr(self, "_helper_handlers", None)
        if hh is None:
            hh = self._helper_handlers = {}
        if key not in hh:
            fn = self.mod.func("Scheduler." + meth)
            params = [a.arg for a in fn.args.args]
            jobvar = params[pos + 1] if pos + 1 < len(params) else params[1]
            hh[key] = Handler(self, self.mod, "Scheduler." + meth, fn, jobvar, "self")
        return hh[key]

    # -- non-idempotent effects -------------------------------------------------
    def _nonidempotent_summary(self) -> dict[str, list[str]]:
        """Scheduler method -> list of non-idempotent in-memory effects (transitive over self.<m>() calls).

        A direct effect is an augmented assignment, or a growing call (append/extend/add/insert), on state reached from
        a parameter or self (including inside nested closures, which run as part of the call)."""
        if getattr(self, "_ni", None) is not None:
            return self._ni
        cls = self.mod.cls("Scheduler")
        methods = {st.name: st for st in cls.body if isinstance(st, FuncNode)}
        direct: dict[str, list[str]] = {}
        for name, fn in methods.items():
            params = {a.arg for f in ast.walk(fn) if isinstance(f, FuncNode) for a in f.args.args}
            effs = []
            for n in ast.walk(fn):
                if isinstance(n, ast.AugAssign):
                    t = n.target
                    base = t
                    while isinstance(base, (ast.Attribute, ast.Subscript)):
                        base = base.value
                    if isinstance(t, (ast.Attribute, ast.Subscript)) and isinstance(base, ast.Name) and base.id in params:
                        effs.append(src(n))
                elif isinstance(n, ast.Call) and isinstance(n.func, ast.Attribute) and n.func.attr in ("append", "extend", "add", "insert"):
                    base = n.func.value
                    root = base
                    while isinstance(root, (ast.Attribute, ast.Subscript)):
                        root = root.value
                    if isinstance(base, (ast.Attribute, ast.Subscript)) and isinstance(root, ast.Name) and root.id in params:
                        effs.append(src(n))
            direct[name] = effs
        summ = {k: list(v) for k, v in direct.items()}
        changed = True
        while changed:
            changed = False
            for name, fn in methods.items():
                for c in calls_in(fn):
                    d = call_name(c) or ""
                    if d.startswith("self.") and d.count(".") == 1:
                        callee = d[5:]
                        if callee in self.wrappers or callee in ("_consume_resources", "_release_resources", "_check_jobs_pending_limits"):
                            continue  # deferred continuation / resource accounting (checked separately)
                        for e in summ.get(callee, []):
                            tag = f"{callee}: {e}" if ": " not in e else e
                            if tag not in summ[name] and e not in summ[name]:
                                summ[name].append(tag)
                                changed = True
        self._ni = summ
        return summ

    WAITQ_METHODS = ("_add_job_pending_limits",)

    def effect_of_call(self, h: "Handler", c: ast.Call):
        d = call_name(c) or ""
        sv = h.schedvar
        if d.startswith(sv + ".") and d.count(".") == 1:
            meth = d[len(sv) + 1 :]
            if meth in self.WAITQ_METHODS or meth in ("_consume_resources", "_release_resources", "_finalize_job", "_check_jobs_pending_limits"):
                return None
            if self.is_lifecycle_helper(meth):
                return None  # inlined
            if meth in self.wrappers or "Scheduler." + meth in self.handlers:
                return None
            effs = self._nonidempotent_summary().get(meth)
            if effs:
                return ("effect", f"{meth}() -> {effs[0]}")
        return None

    def returns_non_none(self, h: "Handler", c: ast.Call) -> bool:
        d = call_name(c) or ""
        fn = None
        if d.startswith(h.schedvar + ".") and d.count(".") == 1:
            fn = self.mod.funcs.get("Scheduler." + d.split(".")[1])
        elif d.isidentifier():
            for n in ast.walk(h.fn):
                if isinstance(n, FuncNode) and n.name == d:
                    fn = n
        if fn is None:
            return False
        rets = [r for r in ast.walk(fn) if isinstance(r, ast.Return)]
        if not rets:
            return False
        for r in rets:
            v = r.value
            if v is None or (isinstance(v, ast.Constant) and v.value is None) or isinstance(v, ast.Name):
                return False
        return True

    def _short(self, q: str) -> str:
        return {self.EXEC: "exec", self.DONE: "done", self.RESOLVE: "resolve", self.REJECT: "reject"}[q]

    # -- exploration ---------------------------------------------------------
    def next_handlers(self, cont: str) -> list[str]:
        return {
            "exec": [self.EXEC],
            "done": [self.DONE],
            "resolve": [self.RESOLVE],
            "reject": [self.REJECT],
            "submit": [self.DONE, self.REJECT],  # executor reports done or failed
            "waitq": [self.EXEC],  # re-nominated later, re-enters from the top
            "collapse": ["collapse.then", "collapse.fail"],
        }[cont]

    def explore(self, max_traces: int = 400000):
        """Yield complete traces: list of (handler_key, PathSummary, state_after) ending in a
        terminal (finalize / stop)."""
        init_state = {k: v for k, v in self.job_init.items() if isinstance(v, bool) or v is None}
        init_state["held"] = 0
        init_state["job"] = True  # a hand-off always carries the job itself
        results = []
        count = [0]

        def step(hkey: str, state: dict, trace: list, visited: frozenset):
            h = self.handlers[hkey]
            state = {k: v for k, v in state.items() if not k.startswith("local.")}
            if hkey.startswith("collapse."):
                for _, atom, val in self.collapse_prelude:
                    state[atom] = val
            for ps in h.paths():
                st = dict(state)
                notes = []
                feasible = True
                conts = []
                finalized = False
                for e in ps.events:
                    k = e[0]
                    if k in ("cond", "assert"):
                        _, atom, truth = e
                        cur = st.get(atom, "?")
                        if cur == "?":
                            st[atom] = truth
                        elif cur == "!":
                            if not truth:
                                st[atom] = False
                        elif bool(cur) != truth:
                            if k == "assert":
                                notes.append(("assert-fails", atom, truth))
                            feasible = False
                            break
                    elif k == "isnone":
                        _, atom, truth = e
                        cur = st.get(atom, "?")
                        if cur == "?":
                            st[atom] = None if truth else "!"
                        elif (cur is None) != truth:
                            feasible = False
                            break
                    elif k == "alias":
                        _, lname, atom, truth, isnone = e
                        cur = st.get(atom, "?")
                        if isnone is not None:
                            val = "?" if cur == "?" else ((cur is None) == isnone)
                        else:
                            val = "?" if cur in ("?", "!") else (bool(cur) == truth)
                        st[lname] = val
                    elif k == "effect":
                        notes.append(("effect", e[1]))
                    elif k == "set":
                        st[e[1]] = e[2]
                    elif k == "consume":
                        st["held"] += 1
                        notes.append(("held", st["held"], "after consume"))
                    elif k == "release":
                        st["held"] -= 1
                        notes.append(("held", st["held"], "after release"))
                    elif k == "cont":
                        conts.append(e[1])
                    elif k == "finalize":
                        finalized = True
                if not feasible:
                    if notes and notes[-1][0] == "assert-fails":
                        results.append(("assert-fails", trace + [(hkey, ps, st, notes)]))
                    continue
                entry = (hkey, ps, st, notes)
                if hkey == self.DONE:
                    # the evaluate(...).then(resolve).catch(reject) chain: both may happen
                    pass
                if finalized or not conts:
                    kind = "final" if finalized else ("raise" if ps.exit_kind == "raise" else "stop")
                    results.append((kind, trace + [entry]))
                    count[0] += 1
                    if count[0] > max_traces:
                        raise AnalysisError("lifecycle trace explosion")
                    continue
                if abs(st["held"]) > 2 or len(trace) > 12:
                    # the unit count has already left {0,1} (reported by the consumer rule); do not unfold further
                    results.append(("diverge", trace + [entry]))
                    continue
                for cont in dict.fromkeys(conts):
                    for nh in self.next_handlers(cont):
                        key = (nh, tuple(sorted((k, str(v)) for k, v in st.items())))
                        if key in visited:
                            results.append(("cycle", trace + [entry]))
                            continue
                        step(nh, st, trace + [entry], visited | {key})

        for dry in (False, True):
            s = dict(init_state)
            s["sched._dryrun"] = dry
            step(self.EXEC, s, [], frozenset())
        return results


def describe_trace(trace) -> list[str]:
    out = []
    for hkey, ps, st, notes in trace:
        evs = [e for e in ps.events if e[0] != "call"]
        out.append(f"{hkey.split('.')[-1] if hkey.startswith('Scheduler.') else hkey}: " + "; ".join(" ".join(str(x) for x in e) for e in evs) + f"  => held={st['held']}")
    return out
