"""Syntactic normalisation of linear comparisons  (sum of +/- terms  op  constant)."""

from __future__ import annotations

import ast
from typing import Optional

from .core import src


def _terms(e: ast.AST, sign: int, acc: dict, const: list) -> bool:
    if isinstance(e, ast.BinOp) and isinstance(e.op, (ast.Add, ast.Sub)):
        return _terms(e.left, sign, acc, const) and _terms(e.right, sign if isinstance(e.op, ast.Add) else -sign, acc, const)
    if isinstance(e, ast.UnaryOp) and isinstance(e.op, ast.USub):
        return _terms(e.operand, -sign, acc, const)
    if isinstance(e, ast.Constant) and isinstance(e.value, (int, float)) and not isinstance(e.value, bool):
        const[0] += sign * e.value
        return True
    t = src(e)
    acc[t] = acc.get(t, 0) + sign
    return True


def linear_cmp(c: ast.Compare) -> Optional[tuple[dict, str, float]]:
    """Normalise `lhs op rhs` to  sum(terms) OP const  with OP in {'>=', '>', '==', '!='}.

    Returns (terms, OP, const) or None when not a single linear comparison."""
    if len(c.ops) != 1:
        return None
    op = c.ops[0]
    acc: dict = {}
    const = [0]
    _terms(c.left, 1, acc, const)
    _terms(c.comparators[0], -1, acc, const)
    k = -const[0]  # sum(terms) op k
    acc = {t: v for t, v in acc.items() if v != 0}
    if isinstance(op, ast.GtE):
        return acc, ">=", k
    if isinstance(op, ast.Gt):
        return acc, ">", k
    if isinstance(op, ast.LtE):
        return {t: -v for t, v in acc.items()}, ">=", -k
    if isinstance(op, ast.Lt):
        return {t: -v for t, v in acc.items()}, ">", -k
    if isinstance(op, ast.Eq):
        return acc, "==", k
    if isinstance(op, ast.NotEq):
        return acc, "!=", k
    return None
