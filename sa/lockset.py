"""Lexical lockset analysis: which `self.<field>` accesses of a class happen inside `with self.<lock>:`."""

from __future__ import annotations

import ast
from dataclasses import dataclass

from .core import FuncNode, Module, call_name, src


@dataclass
class Access:
    method: str
    field: str
    kind: str  # load | store | mutate
    locks: frozenset
    line: int
    text: str


def lock_fields(cls: ast.ClassDef) -> set[str]:
    out = set()
    for st in cls.body:
        if isinstance(st, FuncNode) and st.name == "__init__":
            for n in ast.walk(st):
                if isinstance(n, ast.Assign) and isinstance(n.value, ast.Call) and (call_name(n.value) or "").split(".")[-1] in ("Lock", "RLock", "Condition"):
                    for t in n.targets:
                        if isinstance(t, ast.Attribute) and isinstance(t.value, ast.Name) and t.value.id == "self":
                            out.add(t.attr)
    return out


MUTATORS = {"append", "extend", "pop", "popitem", "clear", "update", "add", "remove", "insert", "setdefault", "discard"}


def accesses(mod: Module, cls: ast.ClassDef) -> list[Access]:
    locks = lock_fields(cls)
    out: list[Access] = []

    def visit(node, held: frozenset, method: str, stmt_text: str):
        if isinstance(node, (ast.With, ast.AsyncWith)):
            new = set(held)
            for it in node.items:
                d = src(it.context_expr)
                if d.startswith("self.") and d[5:] in locks:
                    new.add(d[5:])
                visit(it.context_expr, held, method, src(node).split("\n")[0])
            for b in node.body:
                visit(b, frozenset(new), method, src(b).split("\n")[0])
            return
        if isinstance(node, FuncNode) and node.name != method:
            # nested function: runs later, without the lock unless it takes it itself
            for b in node.body:
                visit(b, frozenset(), method, src(b).split("\n")[0])
            return
        if isinstance(node, ast.stmt):
            stmt_text = src(node).split("\n")[0]
        if isinstance(node, ast.Attribute) and isinstance(node.value, ast.Name) and node.value.id == "self" and node.attr not in locks:
            kind = "store" if isinstance(node.ctx, (ast.Store, ast.Del)) else "load"
            par = mod.parent.get(node)
            if isinstance(par, ast.Subscript) and par.value is node and isinstance(par.ctx, (ast.Store, ast.Del)):
                kind = "mutate"
            if isinstance(par, ast.Attribute) and par.value is node and par.attr in MUTATORS and isinstance(mod.parent.get(par), ast.Call):
                kind = "mutate"
            if isinstance(par, ast.AugAssign) and par.target is node:
                kind = "mutate"
            gp = mod.parent.get(par) if par is not None else None
            if isinstance(par, ast.Subscript) and isinstance(gp, ast.Attribute) and gp.attr in MUTATORS:
                kind = "mutate"
            out.append(Access(method, node.attr, kind, held, node.lineno, stmt_text))
        for ch in ast.iter_child_nodes(node):
            visit(ch, held, method, stmt_text)

    for st in cls.body:
        if isinstance(st, FuncNode):
            for b in st.body:
                visit(b, frozenset(), st.name, src(b).split("\n")[0])
    return out
