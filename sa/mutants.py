"""Mutants for the kill matrix: each entry breaks one rule instance of one property (see killmatrix.py)."""

S = "redun/scheduler.py"
D = "redun/backends/db/__init__.py"
T = "redun/task.py"
E = "redun/expression.py"
F = "redun/file.py"
P = "redun/promise.py"
B = "redun/bcoding.py"
U = "redun/utils.py"
Q = "redun/backends/db/query.py"
SER = "redun/backends/db/serializers.py"
JA = "redun/job_array.py"
H = "redun/hashing.py"
V = "redun/value.py"
CFGF = "redun/config.py"
SCR = "redun/scripting.py"
CLI = "redun/cli.py"


def m(name, file, find, replace, rule=None):
    return {"name": name, "file": file, "find": find, "replace": replace, "rule": rule}


MUTANTS = {
    "C03": [
        m("reader-guard-removed", D, "            if call_node2task_hashes[call_node.call_hash]\n            and call_node2task_hashes", "            if call_node2task_hashes", "C03.1"),
        m("subset-to-intersection", D, "and call_node2task_hashes[call_node.call_hash] <= scheduler_task_hashes", "and call_node2task_hashes[call_node.call_hash] & scheduler_task_hashes", "C03.1"),
        m("get_call_cache-outside-gate", D, "    @db_retry\n    def get_eval_cache(self, eval_hash: str) -> tuple[Any, bool]:\n", "    @db_retry\n    def peek_call(self, call_hash: str):\n        return self.get_call_cache(call_hash)\n\n    @db_retry\n    def get_eval_cache(self, eval_hash: str) -> tuple[Any, bool]:\n", "C03.2"),
        m("stale-task-hashes", S, "            self.task_registry.task_hashes,\n            cache_scope,", "            set(),\n            cache_scope,", "C03.3"),
        m("subtree-not-unioned", S, "                self.subtree_tasks.update(child_job.subtree_tasks)", "                pass", "C03.4"),
        m("shallow-hit-subtree-dropped", S, "                # need to query the backend to determine subtree tasks.\n                job.subtree_tasks = self._get_subtree_tasks(job)", "                # need to query the backend to determine subtree tasks.\n                pass", "C03.4"),
        m("subtree-starts-empty", S, "        self.subtree_tasks: set[Task] = {task}", "        self.subtree_tasks: set[Task] = set()", "C03.4"),
    ],
    "C04": [
        m("simple-expression-always-valid", E, "    def is_valid(self) -> bool:\n        # A cached expression is only valid if the values (e.g. Files) and expressions nested in\n        # its arguments are still valid.\n        return all(\n            not isinstance(value, Value) or value.is_valid()\n            for value in iter_nested_value((self.args, self.kwargs))\n        )\n", "", "C04.5"),
        m("validity-skipped", S, "        elif self._is_valid_value(result):\n            # Result must still be valid to use.\n            return result, True, call_hash", "        elif True:\n            return result, True, call_hash", "C04.1"),
        m("is_valid_nested-any", V, "        return all(map(self.is_valid, iter_nested_value(nested_value)))", "        return any(map(self.is_valid, iter_nested_value(nested_value)))", "C04.1"),
        m("contentfile-unguarded", F, "        if self.filesystem.isfile(self.path):\n            # Use filesystem.open() to avoid triggering a recursive hash update.\n            with self.filesystem.open(self.path, mode=\"rb\") as infile:\n                content_hash = hash_stream(infile)\n        else:", "        if True:\n            with self.filesystem.open(self.path, mode=\"rb\") as infile:\n                content_hash = hash_stream(infile)\n        else:", "C04.2"),
        m("ifile-validates", F, "    def is_valid(self) -> bool:\n        # IFiles are always valid.\n        return True", "    def is_valid(self) -> bool:\n        return self.exists()", "C04.3"),
        m("handle-always-valid", "redun/handle.py", "        return scheduler.backend.is_valid_handle(self)", "        return True", "C04.3"),
    ],
    "C05": [
        m("empty-context-unfiltered-cse", D, "            else:\n                call_nodes = call_nodes.filter(\n                    ~exists().where(and_(Tag.entity_id == Job.id, Tag.key == CONTEXT_KEY))\n                )\n", "", "C05.2"),
        m("pending-key-drops-context", S, "        pending_job = self._pending_jobs.get((job.eval_hash, job.context_hash))", "        pending_job = self._pending_jobs.get((job.eval_hash, None))", "C05.1"),
        m("context-hash-not-passed", S, "            check_valid,\n            job.context_hash,\n            allowed_cache_results,", "            check_valid,\n            None,\n            allowed_cache_results,", "C05.3"),
        m("context-tag-not-recorded-on-reject", S, "                context = job.get_context()\n                if context:\n                    assert job.context_hash == self.backend.record_call_node_context(\n                        job.call_hash, job.context_hash, context\n                    )\n\n                self._record_job_tags(job)\n                self.backend.record_job_end(job, status=\"FAILED\")", "                self._record_job_tags(job)\n                self.backend.record_job_end(job, status=\"FAILED\")", "C05.4"),
        m("context-hash-after-dedup", S, "        context = job.get_context()\n        if context:\n            job.context_hash = self.type_registry.get_hash(context)\n\n        # Replace a placeholder", "        # Replace a placeholder", "C05.4"),
    ],
    "C06": [
        m("dedup-short-circuited", S, "        if self._check_pending_job(job) is not None:", "        if job.parent_job and self._check_pending_job(job) is not None:", "C06.1"),
        m("store-after-submit", S, "            self._pending_jobs[pending_key] = job\n\n        # Submit job.\n        if not job.task.script:\n            executor.submit(job)\n        else:\n            executor.submit_script(job)", "            pass\n\n        # Submit job.\n        if not job.task.script:\n            executor.submit(job)\n        else:\n            executor.submit_script(job)\n        self._pending_jobs[pending_key] = job", "C06.1"),
        m("finalize-before-resolve", S, "        job.resolve(result)\n        self._finalize_job(job)", "        self._finalize_job(job)\n        job.resolve(result)", "C06.3"),
        m("early-return-before-registration", S, "                promise = Promise.all([args_promise, default_kwargs_promise]).then(args_then)\n", "                return Promise.all([args_promise, default_kwargs_promise]).then(args_then)\n", "C06.4"),
        m("extra-dedup-skip", S, "        pending_job = self._pending_jobs.get((job.eval_hash, job.context_hash))\n        if pending_job and job.recording_provenance()", "        if job.task.is_async():\n            return None\n        pending_job = self._pending_jobs.get((job.eval_hash, job.context_hash))\n        if pending_job and job.recording_provenance()", "C06.5"),
        m("register-under-different-key", S, "        self._pending_expr[parent_job][expr.get_hash()] = (promise, expr)", "        self._pending_expr[parent_job][id(expr)] = (promise, expr)", "C06.4"),
    ],
    "C07": [
        m("collapse-removes-slot", S, "        parent_job.child_jobs[parent_job.child_jobs.index(self)] = other_job", "        parent_job.child_jobs.remove(self)", "C07.4"),
        m("preprocess-every-entry", S, "        if job.args is None:\n            # Preprocess", "        if True:\n            # Preprocess", "C07.1"),
        m("children-unsorted", H, "sorted(child_call_hashes)])", "list(child_call_hashes)])", "C07.3"),
        m("time-in-args-hash", S, "        job.eval_hash, job.args_hash = hash_args_eval(self.type_registry, job.task, args, kwargs)", "        stamp = time.time()\n        job.eval_hash, job.args_hash = hash_args_eval(self.type_registry, job.task, args + (stamp,), kwargs)", "C07.2"),
    ],
    "C08": [
        m("release-on-was_cached", S, "        if job.limits_held:\n            job.limits_held = False\n            self._release_resources(job.get_limits())\n            self._check_jobs_pending_limits()\n\n        assert job.task\n        assert job.eval_hash", "        if not job.was_cached:\n            self._release_resources(job.get_limits())\n            self._check_jobs_pending_limits()\n\n        assert job.task\n        assert job.eval_hash", "C08.2"),
        m("consume-before-limit-test", S, "            if not self._is_job_within_limits(job_limits):\n                self._add_job_pending_limits(job, eval_args)\n                return\n            self._consume_resources(job_limits)", "            self._consume_resources(job_limits)\n            if not self._is_job_within_limits(job_limits):\n                self._add_job_pending_limits(job, eval_args)\n                return", "C08"),
        m("off-by-one-limit", S, "- self.limits_used[limit_name] - count >= 0", "- self.limits_used[limit_name] - count >= -1", "C08.1"),
        m("default-limit-2", S, "self.limits.get(limit_name, 1)", "self.limits.get(limit_name, 2)", "C08.1"),
        m("foreign-write-limits_used", S, "    def clear(self):\n        \"\"\"Release resources\"\"\"\n", "    def clear(self):\n        \"\"\"Release resources\"\"\"\n        self.limits_used.clear()\n", "C08.3"),
        m("flag-not-cleared-in-done", S, "        if job.limits_held:\n            job.limits_held = False\n            self._release_resources(job.get_limits())\n            self._check_jobs_pending_limits()\n\n        assert job.task\n        assert job.eval_hash", "        if job.limits_held:\n            self._release_resources(job.get_limits())\n            self._check_jobs_pending_limits()\n\n        assert job.task\n        assert job.eval_hash", "C08.2"),
        m("list-limits-two-units", S, "limits = {limit_name: 1 for limit_name in limits}", "limits = {limit_name: 2 for limit_name in limits}", "C08.4"),
    ],
    "C09": [
        m("collapse-exit-without-wake", S, "            # This job does not consume any resources. If it was nominated to run after waiting\n            # for resource limits, the resources set aside for it are free for other waiting jobs.\n            self._check_jobs_pending_limits()\n            return", "            return", "C09.5"),
        m("queue-scan-skipped", S, "        ready_jobs: list[tuple[Job, tuple[tuple, dict]]] = []\n        not_ready_jobs", "        if not self.limits:\n            return\n        ready_jobs: list[tuple[Job, tuple[tuple, dict]]] = []\n        not_ready_jobs", "C09.3"),
        m("no-wake-after-release", S, "                self._release_resources(job.get_limits())\n                self._check_jobs_pending_limits()\n", "                self._release_resources(job.get_limits())\n", "C09.1"),
        m("waitq-drop", S, "                self._add_job_pending_limits(job, eval_args)\n                return", "                return", "C09.2"),
        m("not-ready-dropped", S, "            else:\n                not_ready_jobs.append((job, eval_args))", "            else:\n                pass", "C09.3"),
        m("strict-limit", S, "- self.limits_used[limit_name] - count >= 0", "- self.limits_used[limit_name] - count > 0", "C09.4"),
        m("done-chain-no-catch", S, "        ).catch(lambda error: self.reject_job(job, error))", "        )", "C09.4"),
    ],
    "C11": [
        m("stale-scan-unlocked", JA, "        with self._lock:\n            stales = [\n                descr\n                for descr in self.pending\n                if (currtime - self.pending_timestamps[descr] > self.stale_time)\n            ]", "        stales = [\n            descr\n            for descr in self.pending\n            if (currtime - self.pending_timestamps[descr] > self.stale_time)\n        ]", "C11.1"),
        m("count-unlocked", JA, "        with self._lock:\n            self.num_pending -= len(jobs)", "        self.num_pending -= len(jobs)", "C11.1"),
        m("remainder-overlap", JA, "            remainder = jobs[self.max_array_size :]", "            remainder = jobs[self.max_array_size - 1 :]", "C11.2"),
        m("small-group-as-batch", JA, "            for job in jobs:\n                self._submit_jobs([job])", "            self._submit_jobs(jobs)", "C11.2"),
        m("monitor-uncaught", JA, "        except Exception as error:\n            # Since we run this method at the top level of a thread, we need to\n            # catch all exceptions so we can properly report them to the\n            # scheduler.\n            self._on_error(error)", "        except KeyError as error:\n            self._on_error(error)", "C11.3"),
    ],
    "C12": [
        m("pickle-fallback-narrowed", S, "                except (TypeError, AttributeError):", "                except (ValueError, AttributeError):", "C12.3"),
        m("error-replayed", S, "        elif isinstance(result, ErrorValue):\n            # Errors can't be used from the backend cache.\n            return None, False, None\n", "", "C12.1"),
        m("swallowed-chain", S, "            return scheduler.evaluate(cached_expr, parent_job=parent_job).catch(promise_catch)", "            scheduler.evaluate(cached_expr, parent_job=parent_job).then(lambda r: r)\n            return scheduler.evaluate(cached_expr, parent_job=parent_job).catch(promise_catch)", "C12.2"),
        m("reject-finalize-first", S, "            job.reject(error)\n            self._finalize_job(job)", "            self._finalize_job(job)\n            job.reject(error)", "C12.3"),
        m("failed-status-dropped", S, "                self.backend.record_job_end(job, status=\"FAILED\")", "                self.backend.record_job_end(job)", "C12.3"),
    ],
    "C13": [
        m("resolve-guard-removed", P, "        if not self.is_pending:\n            # If promise is not pending, then do nothing.\n            return result\n", "", "C13.1"),
        m("notify-before-flags", P, "        self._error = error\n        self.is_fulfilled = False\n        self.is_rejected = True\n        self.is_pending = False\n        self._notify()", "        self._error = error\n        self._notify()\n        self.is_fulfilled = False\n        self.is_rejected = True\n        self.is_pending = False", "C13.1"),
        m("iterate-live-list", P, "            resolvers = self._resolvers\n            self._resolvers = []\n            self._rejectors.clear()\n            for resolver in resolvers:", "            self._rejectors.clear()\n            for resolver in self._resolvers:", "C13.3"),
        m("then-no-late-notify", P, "            self._rejectors.append(cast(Callable[[Exception], Any], promise.do_reject))\n\n        self._notify()\n        return promise", "            self._rejectors.append(cast(Callable[[Exception], Any], promise.do_reject))\n\n        return promise", "C13.4"),
        m("all-append-order", P, "            results[i] = result\n            num_done += 1", "            results[num_done] = result\n            num_done += 1", "C13.5"),
        m("foreign-settle", S, "            assert self.workflow_promise\n            self.workflow_promise.do_reject(error)", "            assert self.workflow_promise\n            self.workflow_promise.is_pending = False\n            self.workflow_promise.do_reject(error)", "C13.2"),
    ],
    "C14": [
        m("unsorted-mapping", B, "    for key, value in sorted(mapping.items()):", "    for key, value in mapping.items():", "C14.4"),
        m("bool-as-int", B, "    if isinstance(data, int) and not isinstance(data, bool):", "    if isinstance(data, int):", "C14.3"),
        m("len-before-encode", B, "    if isinstance(string, str):\n        string = string.encode()\n    f.write(str(len(string)).encode())", "    f.write(str(len(string)).encode())\n    if isinstance(string, str):\n        string = string.encode()", "C14.2"),
        m("list-tag-collides", B, "_TYPE_LIST = b\"l\"", "_TYPE_LIST = b\"d\"", "C14.1"),
        m("sequence-arm-any-iterable", B, "    elif isinstance(data, (list, tuple)):", "    elif isinstance(data, Iterable):", "C14.3"),
        m("sequence-arm-abstract-sequence", B, "    elif isinstance(data, (list, tuple)):", "    elif isinstance(data, (list, tuple, set, frozenset)):", "C14.3"),
        m("no-end-marker", B, "    for item in iterable:\n        bencode(item, f)\n    f.write(_TYPE_END)", "    for item in iterable:\n        bencode(item, f)", "C14.2"),
    ],
    "C15": [
        m("defaults-fast-path", S, "    default_kwargs = {}\n\n    sig = task.signature\n", "    default_kwargs = {}\n\n    sig = task.signature\n    if len(args) + len(kwargs) >= len(sig.parameters):\n        return default_kwargs\n", "C15.4"),
        m("zip-all-params", T, "        for arg_name, arg_value in zip(positional_param_names, args)", "        for arg_name, arg_value in zip(sig.parameters, args)", "C15.4"),
        m("reuse-eval-tag", H, "            \"TaskArguments\",", "            \"Eval\",", "C15.1"),
        m("kwargs-dropped-from-key", T, "    return hash_eval(type_registry, task.hash, args2, kwargs2)", "    return hash_eval(type_registry, task.hash, args2, {})", "C15.2"),
        m("defaults-win-over-kwargs", S, "                    return self._exec_job(job, (args, {**default_kwargs, **kwargs}))", "                    return self._exec_job(job, (args, {**kwargs, **default_kwargs}))", "C15.5"),
        m("kwargs-as-list", H, "    return {key: type_registry.get_hash(arg) for key, arg in kwargs.items()}", "    return [type_registry.get_hash(arg) for key, arg in kwargs.items()]", "C15.3"),
        m("keep_arg-extra-filter", T, "        return param_name not in config_args and not isinstance(value, JobInfo)", "        return param_name not in config_args and not isinstance(value, JobInfo) and value is not None", "C15.2"),
        m("untagged-preimage", S, "        self._hash = hash_struct([\"Thread\", expr_hash])", "        self._hash = hash_struct([expr_hash])", "C15.1"),
    ],
    "C16": [
        m("set-unsorted", V, "        bytes = pickle_dumps(sorted(self.instance))\n\n        # Use a unique tag to distinguish from hashing a list.\n        return hash_tag_bytes(\"Value.set\", bytes)", "        bytes = pickle_dumps(list(self.instance))\n\n        # Use a unique tag to distinguish from hashing a list.\n        return hash_tag_bytes(\"Value.set\", bytes)", "C16.1"),
        m("frozenset-proxy-removed", V, "    type = frozenset\n", "    type = None\n", "C16.1"),
        m("id-in-hash", S, "        self._hash = hash_struct([\"Thread\", expr_hash])", "        self._hash = hash_struct([\"Thread\", expr_hash])\n\n    def _calc_hash(self) -> str:\n        return str(id(self))", "C16.3"),
        m("raw-pickle", E, "        options_hash = hash_bytes(pickle_dumps(self._options))\n        export_options_hash = hash_struct(list(sorted(self._export_options)))\n        if not self._export_options:\n            # Backwards", "        import pickle\n\n        options_hash = hash_bytes(pickle.dumps(self._options))\n        export_options_hash = hash_struct(list(sorted(self._export_options)))\n        if not self._export_options:\n            # Backwards", "C16.3"),
    ],
    "C17": [
        m("overrides-filtered-by-base", T, "        # Be sure to clone the actual type, in case it's a derived one.\n        return self.__class__(\n            self.func,\n            name=self.name,\n            namespace=self.namespace,\n            version=self.version,\n            compat=self.compat,\n            script=self.script,\n            source=self.source,\n            hash_includes=self._hash_includes,\n            task_options_base=self._task_options_base,\n            task_options_override=new_task_options_update,\n            export_options=set(self._export_options),\n        )", "        for key in list(new_task_options_update):\n            if self._task_options_base.get(key) == new_task_options_update[key]:\n                del new_task_options_update[key]\n        return self.__class__(\n            self.func,\n            name=self.name,\n            namespace=self.namespace,\n            version=self.version,\n            compat=self.compat,\n            script=self.script,\n            source=self.source,\n            hash_includes=self._hash_includes,\n            task_options_base=self._task_options_base,\n            task_options_override=new_task_options_update,\n            export_options=set(self._export_options),\n        )", "C17.2"),
        m("clone-drops-version", T, "            version=self.version,\n            compat=self.compat,\n            script=self.script,\n            source=self.source,\n            hash_includes=self._hash_includes,\n            task_options_base=self._task_options_base,\n            task_options_override=new_task_options_update,\n            export_options=set(self._export_options),\n        )", "            compat=self.compat,\n            script=self.script,\n            source=self.source,\n            hash_includes=self._hash_includes,\n            task_options_base=self._task_options_base,\n            task_options_override=new_task_options_update,\n            export_options=set(self._export_options),\n        )", "C17.2"),
        m("base-options-hashed", T, "        if self._task_options_override:\n            task_options_hash = [get_type_registry().get_hash(self._task_options_override)]", "        if self._task_options_override:\n            task_options_hash = [get_type_registry().get_hash({**self._task_options_base, **self._task_options_override})]", "C17.1"),
        m("includes-unsorted", T, "            hash_includes_hash = sorted(map(get_type_registry().get_hash, self._hash_includes))", "            hash_includes_hash = list(map(get_type_registry().get_hash, self._hash_includes))", "C17.1"),
        m("wrapper-forgets-inner", T, "                hash_includes=wrapper_hash_includes + wrapped_hash_data,", "                hash_includes=wrapper_hash_includes,", "C17.4"),
        m("async-def-not-trimmed", U, '        if re.match(r"^[ \\t]*(async[ \\t]+)?def[ \\t]", line):', '        if re.match(r"^[ \\t]*def[ \\t]", line):', "C17.5"),
        m("tab-indent-not-trimmed", U, '        if re.match(r"^[ \\t]*(async[ \\t]+)?def[ \\t]", line):', '        if re.match(r"^ *(async +)?def ", line):', "C17.5"),
        m("partial-ignores-args", T, "                hash_arguments(get_type_registry(), self.args, self.kwargs),", "                hash_arguments(get_type_registry(), (), {}),", "C17.4"),
        m("setter-without-rehash", T, "    def is_async(self) -> bool:", "    def set_version(self, version):\n        self.version = version\n\n    def is_async(self) -> bool:", "C17.3"),
    ],
    "C18": [
        m("options-filtered-before-hash", E, "        options_hash = hash_bytes(pickle_dumps(self._options))\n        export_options_hash = hash_struct(list(sorted(self._export_options)))\n        if not self._export_options:", "        options_hash = hash_bytes(pickle_dumps({k: v for k, v in self._options.items() if v is not None}))\n        export_options_hash = hash_struct(list(sorted(self._export_options)))\n        if not self._export_options:", "C18.1"),
        m("scheduler-expr-ignores-options", E, "        if not self._options and not self._export_options:\n            # Backwards compatible hash.\n            return hash_struct([\"SchedulerExpression\", self.task_name, args_hash])\n        else:", "        if True:\n            return hash_struct([\"SchedulerExpression\", self.task_name, args_hash])\n        else:", "C18.1"),
        m("simple-expr-ignores-func", E, "        return hash_struct([\"SimpleExpression\", self.func_name, args_hash])", "        return hash_struct([\"SimpleExpression\", args_hash])", "C18.1"),
        m("wrong-tag", E, "        return hash_struct([\"ValueExpression\", value_hash])", "        return hash_struct([\"SimpleExpression\", value_hash])", "C18.1"),
        m("setstate-keeps-hash", E, "    def __setstate__(self, state: dict) -> None:\n        self._hash = None\n        self._upstreams = []", "    def __setstate__(self, state: dict) -> None:\n        self._upstreams = []", "C18"),
        m("setstate-misses-options", E, "        self._options = state.get(\"task_options\", {})\n", "", "C18.2"),
        m("call_hash-survives-pickle", E, "        # This bookkeeping always resets when read from cache (deserializing).\n        self.call_hash = None\n\n        # Reset book-keeping when deserializing.\n        self.call_hash = None", "        pass", "C18"),
    ],
    "C19": [
        m("frozenset-mapped-only", U, "    elif value_type is set:\n        return {map_nested_value(func, item) for item in value}", "    elif value_type is set or value_type is frozenset:\n        return {map_nested_value(func, item) for item in value}", "C19.1"),
        m("dict-keys-not-iterated", U, "        for key in value.keys():\n            yield False, key\n", "", "C19.1"),
        m("noninit-fields-dropped", U, "        for field in dataclasses.fields(value):\n            if not field.init:\n                # This syntax is frozen dataclass compatible.\n                object.__setattr__(\n                    mapped_value, field.name, map_nested_value(func, getattr(value, field.name))\n                )\n", "", "C19.1"),
        m("plain-setattr-on-frozen", U, "                object.__setattr__(\n                    mapped_value, field.name,", "                setattr(\n                    mapped_value, field.name,", "C19.4"),
        m("tuple-becomes-list", U, "        return tuple([map_nested_value(func, item) for item in value])", "        return [map_nested_value(func, item) for item in value]", "C19.2"),
        m("evaluate-iterates-original", S, "            arg for arg in iter_nested_value(pending_expr) if isinstance(arg, Promise)", "            arg for arg in iter_nested_value(expr) if isinstance(arg, Promise)", "C19.3"),
    ],
    "C20": [
        m("reject-always-rerecords", S, "                if job.call_hash:\n                    # The failed call was already recorded", "                if False:\n                    # The failed call was already recorded", "C20.6"),
        m("call_hash-copied-early", S, "        def then(result: Any) -> None:\n            self.call_hash = other_job.call_hash\n", "        self.call_hash = other_job.call_hash\n\n        def then(result: Any) -> None:\n", "C20.7"),
        m("row-stores-other-hash", D, "                        value_hash=result_hash,\n                    )\n                )\n\n                # Record CallEdges", "                        value_hash=args_hash,\n                    )\n                )\n\n                # Record CallEdges", "C20.1"),
        m("second-callnode-hash-site", S, "                job.call_hash = hash_call_node(\n                    job.task.hash, job.args_hash, result_hash, child_call_hashes\n                )", "                job.call_hash = hash_struct([\"CallNode\", job.task.hash, job.args_hash, result_hash, child_call_hashes])", "C20"),
        m("reject-uses-expr-args-as-eval", S, "                        eval_args=job.eval_args,\n                        result_hash=error_hash,", "                        eval_args=(job.expr.args, job.expr.kwargs),\n                        result_hash=error_hash,", "C20.3"),
        m("job-tag-on-execution-id", S, "            self.backend.record_tags(entity_type=TagEntity.Job, entity_id=job.id, tags=job_tags)", "            self.backend.record_tags(entity_type=TagEntity.Job, entity_id=job.execution.id, tags=job_tags)", "C20.4"),
        m("root-job-for-every-job", D, "            if not job.parent_job:\n                # Record top-level job for the execution. The pending", "            if True:\n                # Record top-level job for the execution. The pending", "C20.5"),
    ],
    "C21": [
        m("dedup-copies-call_hash-for-scheduler-expr", S, "                if isinstance(expr2, SchedulerExpression):\n                    # Upstreams of scheduler expressions are found through their arguments\n                    # (see `RedunBackendDb._find_arg_upstreams()`), not their call_hash.\n                    expr._upstreams = expr2._upstreams\n                elif isinstance(expr2, TaskExpression):", "                if isinstance(expr2, TaskExpression):", "C21.1"),
        m("call_hash-not-published", S, "        if self.recording_provenance():\n            # Only record expression call_hash if this job did provence recording.\n            self.expr.call_hash = self.call_hash  # ty: ignore[invalid-assignment]\n        self.result_promise.do_resolve(result)", "        self.result_promise.do_resolve(result)", "C21.2"),
        m("defaults-as-positional", D, "            (None, key, eval_kwargs[key], eval_kwargs[key])", "            (0, None, eval_kwargs[key], eval_kwargs[key])", "C21.3"),
        m("arg-value-from-expr", D, "                value_hash = self.record_value(eval_arg)", "                value_hash = self.record_value(expr_arg)", "C21.3"),
    ],
    "C22": [
        m("pop-before-commit", D, "                current_execution = self._executions[job.execution.id]\n", "                current_execution = self._executions.pop(job.execution.id)\n", "C22.2"),
        m("no-rollback-before-retry", D, "                assert self.session\n                self.session.rollback()\n\n                self._db_retries_attempt += 1", "                assert self.session\n\n                self._db_retries_attempt += 1", "C22.3"),
        m("undecorated-writer", D, "    @db_retry\n    @use_acquire\n    def record_job_end(", "    @use_acquire\n    def record_job_end(", "C22.4"),
        m("guarded-two-phase-eval-cache", D, "            eval_row = session.query(Evaluation).filter_by(eval_hash=eval_hash).one_or_none()\n            if eval_row:\n                if eval_row.value_hash != value_hash:\n                    eval_row.value_hash = value_hash\n                    session.commit()\n            else:\n                try:\n                    session.add(", "            eval_row = session.query(Evaluation).filter_by(eval_hash=eval_hash).one_or_none()\n            if eval_row:\n                if eval_row.value_hash != value_hash:\n                    eval_row.value_hash = value_hash\n                    session.commit()\n            else:\n                try:\n                    session.add(Evaluation(eval_hash=eval_hash, task_hash=task_hash, args_hash=args_hash, value_hash=value_hash))\n                    session.commit()\n                    session.add(Tag(tag_hash=eval_hash, entity_id=eval_hash, key=\"k\", value=1))\n                    session.commit()\n                    session.add(", "C22.1"),
    ],
    "C23": [
        m("new-column-not-deserialized", SER, "            \"task_name\": call_node.task_name,\n", "", "C23.1"),
        m("job-sibling-key-missing", SER, "                \"cached\": job.cached,\n                \"status\": job.calc_status(job_id2result_type[job.id]),", "                \"status\": job.calc_status(job_id2result_type[job.id]),", "C23.1"),
        m("walk-skips-result-value", D, "        yield \"CallNode.task\", Task, task_hash\n        yield \"CallNode.result\", Value, value_hash", "        yield \"CallNode.task\", Task, task_hash", None),
        m("put-records-unfiltered", D, "            if record_id not in existing_ids:\n                new_records.append(record)\n                existing_ids.add(record_id)", "            if True:\n                new_records.append(record)", "C23.4"),
        m("reader-guard-removed", D, "            if call_node2task_hashes[call_node.call_hash]\n            and call_node2task_hashes", "            if call_node2task_hashes", "C23.2"),
        m("walker-forgets-subvalues", D, "    for (subvalue_id,) in filter_in(\n        session.query(Subvalue.value_hash), Subvalue.parent_value_hash, ids\n    ):\n        yield \"Value.subvalue\", Value, subvalue_id", "    return\n    yield", "C23.3"),
    ],
    "C24": [
        m("parents-not-hashed", H, "    return hash_struct([\"Tag\", entity_id, key, json_dumps(value), parents])", "    return hash_struct([\"Tag\", entity_id, key, json_dumps(value)])", "C24.1"),
        m("edits-from-unsorted-copy", D, "            TagEdit(parent_id=parent, child_id=tag.tag_hash)\n            for tag in tag_rows\n            for parent in parents", "            TagEdit(parent_id=parent, child_id=tag.tag_hash)\n            for tag in tag_rows\n            for parent in keys_parents", None),
        m("resurrect-tag", D, "            .update({Tag.is_current: False}, synchronize_session=False)", "            .update({Tag.is_current: True}, synchronize_session=False)", "C24.2"),
        m("update-as-add", CLI, "            backend.record_tags(entity_type, full_id, key_values, update=True)", "            backend.record_tags(entity_type, full_id, key_values, new=True)", "C24.3"),
        m("update-ignores-keys", D, "                Tag.entity_id == entity_id,\n                Tag.key.in_(keys),\n            )\n            parents = list(parents)", "                Tag.entity_id == entity_id,\n            )\n            parents = list(parents)", "C24.3"),
    ],
    "C25": [
        m("preprocess-without-advance", S, "            if isinstance(value, Handle):\n                assert value2 != value\n                self.backend.advance_handle([value], value2)\n\n            return value2\n\n        return map_nested_value(preprocess_value, (args, kwargs))", "            return value2\n\n        return map_nested_value(preprocess_value, (args, kwargs))", "C25.1"),
        m("rollback-after-consume", S, "            # Perform rollbacks due to Handles that conflict with past Handles.\n            self._perform_rollbacks(args, kwargs)\n", "", "C25.2"),
        m("rollback-only-args", S, "        for value in iter_nested_value((args, kwargs)):\n            if isinstance(value, Handle):\n                self.backend.rollback_handle(value)", "        for value in iter_nested_value(args):\n            if isinstance(value, Handle):\n                self.backend.rollback_handle(value)", "C25.2"),
        m("advance-creates-invalid", D, "                \"value_hash\": self.record_value(child_handle),\n            },\n            {\"is_valid\": True},", "                \"value_hash\": self.record_value(child_handle),\n            },\n            {\"is_valid\": False},", "C25.3"),
        m("rollback-one-level", D, "            invalid_hashes.add(handle_hash)\n            queue.extend(lookups[handle_hash])", "            invalid_hashes.add(handle_hash)", "C25.3"),
    ],
    "C26": [
        m("parent-wins", S, "            self._context = merge_dicts([parent_context, context_override])", "            self._context = merge_dicts([context_override, parent_context])", "C26.1"),
        m("config-wins-over-run-arg", S, "            execution_id, context=merge_dicts([self._context, context])", "            execution_id, context=merge_dicts([context, self._context])", "C26.1"),
        m("first-wins", U, "        # For non-dicts, last value takes precedence.\n        return dicts[-1]", "        # For non-dicts, last value takes precedence.\n        return dicts[0]", "C26.2"),
        m("subscript-before-dict-test", "redun/context.py", "            if not isinstance(value, dict):\n                return default\n            value = value[part]", "            value = value[part]\n            if not isinstance(value, dict):\n                return default", "C26.3"),
        m("keyerror-propagates", "redun/context.py", "    except KeyError:\n        return default", "    except IndexError:\n        return default", "C26.3"),
    ],
    "C27": [
        m("definition-over-call-time", S, "            **self.task.get_task_options(),\n            **parent_job_options,\n            **self.expr._options,  # ty: ignore[unresolved-attribute]\n            **self.options,", "            **parent_job_options,\n            **self.expr._options,  # ty: ignore[unresolved-attribute]\n            **self.task.get_task_options(),\n            **self.options,", "C27.1"),
        m("override-under-base", T, "            **self._task_options_base,\n            **self._task_options_override,\n        }", "            **self._task_options_override,\n            **self._task_options_base,\n        }", "C27.1"),
        m("cache-off-unconditionally", S, "                    if not job.recording_provenance():\n                        job.eval_options[\"cache_scope\"] = CacheScope.NONE", "                    if True:\n                        job.eval_options[\"cache_scope\"] = CacheScope.NONE", "C27.2"),
        m("exports-not-inherited", S, "        if parent_job:\n            self.export_options |= parent_job.export_options", "        if parent_job:\n            pass", "C27.3"),
        m("exec-without-options", S, "                promise = Promise.all([args_promise, default_kwargs_promise]).then(args_then)", "                promise = Promise.all([args_promise, self.evaluate(get_arg_defaults(job.task, expr.args, expr.kwargs), parent_job=parent_job)]).then(args_then)", "C27.4"),
    ],
    "C28": [
        m("submit-before-dryrun-guard", S, "        # Stop short of submitting jobs during a _dryrun.\n        if self._dryrun:\n            return\n", "", "C28.1"),
        m("rollbacks-in-dryrun", S, "        if not self._dryrun:\n            # Perform rollbacks due to Handles that conflict with past Handles.\n            self._perform_rollbacks(args, kwargs)\n", "        self._perform_rollbacks(args, kwargs)\n        if not self._dryrun:\n", "C28.1"),
        m("foreign-submit", S, "    def add_job_tags(self, job: Job, tags: list[tuple[str, Any]]) -> None:", "    def resubmit(self, job: Job) -> None:\n        self.executors[\"default\"].submit(job)\n\n    def add_job_tags(self, job: Job, tags: list[tuple[str, Any]]) -> None:", "C28.2"),
        m("subrun-forgets-dryrun", S, "        \"dryrun\": scheduler._dryrun,\n        \"cache\": scheduler._use_cache,\n        \"context\"", "        \"dryrun\": False,\n        \"cache\": scheduler._use_cache,\n        \"context\"", "C28.3"),
        m("pending-not-reported", S, "        elif result.is_pending and self._dryrun:\n            self.log(\"Dryrun: Additional jobs would run.\")\n            raise DryRunResult()", "        elif result.is_pending and self._dryrun:\n            self.log(\"Dryrun: Additional jobs would run.\")\n            return None", "C28.3"),
    ],
    "C29": [
        m("eof-substring-test", SCR, "        if eof in lines:", "        if eof in command:", None),
        m("eof-returned-unchecked", SCR, "    while True:\n        if eof in lines:\n            index += 1\n            eof = eof_prefix + str(index)\n        else:\n            return eof", "    if eof in lines:\n        index += 1\n        eof = eof_prefix + str(index)\n    return eof", "C29.1"),
        m("unquoted-heredoc", SCR, "cat > \"$COMMAND_FILE\" <<\"{eof}\"", "cat > \"$COMMAND_FILE\" <<{eof}", "C29.1"),
        m("unstage-before-command", SCR, "    command_parts.append(get_wrapped_command(prepare_command(command)))\n\n    # Unstage outputs.\n    file_stages = [value for value in iter_nested_value(outputs) if isinstance(value, Staging)]\n    command_parts.extend(file_stage.render_unstage(as_mount) for file_stage in file_stages)", "    # Unstage outputs.\n    file_stages = [value for value in iter_nested_value(outputs) if isinstance(value, Staging)]\n    command_parts.extend(file_stage.render_unstage(as_mount) for file_stage in file_stages)\n    command_parts.append(get_wrapped_command(prepare_command(command)))", "C29.2"),
        m("shebang-ignored", SCR, "    if not command.startswith(\"#!\"):\n        command = default_shell", "    if True:\n        command = default_shell", "C29.4"),
        m("staging-kept-in-result", SCR, "        elif isinstance(value, Staging):\n            # Staging files and dir turn into their remote versions.\n            cls = type(value.remote)\n            return cls(value.remote.path)\n        else:\n            return value\n\n    if temp_path:", "        else:\n            return value\n\n    if temp_path:", "C29.3"),
    ],
    "C30": [
        m("dir-copy-stale", F, "        # The contents of the destination directory have changed.\n        dest_dir.update_hash()\n", "", "C30.1"),
        m("file-copy-stale", F, "        dest_file.update_hash()\n        return dest_file", "        return dest_file", "C30"),
        m("mkdir-stale", F, "        self.filesystem.mkdir(self.path)\n        self.update_hash()", "        self.filesystem.mkdir(self.path)", "C30.1"),
        m("append-mode-no-rehash", F, "        if set(mode) & {\"w\", \"a\", \"x\", \"+\"}:", "        if set(mode) & {\"w\", \"x\", \"+\"}:", "C30.3"),
        m("local-hash-unguarded", F, "        if self.exists(path):\n            stat = os.stat(path)\n            mtime = stat.st_mtime\n            size = stat.st_size\n        else:\n            mtime = -1\n            size = -1", "        stat = os.stat(path)\n        mtime = stat.st_mtime\n        size = stat.st_size", "C30.2"),
        m("contentfile-uses-mtime", F, "                content_hash = hash_stream(infile)\n        else:", "                content_hash = str(os.stat(self.path).st_mtime)\n        else:", "C30.4"),
        m("is_valid-always-true", F, "            return True\n        else:\n            return self.hash == self._calc_hash()\n\n    def stage(self, local: Optional[str] = None) -> \"StagingFile\":", "            return True\n        else:\n            return True\n\n    def stage(self, local: Optional[str] = None) -> \"StagingFile\":", "C30.5"),
    ],
    "C31": [
        m("size-check-after-store", D, "        if len(data) > self._max_value_size:\n            raise RedunDatabaseError(", "        if False and len(data) > self._max_value_size:\n            raise RedunDatabaseError(", "C31.1"),
        m("truncate", D, "        value_hash = value_interface.get_hash(data=data)\n        value_format", "        value_hash = value_interface.get_hash(data=data)\n        data = data[: self._max_value_size]\n        value_format", "C31.1"),
        m("has_value-ignored", D, "        data, has_value = self._get_value_data(value_row)\n        if not has_value:\n            return None, False\n        return self._deserialize_value(value_row.type, data)", "        data, has_value = self._get_value_data(value_row)\n        return self._deserialize_value(value_row.type, data)", "C31.2"),
        m("placeholder-always", D, "            self.value_store.put(value_hash, data)\n            # Store an empty placeholder", "            pass\n            # Store an empty placeholder", "C31.3"),
        m("hash-after-placeholder", D, "        value_hash = value_interface.get_hash(data=data)\n        value_format = value_interface.get_serialization_format()\n\n        if self.value_store and sys.getsizeof(data) >= self.value_store_min_size:\n            # If defined, store binary data in ValueStore instead of db.\n            self.value_store.put(value_hash, data)", "        value_format = value_interface.get_serialization_format()\n        value_hash = value_interface.get_hash(data=data)\n\n        if self.value_store and sys.getsizeof(data) >= self.value_store_min_size:\n            # If defined, store binary data in ValueStore instead of db.\n            self.value_store.put(\"x\" + value_hash, data)", "C31.3"),
        m("missing-store-file-empty-bytes", "redun/backends/value_store.py", "        except FileNotFoundError:\n            return b\"\", False", "        except FileNotFoundError:\n            return b\"\", True", "C31.4"),
    ],
    "C32": [
        m("outputs-sorted", "redun/executors/scratch.py", "    output_paths = [get_job_scratch_file(scratch_prefix, job, SCRATCH_OUTPUT) for job in jobs]", "    output_paths = sorted(get_job_scratch_file(scratch_prefix, job, SCRATCH_OUTPUT) for job in jobs)", "C32.1"),
        m("errors-filtered", "redun/executors/scratch.py", "    error_paths = [get_job_scratch_file(scratch_prefix, job, SCRATCH_ERROR) for job in jobs]", "    error_paths = [get_job_scratch_file(scratch_prefix, job, SCRATCH_ERROR) for job in jobs if job.args]", "C32.1"),
        m("kwargs-wrong-index", CLI, "                        task_kwargs = task_kwargs[array_job_index]", "                        task_kwargs = task_kwargs[0]", "C32.2"),
        m("reunite-by-job-id", "redun/executors/aws_batch.py", "                job_hash = get_hash_from_job_name(name)\n", "                job_hash = name\n", "C32.3"),
        m("regex-first-dash", "redun/executors/aws_batch.py", "    match = re.match(\".*-(?P<hash>[^-]+)\", job_name)", "    match = re.match(\".*?-(?P<hash>.+)\", job_name)", "C32.3"),
        m("scratch-by-job-id", "redun/executors/scratch.py", "    return os.path.join(scratch_prefix, \"jobs\", job.eval_hash, filename)", "    return os.path.join(scratch_prefix, \"jobs\", job.id, filename)", "C32.4"),
    ],
    "C33": [
        m("cached-matches-failed", Q, "            return Job.cached.is_(True) & (Value.type != REDUN_ERROR_TYPE_NAME)", "            return Job.cached.is_(True)", "C33"),
        m("done-includes-cached", Q, "            return Job.cached.is_(False) & (Value.type != REDUN_ERROR_TYPE_NAME)", "            return Value.type != REDUN_ERROR_TYPE_NAME", "C33.1"),
        m("display-cached-before-error", D, "        if result_type == \"redun.ErrorValue\":\n            self._status = \"FAILED\"\n        elif not self.end_time:\n            self._status = \"RUNNING\"\n        elif self.cached:\n            self._status = \"CACHED\"", "        if self.cached:\n            self._status = \"CACHED\"\n        elif result_type == \"redun.ErrorValue\":\n            self._status = \"FAILED\"\n        elif not self.end_time:\n            self._status = \"RUNNING\"", "C33"),
        m("running-filter-by-end-time-only", Q, "            return Job.end_time.is_(None) & Job.call_hash.is_(None)", "            return Job.call_hash.isnot(None) & Job.end_time.is_(None)", "C33.1"),
        m("error-type-renamed", S, "class ErrorValue(Value):\n    \"\"\"\n    Value for wrapping Exceptions raised by Task.\n    \"\"\"\n\n    type_name = \"redun.ErrorValue\"", "class ErrorValue(Value):\n    \"\"\"\n    Value for wrapping Exceptions raised by Task.\n    \"\"\"\n\n    type_name = \"redun.Error\"", "C33.3"),
        m("exec-done-not-widened", Q, "        if \"DONE\" in job_statuses:\n            job_statuses.append(\"CACHED\")", "        if \"DONE\" in job_statuses:\n            pass", "C33.2"),
    ],
    "C34": [
        m("parse-error-escapes", "redun/tags.py", "        except (ValueError, RecursionError):\n", "        except KeyError:\n", "C34.1"),
        m("recursion-error-escapes", "redun/tags.py", "        except (ValueError, RecursionError):\n", "        except ValueError:\n", "C34.1"),
        m("raw-guard-weakened-to-isinstance", "redun/tags.py", "            if parse_tag_value(value) == value:", "            if isinstance(parse_tag_value(value), str):", "C34.2"),
        m("raw-without-reparse-test", "redun/tags.py", "            if parse_tag_value(value) == value:", "            if True:", "C34.2"),
        m("float-before-int", "redun/tags.py", "    try:\n        return int(value_str)\n    except ValueError:\n        pass\n\n    try:\n        return float(value_str)\n    except ValueError:\n        pass", "    try:\n        return float(value_str)\n    except ValueError:\n        pass\n\n    try:\n        return int(value_str)\n    except ValueError:\n        pass", "C34.3"),
        m("float-gated-by-narrow-regex", "redun/tags.py", "    try:\n        return float(value_str)\n    except ValueError:\n        pass", "    if re.fullmatch(r\"-?[0-9]+(\\.[0-9]+)?([eE]-?[0-9]+)?\", value_str):\n        try:\n            return float(value_str)\n        except ValueError:\n            pass", "C34.4"),
    ],
    "C35": [
        m("no-escape", CFGF, "                    k: escape_interpolation(substitute_config_dir(v)) for k, v in obj.items()", "                    k: substitute_config_dir(v) for k, v in obj.items()", "C35.1"),
        m("join-with-colon", CFGF, "                convert_to_dict(f\"{path}.{key}\" if path else key, obj[key])", "                convert_to_dict(f\"{path}:{key}\" if path else key, obj[key])", "C35.2"),
        m("substitute-always", CFGF, "            if replace_config_dir is not None and isinstance(s, str):", "            if isinstance(s, str):", "C35.3"),
    ],
    "C36": [
        m("drop-column-in-upgrade", "redun/backends/db/alembic/versions/0bee3d6dba76_add_updated_time_field.py", "        batch_op.add_column(sa.Column(\"updated_time\", DateTimeUTC(timezone=True), nullable=True))", "        batch_op.add_column(sa.Column(\"updated_time\", DateTimeUTC(timezone=True), nullable=True))\n        batch_op.drop_column(\"args\")", "C36.2"),
        m("chain-order-swapped", D, "    DBVersionInfo(\"eb7b95e4e8bf\", 3, 2, \"Remove length restriction on value type names.\"),\n    DBVersionInfo(\"f68b3aaee9cc\", 3, 3, \"Add job and value indexes.\"),", "    DBVersionInfo(\"f68b3aaee9cc\", 3, 2, \"Add job and value indexes.\"),\n    DBVersionInfo(\"eb7b95e4e8bf\", 3, 3, \"Remove length restriction on value type names.\"),", "C36.1"),
        m("model-column-without-migration", D, "    __tablename__ = \"evaluation\"\n", "    __tablename__ = \"evaluation\"\n    note = Column(String)\n", "C36.3"),
        m("delete-rows-in-upgrade", "redun/backends/db/alembic/versions/f68b3aaee9cc_add_job_and_value_indexes.py", "def upgrade():\n", "def upgrade():\n    op.execute(\"delete from evaluation where value_hash is null\")\n", "C36.2"),
    ],
    "C37": [
        m("add-without-count", T, "        self._tasks[task.fullname] = task\n        self._task_hash_counts[task.hash] += 1", "        self._tasks[task.fullname] = task", "C37.1"),
        m("redefine-without-decrement", T, "        old_task = self._tasks.pop(task.fullname, None)\n        if old_task:\n            self._decrement_hash_count(old_task)\n", "        old_task = self._tasks.pop(task.fullname, None)\n", "C37.1"),
        m("foreign-registry-write", S, "        self.task_registry = get_task_registry()\n", "        self.task_registry = get_task_registry()\n        self.task_registry._task_hash_counts.clear()\n", "C37.2"),
        m("rehash-before-decrement", T, "            task = self._tasks.pop(old_name)\n            self._decrement_hash_count(task)\n\n        task.namespace = new_namespace\n        task.name = new_name", "            task = self._tasks.pop(old_name)\n            task.namespace = new_namespace\n            task.name = new_name\n            task.recompute_hash()\n            self._decrement_hash_count(task)\n\n        task.namespace = new_namespace\n        task.name = new_name", "C37.3"),
        m("visible-name-after-rename", T, "            visible_name = hidden_inner_task.name\n            visible_namespace = hidden_inner_task.namespace\n", "", None),
    ],
    "C38": [
        m("single-allowed", S, "        \"allowed_cache_results\": {CacheResult.CSE, CacheResult.ULTIMATE},", "        \"allowed_cache_results\": {CacheResult.CSE, CacheResult.ULTIMATE, CacheResult.SINGLE},", "C38.1"),
        m("wrong-parent-id", S, "        result = sub_scheduler.extend_run(expr_eval, parent_job_id=job_info.job_id, **run_config)", "        result = sub_scheduler.extend_run(expr_eval, parent_job_id=job_info.execution_id, **run_config)", "C38.2"),
        m("error-swallowed", S, "        elif \"error\" in subrun_result:\n            # Reraise the error.\n            raise subrun_result[\"error\"]", "        elif \"error\" in subrun_result:\n            return None", "C38.3"),
        m("shared-expressions", S, "        expr_eval = pickle_loads(pickle_dumps(expr_eval))\n", "", "C38.2"),
    ],
    "C10": [
        m("new-executor-unlocked", "redun/executors/alias.py", "@register_executor(\"alias\")\nclass AliasExecutor(Executor):", "import threading\n\n\nclass PollingExecutor(Executor):\n    def __init__(self):\n        self.is_running = False\n        self.pending = {}\n        self._thread = None\n\n    def _start(self):\n        if not self.is_running:\n            self.is_running = True\n            self._thread = threading.Thread(target=self._monitor)\n            self._thread.start()\n\n    def _monitor(self):\n        try:\n            while self.is_running and self.pending:\n                pass\n        except Exception as error:\n            self._scheduler.reject_job(None, error)\n        self.is_running = False\n\n\n@register_executor(\"alias\")\nclass AliasExecutor(Executor):", None),
    ],
}


def _add(prop, *ms):
    MUTANTS.setdefault(prop, []).extend(ms)


# ---- mutants for the rules added after the second seeding round ----
_add(
    "C16",
    m("set-hash-honours-data", V, "        # Sort the set to ensure stable serialization and hashing.\n        bytes = pickle_dumps(sorted(self.instance))\n\n        # Use a unique tag to distinguish from hashing a list.\n        return hash_tag_bytes(\"Value.set\", bytes)", "        if data is None:\n            data = pickle_dumps(sorted(self.instance))\n        return hash_tag_bytes(\"Value.set\", data)", "C16.4"),
    m("filecache-hash-from-reference", V, "        return super().get_hash()\n\n    def _serialize(self) -> bytes:", "        return super().get_hash(data)\n\n    def _serialize(self) -> bytes:", "C16.4"),
)
_add(
    "C21",
    m("simple-setstate-drops-upstreams", E, "        self.kwargs = registry.deserialize(\"builtins.dict\", state[\"kwargs\"])\n        self._upstreams = [self.args, self.kwargs]\n\n    def is_valid", "        self.kwargs = registry.deserialize(\"builtins.dict\", state[\"kwargs\"])\n\n    def is_valid", "C21.4"),
    m("task-setstate-upstreams-args-only", E, "        self._upstreams = [self.args, self.kwargs]\n        self._length = state.get(\"length\", None)", "        self._upstreams = [self.args]\n        self._length = state.get(\"length\", None)", "C21.4"),
)
_add(
    "C23",
    m("walker-inner-join", D, "    ).outerjoin(ArgumentResult)\n    seen_args = set()", "    ).join(ArgumentResult)\n    seen_args = set()", "C23.5"),
    m("walker-limits-subvalues", D, "        session.query(Subvalue.value_hash), Subvalue.parent_value_hash, ids\n    ):", "        session.query(Subvalue.value_hash).limit(1000), Subvalue.parent_value_hash, ids\n    ):", "C23.5"),
    m("walker-conditional-yield", D, "    for (child_id,) in filter_in(session.query(CallEdge.child_id), CallEdge.parent_id, ids):\n        yield \"CallNode.child_call_node\", CallNode, child_id", "    for (child_id,) in filter_in(session.query(CallEdge.child_id), CallEdge.parent_id, ids):\n        if child_id not in ids:\n            yield \"CallNode.child_call_node\", CallNode, child_id", "C23.5"),
)
_add(
    "C26",
    m("jobenv-eq-by-job", S, "    def get_context(self) -> dict:\n        return self._env_context\n", "    def get_context(self) -> dict:\n        return self._env_context\n\n    def __eq__(self, other):\n        return getattr(other, \"job\", other) is self.job\n\n    def __hash__(self):\n        return id(self.job)\n", "C26.5"),
    m("pending-expr-keyed-by-real-job", S, "        self._pending_expr[parent_job][expr.get_hash()] = (promise, expr)", "        self._pending_expr[getattr(parent_job, \"job\", parent_job)][expr.get_hash()] = (promise, expr)", "C26.5"),
)
_add(
    "C27",
    m("export-own-names-only-when-present", S, "        if parent_job:\n            self.export_options |= parent_job.export_options", "        if parent_job and not self.export_options:\n            self.export_options |= parent_job.export_options", "C27.3"),
    m("export-intersection", S, "            self.export_options |= parent_job.export_options", "            self.export_options &= parent_job.export_options", "C27.3"),
)
_add(
    "C28",
    m("dryrun-cache-scope", S, "        allowed_cache_results = job.get_option(\"allowed_cache_results\", None)\n        assert allowed_cache_results is None", "        if self._dryrun:\n            cache_scope = CacheScope.BACKEND\n        allowed_cache_results = job.get_option(\"allowed_cache_results\", None)\n        assert allowed_cache_results is None", "C28.4"),
    m("dryrun-skips-validity", S, "        elif self._is_valid_value(result):\n            # Result must still be valid to use.", "        elif self._dryrun or self._is_valid_value(result):\n            # Result must still be valid to use.", "C28.4"),
)
_add(
    "C10",
    m("num-pending-decrement-hoisted", JA, "            jobs = self.pending.pop(descr)\n            timestamp = self.pending_timestamps.pop(descr)\n", "            jobs = self.pending.pop(descr)\n            timestamp = self.pending_timestamps.pop(descr)\n            self.num_pending -= len(jobs)\n", "C10.4"),
)
_add(
    "C11",
    m("remainder-off-by-one", JA, "            remainder = jobs[self.max_array_size :]", "            remainder = jobs[self.max_array_size + 1 :]", "C11.2"),
    m("batch-then-singles", JA, "        else:\n            self._submit_jobs(jobs)\n\n        with self._lock:\n            self.num_pending -= len(jobs)", "        else:\n            self._submit_jobs(jobs)\n            self._submit_jobs(jobs[:1])\n\n        with self._lock:\n            self.num_pending -= len(jobs)", "C11.2"),
)
_add(
    "C22",
    m("rollback-handle-uncommitted", D, "        # Make the invalidation durable now. Left pending, it would be discarded by the rollback\n        # that `db_retry` performs when a later backend call hits a transient error.\n        self.session.commit()\n", "", "C22.5"),
    m("job-start-commit-only-for-root", D, "            self.session.add(db_job)\n            self.session.commit()", "            self.session.add(db_job)\n            if not job.parent_job:\n                self.session.commit()", "C22.5"),
)
_add(
    "C30",
    m("stat-catches-filenotfound-only", F, "        if self.exists(path):\n            stat = os.stat(path)\n            mtime = stat.st_mtime\n            size = stat.st_size\n        else:\n            mtime = -1\n            size = -1", "        try:\n            stat = os.stat(path)\n            mtime = stat.st_mtime\n            size = stat.st_size\n        except FileNotFoundError:\n            mtime = -1\n            size = -1", "C30.2"),
)
_add(
    "C31",
    m("existing-row-returns-before-offload", D, "        value_format = value_interface.get_serialization_format()\n\n        if self.value_store and", "        value_format = value_interface.get_serialization_format()\n\n        if self.session.get(Value, value_hash) is not None:\n            return value_hash\n\n        if self.value_store and", "C31.5"),
)
_add(
    "C32",
    m("remove-only-when-cached-mode", CLI, "            if output_path:\n                output_file = BaseFile(output_path)\n                if not args.no_cache and output_file.exists():", "            if output_path and not args.no_cache:\n                output_file = BaseFile(output_path)\n                if output_file.exists():", "C32.5"),
    m("remove-dropped", CLI, "                # Remove previous output if it exists to avoid reporting stale information.\n                output_file.remove()\n", "", "C32.5"),
)
_add(
    "C33",
    m("failed-term-named-and-narrowed", Q, "        elif status == \"FAILED\":\n            return Value.type == REDUN_ERROR_TYPE_NAME", "        elif status == \"FAILED\":\n            is_error = Value.type == REDUN_ERROR_TYPE_NAME\n            fresh = Job.cached.is_(False)\n            return fresh & is_error", "C33.1"),
)
_add(
    "C36",
    m("backfill-merge", "redun/backends/db/alembic/versions/30ffbaee18cd_add_task_version_and_backfill_companion_values.py", "        session.add(\n            db.Value(", "        session.merge(\n            db.Value(", "C36.2"),
)
_add(
    "C37",
    m("rename-moves-key-directly", T, "        task.namespace = new_namespace\n        task.name = new_name\n        self.add(task)\n        return task", "        task.namespace = new_namespace\n        task.name = new_name\n        self._tasks[task.fullname] = task\n        self._task_hash_counts[task.hash] += 1\n        return task", "C37.1"),
)
_add(
    "C38",
    m("new-execution-drops-cache-setting", S, "        result = sub_scheduler.run(expr_eval, execution_id=execution_id, **run_config)", "        result = sub_scheduler.run(expr_eval, execution_id=execution_id, dryrun=run_config[\"dryrun\"], context=run_config[\"context\"])", "C38.4"),
    m("run-config-cache-constant", S, "        \"cache\": scheduler._use_cache,", "        \"cache\": True,", "C38.4"),
)
_add(
    "C22",
    m("nested-retry-guard-removed", D, "        if thread_id in active:\n            return func(self, *args, **kwargs)\n", "", "C22.6"),
    m("nested-retry-guard-after-loop-setup", D, "        active.add(thread_id)\n        try:\n            return retry(self, *args, **kwargs)\n        finally:\n            active.discard(thread_id)", "        return retry(self, *args, **kwargs)", "C22.6"),
)
_add(
    "C25",
    m("fork-edge-dropped", D, "        for fork_parent, fork in fork_edges:\n            get_or_create(\n                self.session,\n                HandleEdge,\n                {\n                    \"parent_id\": fork_parent.__handle__.hash,\n                    \"child_id\": fork.__handle__.hash,\n                },\n            )\n", "", "C25.3"),
)
_add(
    "C27",
    m("options-clone-drops-exports", T, "            task_options_override=new_task_options_update,\n            export_options=set(self._export_options),\n        )", "            task_options_override=new_task_options_update,\n        )", "C27.5"),
)
_add(
    "C30",
    m("contentdir-quick-hash", F, "        file_hashes = [file.hash for file in self]\n        return hash_struct([self.type_basename, self.path] + sorted(file_hashes))\n\n\nclass ContentStagingFile", "        file_hashes = self.filesystem.iter_file_hashes(self.path)\n        return hash_struct([self.type_basename, self.path] + sorted(file_hashes))\n\n\nclass ContentStagingFile", "C30.4"),
)
_add(
    "C33",
    m("console-join-on-call-hash", "redun/console/screens.py", "                .outerjoin(Value, CallNode.value_hash == Value.value_hash)\n                .filter(Job.parent_id == root_id)", "                .outerjoin(Value, CallNode.call_hash == Value.value_hash)\n                .filter(Job.parent_id == root_id)", "C33.4"),
    m("console-done-includes-cached", "redun/console/screens.py", "                    query = query.filter(\n                        Job.cached.is_(False) & (Value.type != REDUN_ERROR_TYPE_NAME)\n                    )", "                    query = query.filter(Value.type != REDUN_ERROR_TYPE_NAME)", "C33.4"),
)
_add(
    "C27",
    m("options-clone-shares-export-set", T, "            export_options=set(self._export_options),\n        )", "            export_options=self._export_options,\n        )", "C27.5"),
)
_add(
    "C09",
    m("clear-keeps-event-queue", S, "        while True:\n            try:\n                self.events_queue.get_nowait()\n            except queue.Empty:\n                break\n", "", "C09.6"),
    m("clear-keeps-limit-waiters", S, "        self._jobs_pending_limits.clear()\n        for limit_name in self.limits_used:", "        for limit_name in self.limits_used:", "C09.6"),
)
_add(
    "C03",
    m("cse-hit-uses-children", S, "            if check_valid == CacheCheckValid.FULL and not job.was_cse_hit:", "            if check_valid == CacheCheckValid.FULL:", "C03.4"),
    m("cse-marker-not-set", S, "            job.was_cse_hit = True\n            return result, True, call_hash", "            return result, True, call_hash", "C03.4"),
)
_add(
    "C12",
    m("dedup-errback-returns-error", S, "                copy_bookkeeping()\n                raise error\n", "                copy_bookkeeping()\n                return error\n", "C12.6"),
)
_add(
    "C05",
    m("context-hash-from-parent", S, "            job.context_hash = self.type_registry.get_hash(context)\n", "            job.context_hash = job.parent_job.context_hash if job.parent_job and job.parent_job.context_hash else self.type_registry.get_hash(context)\n", "C05.4"),
)
_add(
    "C04",
    m("partial-task-valid-ignores-args", T, "        return self.task.is_valid() and get_type_registry().is_valid_nested(\n            (self.args, self.kwargs)\n        )", "        return self.task.is_valid()", "C04.5"),
)
_add(
    "C20",
    m("collapse-onto-prov-false-twin", S, "        if pending_job and job.recording_provenance() and not pending_job.recording_provenance():\n            # A job that does not record provenance never gets a call node, so it has no\n            # call_hash that a provenance-recording duplicate could share.\n            return None\n", "", "C20.8"),
)
_add(
    "C20",
    m("ultimate-call-hash-before-load", D, "                result, is_cached = self.get_call_cache(cast(str, call_node2.call_hash))\n                if is_cached:", "                call_hash = cast(str, call_node2.call_hash)\n                result, is_cached = self.get_call_cache(call_hash)\n                if is_cached:", "C20.9"),
)
_add(
    "C22",
    m("is-recorded-before-commit", D, "            recorded.append(parent_handle)\n", "            parent_handle.__handle__.is_recorded = True\n", "C22.2"),
)
_add(
    "C23",
    m("call-order-with-gaps", D, "                for i, child_call_hash in enumerate(recorded_children):\n                    session.add(", "                for i, child_call_hash in enumerate(child_call_hashes):\n                    if child_call_hash in recorded_child_hashes:\n                      session.add(", "C23.6"),
    m("children-exported-unordered", SER, "                for edge in sorted(call_node.child_edges, key=lambda edge: edge.call_order)", "                for edge in call_node.child_edges", "C23.6"),
)
_add(
    "C26",
    m("default-returned-unevaluated", "redun/context.py", "        lambda context: scheduler.evaluate(\n            get_context_value(context, var_path, default), parent_job=parent_job\n        )", "        lambda context: get_context_value(context, var_path, default)", "C26.3"),
)
_add(
    "C26",
    m("update-context-reads-own-dict", T, "        prev_context = self.get_task_option(\"_context_override\", {})", "        prev_context = self._task_options_override.get(\"_context_override\", {})", "C26.4"),
)
_add(
    "C15",
    m("positional-only-default-by-keyword", S, "        elif param.kind == param.POSITIONAL_ONLY:\n            # A positional-only parameter cannot be passed by keyword. The function applies its\n            # own default.\n            continue\n\n", "", "C15.5"),
)
_add(
    "C23",
    m(
        "walker-dedup-continue-skips-upstreams",
        D,
        "        if arg_hash not in seen_args:\n            yield \"CallNode.arg\", Value, value_hash\n            seen_args.add(arg_hash)\n",
        "        if arg_hash in seen_args:\n            continue\n        seen_args.add(arg_hash)\n        yield \"CallNode.arg\", Value, value_hash\n",
        "C23.5",
    ),
)
_add(
    "C25",
    m(
        "fork-chain-stops-at-recorded-parent",
        D,
        "            if _handle.__handle__.fork_parent:\n                fork_edges.append((_handle.__handle__.fork_parent, _handle))\n                queue.append(_handle.__handle__.fork_parent)",
        "            fork_parent = _handle.__handle__.fork_parent\n            if fork_parent and not fork_parent.__handle__.is_recorded:\n                fork_edges.append((fork_parent, _handle))\n                queue.append(fork_parent)",
        "C25.3",
    ),
)
_add(
    "C29",
    m(
        "unstage-keyed-by-local-path",
        "redun/scripting.py",
        "    file_stages = [value for value in iter_nested_value(outputs) if isinstance(value, Staging)]\n    command_parts.extend(file_stage.render_unstage(as_mount) for file_stage in file_stages)",
        "    file_stages = {value.local.path: value for value in iter_nested_value(outputs) if isinstance(value, Staging)}\n    command_parts.extend(file_stage.render_unstage(as_mount) for file_stage in file_stages.values())",
        "C29.2",
    ),
)
_add(
    "C22",
    m(
        "own-subtree-row-before-args-commit",
        D,
        "                # Record CallEdges only if child was recorded (might not be if prov=False).\n                recorded_child_hashes = {",
        "                session.add(CallSubtreeTask(call_hash=call_hash, task_hash=task_hash))\n\n                # Record CallEdges only if child was recorded (might not be if prov=False).\n                recorded_child_hashes = {",
        "C22.7",
    ),
)
_add(
    "C32",
    m("no-cache-flag-only-for-scope-none", "redun/executors/command.py", "        if CacheScope(job_options.get(\"cache_scope\", CacheScope.BACKEND)) == CacheScope.BACKEND\n        else [\"--no-cache\"]", "        if CacheScope(job_options.get(\"cache_scope\", CacheScope.BACKEND)) != CacheScope.NONE\n        else [\"--no-cache\"]", "C32.6"),
    m("gcp-single-job-without-options", "redun/executors/gcp_batch.py", "                kwargs=kwargs,\n                job_options=task_options,\n", "                kwargs=kwargs,\n", "C32.6"),
    m("k8s-reunite-ignores-cache-scope", "redun/executors/k8s.py", "        if cache_scope == CacheScope.BACKEND and job.eval_hash in self.preexisting_k8s_jobs:", "        if job.eval_hash in self.preexisting_k8s_jobs:", "C32.6"),
    m("oneshot-existing-output-despite-no-cache", "redun/cli.py", "                if not args.no_cache and output_file.exists():", "                if output_file.exists():", "C32.6"),
)
_add(
    "C28",
    m(
        "dryrun-exit-before-executor-validation",
        S,
        "        # Determine executor.\n        executor_name = job.get_option(\"executor\") or \"default\"\n",
        "        if self._dryrun:\n            return\n\n        # Determine executor.\n        executor_name = job.get_option(\"executor\") or \"default\"\n",
        "C28.5",
    ),
)
_add(
    "C36",
    m(
        "backfill-walk-skips-rows-with-execution-id",
        "redun/backends/db/alembic/versions/cd2d53191748_make_job_execution_id_non_nullable.py",
        "            join execution e on e.job_id = j.id\n            union",
        "            join execution e on e.job_id = j.id\n            where j.execution_id is null\n            union",
        "C36.4",
    ),
)
_add(
    "C27",
    m("export-synonym-not-added-in-validate", T, "        if \"cache\" in self._export_options:\n            self._export_options.add(\"cache_scope\")\n", "", "C27.6"),
)
_add(
    "C31",
    m("put-skips-on-existence-alone", "redun/backends/value_store.py", "        if self.has(value_hash) and self.size(value_hash) == len(data):", "        if self.has(value_hash):", "C31.4"),
    m("no-store-raises-for-placeholder", D, "            # No ValueStore is configured, so the offloaded data is unavailable.\n            return b\"\", False", "            raise AssertionError(\"ValueStore is not defined.\")", "C31.4"),
)
_add(
    "C10",
    m(
        "glue-job-popped-before-submit-call",
        "redun/executors/aws_glue.py",
        "                    job = self.pending_glue_jobs[0]\n",
        "                    job = self.pending_glue_jobs.popleft()\n                    self.pending_glue_jobs.appendleft  # noqa\n",
        "C10.6",
    ),
)
_add(
    "C37",
    m("rename-ignores-task-identity", T, "        if task is None or self._tasks.get(old_name) is task:\n", "        if True:\n", "C37.5"),
    m("wraps-task-renames-by-name-only", T, "new_namespace=new_namespace, task=task_\n", "new_namespace=new_namespace\n", "C37.5"),
)
_add(
    "C32",
    m("gcp-array-index-from-listing-position", "redun/executors/gcp_batch.py", "                        array_index = int(task.name.rsplit(\"/\", 1)[-1])\n", "                        array_index = list(batch_tasks).index(task)\n", "C32.7"),
)
_add(
    "C10",
    m("gcp-reunite-miss-drops-job", "redun/executors/gcp_batch.py", "            else:\n                # Batch task is no longer available, submit the job anew.\n                batch_task_name = None\n", "", "C10.7"),
    m("aws-batch-reunite-miss-drops-job", "redun/executors/aws_batch.py", "            else:\n                batch_job_id = None\n\n        # Job arrayer will handle", "\n        # Job arrayer will handle", "C10.7"),
)
_add(
    "C30",
    m("copy-skip-returns-unrehashed-destination", "redun/file.py", "            dest_file.update_hash()\n            return dest_file\n\n        if self.filesystem.name == \"local\"", "            return dest_file\n\n        if self.filesystem.name == \"local\"", "C30.1"),
    m("s3-listing-keys-unfiltered", "redun/file.py", "                if dir_key and obj[\"Key\"] != dir_key and not obj[\"Key\"].startswith(dir_key + \"/\"):\n                    continue\n", "", "C30.7"),
)
_add(
    "C33",
    m("status-memo-not-dropped-on-expire", D, "    event.listen(_model, \"expire\", _forget_status)\n", "", "C33.5"),
    m("job-init-does-not-initialise-memo", D, "    def __init__(self, *args, **kwargs):\n        super().__init__(*args, **kwargs)\n        self._load()\n\n    @reconstructor\n    def _load(self) -> None:\n        self._status: str | None = None\n\n    def __repr__(self) -> str:\n        return \"Job(", "    @reconstructor\n    def _load(self) -> None:\n        self._status: str | None = None\n\n    def __repr__(self) -> str:\n        return \"Job(", "C33.5"),
)
_add(
    "C25",
    m("rollback-walks-valid-parents-only", D, "            .filter(Handle.fullname == handle.__handle__.fullname)\n            .all()", "            .filter(Handle.fullname == handle.__handle__.fullname, Handle.is_valid.is_(True))\n            .all()", "C25.3"),
)
_add(
    "C38",
    m("subrun-defaults-outrank-exports", S, "        **subrun.get_task_options(),\n        **parent_job.get_export_options(),\n        **sexpr._options,\n", "        **parent_job.get_export_options(),\n        **subrun.get_task_options(),\n        **sexpr._options,\n", "C38.6"),
)
_add(
    "C21",
    m("cached-catch-expression-unlinked", S, "            derive_expression(cached_expr, sexpr)\n", "", "C21.8"),
)
_add(
    "C32",
    m("oneshot-handler-keeps-stale-output", "redun/cli.py", "                BaseFile(output_path).remove()\n            raise error", "                pass\n            raise error", "C32.8"),
)
_add(
    "C06",
    m("finalize-pops-any-holder", S, "        if self._pending_jobs.get(pending_key) is job:\n            del self._pending_jobs[pending_key]", "        self._pending_jobs.pop(pending_key, None)", "C06.7"),
    m("pending-store-unguarded", S, "        if pending_job is None or (\n            job.recording_provenance() and not pending_job.recording_provenance()\n        ):\n            self._pending_jobs[pending_key] = job", "        self._pending_jobs[pending_key] = job", "C06.7"),
)
_add(
    "C30",
    m("same-path-stage-returns-unrefreshed", "redun/file.py", "            self.local.update_hash()\n            return self.local\n\n        return self.remote.copy_to(self.local)\n\n    def unstage(self) -> File:", "            return self.local\n\n        return self.remote.copy_to(self.local)\n\n    def unstage(self) -> File:", "C30.5"),
    m("remove-keeps-cached-hash", "redun/file.py", "        self.filesystem.remove(self.path)\n        # Drop the cached hash so the next access hashes the (now missing) path.\n        self._hash = None", "        self.filesystem.remove(self.path)", "C30.5"),
)
_add(
    "C12",
    m("only-invalid-value-error-is-a-miss", D, "        except Exception:\n            # Unpickling can raise nearly anything", "        except InvalidValueError:\n            # Unpickling can raise nearly anything", "C12.7"),
)
_add(
    "C06",
    m("context-free-filter-on-callnode", D, "                    ~exists().where(and_(Tag.entity_id == Job.id, Tag.key == CONTEXT_KEY))", "                    ~exists().where(and_(Tag.entity_id == CallNode.call_hash, Tag.key == CONTEXT_KEY))", "C06.8"),
)
_add(
    "C22",
    m("execution-tags-passed-as-chain", S, "            list(chain(self._exec_tags, tags)),", "            chain(self._exec_tags, tags),", "C22.8"),
    m("put-records-retried-with-generator", D, "        return self._put_records(list(records))\n\n    @db_retry\n    def _put_records(self, records: list[dict]) -> int:\n        assert self._record_serializer\n", "        return self._put_records(records)\n\n    @db_retry\n    def _put_records(self, records: Iterable[dict]) -> int:\n        assert self._record_serializer\n        records = list(records)\n", "C22.8"),
)
_add(
    "C20",
    m("collapse-indexes-orphan", S, "        if self in parent_job.child_jobs:\n            parent_job.child_jobs[parent_job.child_jobs.index(self)] = other_job", "        if True:\n            parent_job.child_jobs[parent_job.child_jobs.index(self)] = other_job", "C20.10"),
    m("root-task-ignores-options", S, "        for arg in iter_nested_value((expr.args, expr.kwargs, default_kwargs, options))", "        for arg in iter_nested_value((expr.args, expr.kwargs, default_kwargs))", "C20.10"),
)
_add(
    "C17",
    m("hash-before-validate", T, "        self._validate()\n        self.recompute_hash()\n", "        self.recompute_hash()\n        self._validate()\n", "C17.6"),
)
_add(
    "C18",
    m("scheduler-call-drops-export-options", T, "            SchedulerExpression(\n                self.fullname,\n                args,\n                kwargs,\n                task_options=self._task_options_override,\n                export_options=self._export_options,", "            SchedulerExpression(\n                self.fullname,\n                args,\n                kwargs,\n                task_options=self._task_options_override,", "C18.5"),
    m("partial-setstate-plain-task", T, "        self.task = task_class.__new__(task_class)", "        self.task = Task.__new__(Task)", "C18.6"),
)
_add(
    "C27",
    m("partial-task-inherits-export-options", T, "    def export_options(self, **task_options_update: Any) -> \"PartialTask[..., R]\":\n        \"\"\"\n        Returns a new PartialTask with exported option overrides.\n        \"\"\"\n        return self.task.export_options(**task_options_update).partial(*self.args, **self.kwargs)\n\n", "", "C27.8"),
)
_add(
    "C17",
    m("is-valid-ignores-registered-version", T, "        if _task is None or _task.version != self.version:\n            return False\n        return self.hash == self._calc_hash()", "        return self.hash == self._calc_hash()", "C17.7"),
)
_add(
    "C10",
    m("batch-monitor-stops-whole-executor", "redun/executors/aws_batch.py", "        self.arrayer.stop()\n        self.is_running = False\n\n    def _can_override_failed", "        self.stop()\n\n    def _can_override_failed", "C10.8"),
    m("arrayer-start-ignores-exit-flag", "redun/job_array.py", "            if not self._exit_flag.is_set():\n                return\n", "            return\n", "C10.9"),
)
_add(
    "C03",
    m("existing-node-without-rows-not-completed", D, "            elif not session.query(CallSubtreeTask).filter_by(call_hash=call_hash).first():", "            elif False:", "C03.5"),
)
_add(
    "C15",
    m("catch-key-results-swapped", S, "    eval_hash, args_hash = hash_args_eval(scheduler.type_registry, catch, key_args, {})", "    args_hash, eval_hash = hash_args_eval(scheduler.type_registry, catch, key_args, {})", "C15.7"),
)
_add(
    "C12",
    m("catch-key-without-error-classes", S, "    key_args = catch_args + ((context,) if context else ())\n", "    key_args = (expr, *recovers) + ((context,) if context else ())\n", "C12.8"),
)
_add(
    "C13",
    m("wrapper-skips-callback-when-chain-settled", "redun/promise.py", "            def wrapper(result_or_error):\n                try:", "            def wrapper(result_or_error):\n                if not promise.is_pending:\n                    return\n                try:", "C13.4"),
)
_add(
    "C33",
    m("limit-uses-unbuilt-jobs", "redun/backends/db/query.py", "            jobs=built._jobs.limit(size),", "            jobs=self._jobs.limit(size),", "C33.6"),
)
_add(
    "C10",
    m("k8s-array-published-empty", "redun/executors/k8s.py", "        self.pending_k8s_jobs[array_job_name] = {i: jobs[i] for i in range(array_size)}\n", "        self.pending_k8s_jobs[array_job_name] = {}\n        for i in range(array_size):\n            cast(\"dict[int, Job]\", self.pending_k8s_jobs[array_job_name])[i] = jobs[i]\n", "C10.10"),
)
_add(
    "C05",
    m("catch-key-without-context", S, "    key_args = catch_args + ((context,) if context else ())\n", "    key_args = catch_args\n", "C05.7"),
)
_add(
    "C25",
    m("fork-candidates-exclude-child", D, "        fork_candidates = [*parent_handles, child_handle]\n", "        fork_candidates = [*parent_handles]\n", "C25.5"),
)

_add(
    "C16",
    m("expr-state-raw-export-set", E, "            \"export_options\": sorted(self._export_options) if self._export_options else set(),\n            \"length\"", "            \"export_options\": self._export_options,\n            \"length\"", "C16.7"),
    m("task-state-raw-export-set", T, "            \"export_options\": sorted(self._export_options) if self._export_options else set(),\n        }", "            \"export_options\": self._export_options or set(),\n        }", "C16.7"),
)

_add(
    "C18",
    m("task-hash-drops-export-names", T, "                hash_struct([\"export_options\", sorted(self._export_options)])", "                hash_struct([\"export_options\"])", "C18.9"),
)

_add(
    "C09",
    m("local-callback-exception-only", "redun/executors/local.py", "            except BaseException as error:\n                # An error escaping this callback is dropped by the pool and the job would stay\n                # running forever.\n                self._scheduler.reject_job(job, _as_exception(error))\n", "", "C09.9"),
)

_add(
    "C03",
    m("reject-reuse-keeps-own-subtree", S, "                    job.subtree_tasks = self._get_subtree_tasks(job)\n                else:\n                    error_value = ErrorValue(", "                else:\n                    error_value = ErrorValue(", "C03.8"),
)

_add(
    "C13",
    m("then-truthiness-test", "redun/promise.py", "        if resolver is not None:", "        if resolver:", "C13.7"),
)

_add(
    "C33",
    m("exec-filter-keeps-cached", "redun/backends/db/query.py", "        job_statuses = [status for status in execution_statuses if status != \"CACHED\"]", "        job_statuses = list(execution_statuses)", "C33.2"),
)

_add(
    "C26",
    m("merge-mixed-returns-last-only", "redun/utils.py", "        if last_non_dict == len(dicts) - 1:\n            return dicts[-1]\n        return merge_dicts(dicts[last_non_dict + 1 :])", "        return dicts[-1]", "C26.2"),
)

_add(
    "C12",
    m("clear-keeps-tracked-promises", S, "        self._tracked_promises.clear()\n", "", "C12.11"),
)
