"""
Rename-normalisation: map consistently renamed local variables of the analysed source back to the names used in the
naming reference (a snapshot of the tree the rules were written against), so that rules which mention local names are
insensitive to a pure renaming refactor.

The reference is used for NAMES ONLY.  A function is unified with its reference (whole function first, then statement by
statement); only name pairs that are bound consistently and injectively are applied.  Statements that do not unify keep
their real text, so a changed statement is judged as written.
"""

from __future__ import annotations

import ast
import gzip
import json
import os
from typing import Optional

from . import core as _core

_REF: Optional[dict] = None
_REF_TREES: dict = {}
FuncNode = (ast.FunctionDef, ast.AsyncFunctionDef)


def _ref_sources() -> dict:
    global _REF
    if _REF is None:
        p = os.path.join(os.path.dirname(os.path.abspath(__file__)), "reference", "names.json.gz")
        try:
            with gzip.open(p, "rt") as f:
                _REF = json.load(f)
        except OSError:
            _REF = {}
    return _REF


def _ref_tree(rel: str):
    if rel not in _REF_TREES:
        s = _ref_sources().get(rel)
        try:
            _REF_TREES[rel] = ast.parse(s) if s is not None else None
        except SyntaxError:
            _REF_TREES[rel] = None
    return _REF_TREES[rel]


def _outer_functions(tree, prefix="", out=None):
    """(qualname, k) -> k-th outermost FunctionDef of that name (overloads / redefinitions are aligned by position);
    methods of classes included; nested functions belong to their parent."""
    if out is None:
        out = {}
    for ch in ast.iter_child_nodes(tree):
        if isinstance(ch, FuncNode):
            k = 0
            while (prefix + ch.name, k) in out:
                k += 1
            out[(prefix + ch.name, k)] = ch
        elif isinstance(ch, ast.ClassDef):
            _outer_functions(ch, prefix + ch.name + ".", out)
        elif isinstance(ch, (ast.If, ast.Try, ast.With)):
            _outer_functions(ch, prefix, out)
    return out


def _stmts(fn):
    return [n for n in ast.walk(fn) if isinstance(n, ast.stmt) and n is not fn]


def _mapping(ref_fn, cur_fn) -> dict:
    """reference-local -> current-local, for locals that were consistently renamed."""
    locals_, fixed = _core._scope_info(cur_fn)
    ref_locals, _ = _core._scope_info(ref_fn)
    fixed = fixed - ref_locals  # a reference local that shadows a builtin (e.g. `input`) is still a local
    env: dict = {}
    if _core._match(ref_fn, cur_fn, locals_, fixed, env):
        return {r: c for r, c in env.items() if r != c}
    votes: dict = {}
    ref_by_type: dict = {}
    for s in _stmts(ref_fn):
        ref_by_type.setdefault(type(s), []).append(s)
    for cs in _stmts(cur_fn):
        if isinstance(cs, FuncNode + (ast.ClassDef,)):
            continue
        hits = []
        for rs in ref_by_type.get(type(cs), []):
            e: dict = {}
            if _core._match(rs, cs, locals_, fixed, e):
                hits.append(e)
                if len(hits) > 1:
                    break
        if len(hits) == 1:
            for r, c in hits[0].items():
                if r != c:
                    votes.setdefault(r, {}).setdefault(c, 0)
                    votes[r][c] += 1
    out = {}
    used = set()
    for r, cs in votes.items():
        if len(cs) == 1:
            c = next(iter(cs))
            if c not in used and r not in locals_:
                out[r] = c
                used.add(c)
    return out


def normalise_module(rel: str, tree: ast.AST) -> int:
    """Rename locals of `tree` in place back to reference names; returns the number of names mapped."""
    ref = _ref_tree(rel)
    if ref is None:
        return 0
    ref_fns = _outer_functions(ref)
    n = 0
    for q, cur in _outer_functions(tree).items():
        rf = ref_fns.get(q)
        if rf is None:
            continue
        mp = _mapping(rf, cur)
        if not mp:
            continue
        inv = {c: r for r, c in mp.items()}
        # do not create collisions with existing names
        existing = {x.id for x in ast.walk(cur) if isinstance(x, ast.Name)} | {a.arg for a in ast.walk(cur) if isinstance(a, ast.arg)}
        inv = {c: r for c, r in inv.items() if r not in existing or r in inv}
        for x in ast.walk(cur):
            if isinstance(x, ast.Name) and x.id in inv:
                x.id = inv[x.id]
            elif isinstance(x, ast.ExceptHandler) and x.name in inv:
                x.name = inv[x.name]
        n += len(inv)
    return n
