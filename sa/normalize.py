"""
Rename-normalisation: map consistently renamed local variables of the analysed source back to the names used in the
naming reference (a snapshot of the tree the rules were written against), so that rules which mention local names are
insensitive to a pure renaming refactor.

The reference is used for NAMES ONLY.  A function is unified with its reference (whole function first, then statement by
statement); only name pairs that are bound consistently and injectively are applied.  Statements that do not unify keep
their real text, so a changed statement is judged as written.
"""

from __future__ import annotations

import ast
import gzip
import json
import os
from typing import Optional

from . import core as _core

_REF: Optional[dict] = None
_REF_TREES: dict = {}
FuncNode = (ast.FunctionDef, ast.AsyncFunctionDef)


def _ref_sources() -> dict:
    global _REF
    if _REF is None:
        p = os.path.join(os.path.dirname(os.path.abspath(__file__)), "reference", "names.json.gz")
        try:
            with gzip.open(p, "rt") as f:
                _REF = json.load(f)
        except OSError:
            _REF = {}
    return _REF


def _ref_tree(rel: str):
    if rel not in _REF_TREES:
        s = _ref_sources().get(rel)
        try:
            _REF_TREES[rel] = ast.parse(s) if s is not None else None
            if _REF_TREES[rel] is not None:
                strip_local_annotations(_REF_TREES[rel])
        except SyntaxError:
            _REF_TREES[rel] = None
    return _REF_TREES[rel]


def _outer_functions(tree, prefix="", out=None):
    """(qualname, k) -> k-th outermost FunctionDef of that name (overloads / redefinitions are aligned by position);
    methods of classes included; nested functions belong to their parent."""
    if out is None:
        out = {}
    for ch in ast.iter_child_nodes(tree):
        if isinstance(ch, FuncNode):
            k = 0
            while (prefix + ch.name, k) in out:
                k += 1
            out[(prefix + ch.name, k)] = ch
        elif isinstance(ch, ast.ClassDef):
            _outer_functions(ch, prefix + ch.name + ".", out)
        elif isinstance(ch, (ast.If, ast.Try, ast.With)):
            _outer_functions(ch, prefix, out)
    return out


def _stmts(fn):
    return [n for n in ast.walk(fn) if isinstance(n, ast.stmt) and n is not fn]


def _mapping(ref_fn, cur_fn) -> dict:
    """reference-local -> current-local, for locals that were consistently renamed."""
    locals_, fixed = _core._scope_info(cur_fn)
    ref_locals, _ = _core._scope_info(ref_fn)
    fixed = fixed - ref_locals  # a reference local that shadows a builtin (e.g. `input`) is still a local
    env: dict = {}
    if _core._match(ref_fn, cur_fn, locals_, fixed, env):
        return {r: c for r, c in env.items() if r != c}
    votes: dict = {}
    ref_by_type: dict = {}
    for s in _stmts(ref_fn):
        ref_by_type.setdefault(type(s), []).append(s)
    for cs in _stmts(cur_fn):
        if isinstance(cs, FuncNode + (ast.ClassDef,)):
            continue
        hits = []
        for rs in ref_by_type.get(type(cs), []):
            e: dict = {}
            if _core._match(rs, cs, locals_, fixed, e):
                hits.append(e)
                if len(hits) > 1:
                    break
        if len(hits) == 1:
            for r, c in hits[0].items():
                if r != c:
                    votes.setdefault(r, {}).setdefault(c, 0)
                    votes[r][c] += 1
    out = {}
    used = set()
    for r, cs in sorted(votes.items(), key=lambda kv: -max(kv[1].values())):
        best = max(cs.values())
        winners = [c for c, k in cs.items() if k == best]
        if len(winners) == 1:  # a strict majority of the uniquely matching statements agrees on the renaming
            c = winners[0]
            if c not in used and r not in locals_:
                out[r] = c
                used.add(c)
    return out


def strip_noops(tree: ast.AST) -> int:
    """Remove `pass` statements from blocks that contain other statements (always behaviour-preserving)."""
    n = 0
    for node in ast.walk(tree):
        for field in ("body", "orelse", "finalbody"):
            blk = getattr(node, field, None)
            if isinstance(blk, list) and len(blk) > 1 and any(isinstance(x, ast.Pass) for x in blk):
                keep = [x for x in blk if not isinstance(x, ast.Pass)]
                if keep:
                    n += len(blk) - len(keep)
                    blk[:] = keep
    return n


def strip_local_annotations(tree: ast.AST) -> int:
    """Inside function bodies, `x: T = v` -> `x = v` (annotations of locals/attributes have no run-time effect; the annotation
    expression of a non-simple target is evaluated, but every annotation in this code base is a pure type expression -- and with
    `from __future__ import annotations` not evaluated at all)."""
    n = 0
    for fn in ast.walk(tree):
        if not isinstance(fn, FuncNode):
            continue
        for node in ast.walk(fn):
            for field in ("body", "orelse", "finalbody"):
                blk = getattr(node, field, None)
                if not isinstance(blk, list):
                    continue
                for i, st in enumerate(blk):
                    if isinstance(st, ast.AnnAssign) and st.value is not None:
                        new = ast.Assign(targets=[st.target], value=st.value, type_comment=None)
                        ast.copy_location(new, st)
                        blk[i] = new
                        n += 1
    return n


_NEG_OPS = {ast.Is: ast.IsNot, ast.IsNot: ast.Is, ast.Eq: ast.NotEq, ast.NotEq: ast.Eq, ast.In: ast.NotIn, ast.NotIn: ast.In}


def _negations(t: ast.expr) -> list:
    out = []
    if isinstance(t, ast.UnaryOp) and isinstance(t.op, ast.Not):
        out.append(t.operand)
        if isinstance(t.operand, ast.Compare) and len(t.operand.ops) == 1 and type(t.operand.ops[0]) in _NEG_OPS:
            pass
    else:
        out.append(ast.UnaryOp(op=ast.Not(), operand=t))
    if isinstance(t, ast.Compare) and len(t.ops) == 1 and type(t.ops[0]) in _NEG_OPS:
        out.append(ast.Compare(left=t.left, ops=[_NEG_OPS[type(t.ops[0])]()], comparators=t.comparators))
    return out


def _equiv_tests(t: ast.expr) -> list:
    """Other spellings of the same test: `not (a is b)` <-> `a is not b` (and ==, in)."""
    out = []
    if isinstance(t, ast.UnaryOp) and isinstance(t.op, ast.Not) and isinstance(t.operand, ast.Compare) and len(t.operand.ops) == 1 and type(t.operand.ops[0]) in _NEG_OPS:
        c = t.operand
        out.append(ast.Compare(left=c.left, ops=[_NEG_OPS[type(c.ops[0])]()], comparators=c.comparators))
    return out


def _post_order_ifs(fn):
    out = []

    def rec(n):
        for ch in ast.iter_child_nodes(n):
            rec(ch)
        if isinstance(n, ast.If):
            out.append(n)

    rec(fn)
    return out


def align_branches(ref_fn, cur_fn) -> int:
    """Flip `if T: A else: B` of the analysed function to `if not T: B else: A` (or re-spell `not (a is b)` as `a is not b`) where that
    makes the statement equal, modulo local names, to an if-statement of the reference function and the statement as written equals none.
    The rewrite is behaviour-preserving whatever the reference says; the reference only selects the spelling the rules were written against."""
    locals_, fixed = _core._scope_info(cur_fn)
    ref_locals, _ = _core._scope_info(ref_fn)
    fixed = fixed - ref_locals
    ref_ifs = [n for n in ast.walk(ref_fn) if isinstance(n, ast.If)]
    if not ref_ifs:
        return 0

    def matches(cand) -> bool:
        return any(_core._match(r, cand, locals_, fixed, {}) for r in ref_ifs)

    n = 0
    for cur in _post_order_ifs(cur_fn):
        if matches(cur):
            continue
        done = False
        for t2 in _equiv_tests(cur.test):
            cand = ast.If(test=t2, body=cur.body, orelse=cur.orelse)
            if matches(cand):
                cur.test = ast.copy_location(t2, cur.test)
                ast.fix_missing_locations(cur.test)
                n += 1
                done = True
                break
        if done or not cur.orelse:
            continue
        for t2 in _negations(cur.test):
            for t3 in [t2] + _equiv_tests(t2):
                cand = ast.If(test=t3, body=cur.orelse, orelse=cur.body)
                if matches(cand):
                    cur.test = ast.copy_location(t3, cur.test)
                    ast.fix_missing_locations(cur.test)
                    cur.body, cur.orelse = cur.orelse, cur.body
                    n += 1
                    done = True
                    break
            if done:
                break
    return n


def _ancestors_of(root: ast.AST, target: ast.AST) -> list:
    path: list = []

    def rec(n, acc):
        if n is target:
            path.extend(acc)
            return True
        for ch in ast.iter_child_nodes(n):
            if rec(ch, acc + [n]):
                return True
        return False

    rec(root, [])
    return path


def _no_effect_before(stmt: ast.stmt, use: ast.Name) -> bool:
    """No call/await/yield is *completed* before `use` is evaluated inside stmt (so evaluating the temporary's expression at the use site
    instead of just before the statement cannot be observed)."""
    anc = set(map(id, _ancestors_of(stmt, use)))
    for n in ast.walk(stmt):  # breadth-first, but we only need the set of nodes textually before `use`
        if n is use:
            continue
        if isinstance(n, (ast.Call, ast.Await, ast.Yield, ast.YieldFrom, ast.NamedExpr)) and id(n) not in anc:
            ln, co = getattr(n, "lineno", None), getattr(n, "col_offset", None)
            if ln is None or (ln, co) < (use.lineno, use.col_offset):
                return False
    return True


def inline_adjacent_temps(ref_fn, cur_fn) -> int:
    """`v = E ; S(v)`  ->  `S(E)` where v is a local assigned once and read once, in the statement that immediately follows, no effect is
    completed in S before the read, and the rewritten statement equals (modulo local names) a statement of the reference function while
    `v = E` equals none.  Reference-directed like align_branches: the rewrite is behaviour-preserving by construction."""
    import copy

    locals_, fixed = _core._scope_info(cur_fn)
    ref_locals, _ = _core._scope_info(ref_fn)
    fixed = fixed - ref_locals
    ref_stmts = _stmts(ref_fn)
    by_type: dict = {}
    for r in ref_stmts:
        by_type.setdefault(type(r), []).append(r)

    def matches(cand) -> bool:
        return any(_core._match(r, cand, locals_, fixed, {}) for r in by_type.get(type(cand), []))

    stores: dict = {}
    loads: dict = {}
    for n in ast.walk(cur_fn):
        if isinstance(n, ast.Name):
            (stores if isinstance(n.ctx, (ast.Store, ast.Del)) else loads).setdefault(n.id, []).append(n)
    params = {a.arg for f in ast.walk(cur_fn) if isinstance(f, FuncNode + (ast.Lambda,)) for a in f.args.args + f.args.kwonlyargs + f.args.posonlyargs}
    total = 0
    changed = True
    while changed:
        changed = False
        for node in ast.walk(cur_fn):
            for field in ("body", "orelse", "finalbody"):
                blk = getattr(node, field, None)
                if not isinstance(blk, list):
                    continue
                for i in range(len(blk) - 1):
                    a, st = blk[i], blk[i + 1]
                    if not (isinstance(a, ast.Assign) and len(a.targets) == 1 and isinstance(a.targets[0], ast.Name)):
                        continue
                    v = a.targets[0].id
                    if v in params or len(stores.get(v, [])) != 1 or len(loads.get(v, [])) != 1:
                        continue
                    use = loads[v][0]
                    if isinstance(st, (FuncNode, ast.ClassDef, ast.For, ast.While, ast.With, ast.Try, ast.If)):
                        # only the header expression of a compound statement is evaluated right after `a`
                        hdr = st.test if isinstance(st, (ast.If, ast.While)) else st.iter if isinstance(st, ast.For) else None
                        if hdr is None or not any(x is use for x in ast.walk(hdr)):
                            continue
                    elif not any(x is use for x in ast.walk(st)):
                        continue
                    if not _no_effect_before(st, use) or matches(a):
                        continue
                    cand = copy.deepcopy(st)
                    # locate the copy of `use` by position
                    tgt = next((x for x in ast.walk(cand) if isinstance(x, ast.Name) and x.id == v and isinstance(x.ctx, ast.Load)), None)
                    if tgt is None:
                        continue

                    class Sub(ast.NodeTransformer):
                        def visit_Name(self, n):
                            return copy.deepcopy(a.value) if n is tgt else n

                    cand = Sub().visit(cand)
                    ast.fix_missing_locations(cand)
                    probe = cand
                    if isinstance(cand, (ast.If, ast.While, ast.For)):
                        ok = matches(cand)
                    else:
                        ok = matches(probe)
                    if ok:
                        blk[i + 1] = cand
                        del blk[i]
                        stores.pop(v, None)
                        loads.pop(v, None)
                        total += 1
                        changed = True
                        break
                if changed:
                    break
            if changed:
                break
    return total


def renest_else(ref_fn, cur_fn) -> int:
    """`if c: ...; return`  followed by statements T   ->   `if c: ...; return  else: T`, when the if-body always leaves the block (ends in
    return / raise / continue / break) and the re-nested statement equals (modulo local names) an if-statement of the reference function while
    the statement as written equals none.  Equivalent programs whatever the reference says (pylint's no-else-return, undone)."""
    locals_, fixed = _core._scope_info(cur_fn)
    ref_locals, _ = _core._scope_info(ref_fn)
    fixed = fixed - ref_locals
    ref_ifs = [n for n in ast.walk(ref_fn) if isinstance(n, ast.If)]
    if not ref_ifs:
        return 0

    def matches(cand) -> bool:
        return any(_core._match(r, cand, locals_, fixed, {}) for r in ref_ifs)

    n = 0
    blocks = []
    for node in ast.walk(cur_fn):
        for field in ("body", "orelse", "finalbody"):
            blk = getattr(node, field, None)
            if isinstance(blk, list) and blk and isinstance(blk[0], ast.stmt):
                blocks.append(blk)
    # innermost blocks first, so that chains are rebuilt from the inside out
    for blk in reversed(blocks):
        i = len(blk) - 2
        while i >= 0:
            st = blk[i]
            if isinstance(st, ast.If) and not st.orelse and st.body and isinstance(st.body[-1], (ast.Return, ast.Raise, ast.Continue, ast.Break)) and i + 1 < len(blk) and not matches(st):
                cand = ast.If(test=st.test, body=st.body, orelse=blk[i + 1 :])
                ok = matches(cand)
                if not ok:
                    # the reference may spell the same branch with the opposite polarity (`if c: T else: ...`): align_branches flips it afterwards.
                    # A trailing `continue` / bare `return` at the very end of the guard body is dropped for the comparison when the if-statement is
                    # the last statement of its block afterwards (falling off the block does the same).
                    body2 = st.body[:-1] if isinstance(st.body[-1], ast.Continue) or (isinstance(st.body[-1], ast.Return) and st.body[-1].value is None) else None
                    for t2 in _negations(st.test):
                        for t3 in [t2] + _equiv_tests(t2):
                            for b in ([st.body] + ([body2] if body2 else [])):
                                if matches(ast.If(test=t3, body=blk[i + 1 :], orelse=b)):
                                    ok = True
                                    if b is body2 and _falls_off_same(cur_fn, blk, st):
                                        st.body = body2
                                    break
                            if ok:
                                break
                        if ok:
                            break
                if ok:
                    st.orelse = blk[i + 1 :]
                    del blk[i + 1 :]
                    n += 1
            i -= 1
    return n


def strip_new_casts(ref_fn, cur_fn) -> int:
    """`cast(T, x)` -> `x` in the analysed function where the reference function does not wrap that expression (typing.cast is the identity at
    run time; the reference only selects the spelling the rules were written against)."""
    def is_cast(n):
        return isinstance(n, ast.Call) and isinstance(n.func, ast.Name) and n.func.id == "cast" and len(n.args) == 2 and not n.keywords

    ref_wrapped = {ast.unparse(n.args[1]) for n in ast.walk(ref_fn) if is_cast(n)}
    count = [0]

    class Strip(ast.NodeTransformer):
        def visit_Call(self, n):
            self.generic_visit(n)
            if is_cast(n) and ast.unparse(n.args[1]) not in ref_wrapped:
                count[0] += 1
                return n.args[1]
            return n

    cur_fn.body = [Strip().visit(st) for st in cur_fn.body]
    return count[0]


def inline_pure_locals(ref_fn, cur_fn) -> int:
    """"Introduce a local for a repeated sub-expression", undone: a local the reference function does not have, bound exactly once (at the top level of
    the function body) to an expression without calls whose free names are never re-bound in the function, is replaced by that expression where it is
    read, and the binding is dropped.  Attribute reads are taken to be effect-free."""
    import copy

    ref_locals, _ = _core._scope_info(ref_fn)
    locals_, fixed = _core._scope_info(cur_fn)
    fixed = fixed - ref_locals
    ref_assigns = [r for r in _stmts(ref_fn) if isinstance(r, ast.Assign)]
    stores: dict = {}
    for n in ast.walk(cur_fn):
        if isinstance(n, ast.Name) and isinstance(n.ctx, (ast.Store, ast.Del)):
            stores.setdefault(n.id, []).append(n)
    params = set()
    for f in ast.walk(cur_fn):
        if isinstance(f, FuncNode + (ast.Lambda,)):
            params |= {a.arg for a in f.args.args + f.args.kwonlyargs + f.args.posonlyargs}
            params |= {a.arg for a in (f.args.vararg, f.args.kwarg) if a is not None}
    total = 0
    for st in list(cur_fn.body):
        if not (isinstance(st, ast.Assign) and len(st.targets) == 1 and isinstance(st.targets[0], ast.Name)):
            continue
        v = st.targets[0].id
        # every read comes after the binding (the binding is a top-level statement; reads in earlier statements, or in closures defined earlier,
        # would see another value), and the bound expression does not mention the name itself
        idx = cur_fn.body.index(st)
        if any(isinstance(n, ast.Name) and n.id == v for n in ast.walk(st.value)):
            continue
        # a local the reference has under another name (a renamed local) is not a new local
        if any(_core._match(r, st, locals_, fixed, {}) for r in ref_assigns):
            continue
        if any(isinstance(n, ast.Name) and n.id == v for earlier in cur_fn.body[:idx] for n in ast.walk(earlier)):
            continue
        if v in ref_locals or v in params or len(stores.get(v, [])) != 1:
            continue
        val = st.value
        if any(isinstance(n, (ast.Call, ast.Await, ast.Yield, ast.YieldFrom, ast.NamedExpr, ast.Lambda, ast.ListComp, ast.SetComp, ast.DictComp, ast.GeneratorExp, ast.Starred)) for n in ast.walk(val)):
            continue
        if isinstance(val, (ast.Constant, ast.Name)):
            continue
        free = {n.id for n in ast.walk(val) if isinstance(n, ast.Name)}
        if any(f in stores or f in params and False for f in free if f != v):
            continue
        loads = [n for n in ast.walk(cur_fn) if isinstance(n, ast.Name) and n.id == v and isinstance(n.ctx, ast.Load)]
        if len(loads) < 2:
            continue

        class Sub(ast.NodeTransformer):
            def visit_Name(self, n):
                if n.id == v and isinstance(n.ctx, ast.Load):
                    return ast.copy_location(copy.deepcopy(val), n)
                return n

        cur_fn.body.remove(st)
        cur_fn.body = [Sub().visit(x) for x in cur_fn.body]
        ast.fix_missing_locations(cur_fn)
        total += 1
    return total


def _falls_off_same(fn, blk, st) -> bool:
    """True when dropping a trailing `continue` (or bare `return`) of st's body is behaviour-preserving once st (with the rest of the block as its
    else-arm) is the last statement of `blk`: blk must be the body of a loop (for `continue`) or of the function (for `return`)."""
    last = st.body[-1]
    for node in ast.walk(fn):
        if isinstance(last, ast.Continue) and isinstance(node, (ast.For, ast.While, ast.AsyncFor)) and node.body is blk:
            return True
        if isinstance(last, ast.Return) and isinstance(node, FuncNode) and node.body is blk:
            return True
    return False


def reintroduce_temps(ref_fn, cur_fn) -> int:
    """The reverse of inline_adjacent_temps: the reference has `v = E ; S(v)` (v read once, in the next statement) and the analysed function
    has `S(E)` at a place where no statement equals `v = E`.  Rewriting to the reference spelling is behaviour-preserving (E is evaluated at
    the same point: it is the first effect of S) and gives the rules the statement they look for."""
    import copy

    locals_, fixed = _core._scope_info(cur_fn)
    ref_locals, _ = _core._scope_info(ref_fn)
    fixed = fixed - ref_locals
    cur_stmts = _stmts(cur_fn)
    total = 0
    for node in ast.walk(ref_fn):
        for field in ("body", "orelse", "finalbody"):
            rblk = getattr(node, field, None)
            if not isinstance(rblk, list):
                continue
            for i in range(len(rblk) - 1):
                a, st = rblk[i], rblk[i + 1]
                if not (isinstance(a, ast.Assign) and len(a.targets) == 1 and isinstance(a.targets[0], ast.Name)):
                    continue
                v = a.targets[0].id
                uses = [x for x in ast.walk(ref_fn) if isinstance(x, ast.Name) and x.id == v and isinstance(x.ctx, ast.Load)]
                defs = [x for x in ast.walk(ref_fn) if isinstance(x, ast.Name) and x.id == v and isinstance(x.ctx, ast.Store)]
                if len(uses) != 1 or len(defs) != 1 or isinstance(st, (FuncNode, ast.ClassDef, ast.For, ast.While, ast.With, ast.Try, ast.If)):
                    continue
                if not any(x is uses[0] for x in ast.walk(st)):
                    continue
                if any(_core._match(a, c, locals_, fixed, {}) for c in cur_stmts if isinstance(c, ast.Assign)):
                    continue  # the analysed function has the temp already
                existing = {x.id for x in ast.walk(cur_fn) if isinstance(x, ast.Name)} | {p.arg for p in ast.walk(cur_fn) if isinstance(p, ast.arg)}
                if v in existing:
                    continue
                # find a statement of the analysed function that becomes equal to `st` when one sub-expression equal to E is replaced by v
                for cnode in ast.walk(cur_fn):
                    done = False
                    for cfield in ("body", "orelse", "finalbody"):
                        cblk = getattr(cnode, cfield, None)
                        if not isinstance(cblk, list):
                            continue
                        for j, cst in enumerate(cblk):
                            if type(cst) is not type(st) or _core._match(st, cst, locals_ | {v}, fixed, {}):
                                continue
                            for x in ast.walk(cst):
                                if not isinstance(x, ast.expr) or not _core._match(a.value, x, locals_, fixed, {}):
                                    continue
                                if not _no_effect_before_expr(cst, x):
                                    continue
                                cand = copy.deepcopy(cst)
                                # locate the copy of x by walking both trees in step
                                pair = next((cx for ox, cx in zip(ast.walk(cst), ast.walk(cand)) if ox is x), None)
                                if pair is None:
                                    continue

                                class Sub(ast.NodeTransformer):
                                    def visit(self, n):
                                        if n is pair:
                                            return ast.copy_location(ast.Name(id=v, ctx=ast.Load()), n)
                                        return super().visit(n)

                                cand = Sub().visit(cand)
                                ast.fix_missing_locations(cand)
                                if _core._match(st, cand, locals_ | {v}, fixed, {}):
                                    tmp = ast.copy_location(ast.Assign(targets=[ast.Name(id=v, ctx=ast.Store())], value=copy.deepcopy(x)), cst)
                                    ast.fix_missing_locations(tmp)
                                    cblk[j : j + 1] = [tmp, cand]
                                    total += 1
                                    done = True
                                    break
                            if done:
                                break
                        if done:
                            break
                    if done:
                        break
    return total


def _no_effect_before_expr(stmt: ast.stmt, x: ast.expr) -> bool:
    """No call is completed in `stmt` before the evaluation of sub-expression x starts (source order approximates evaluation order)."""
    for n in ast.walk(stmt):
        if isinstance(n, ast.Call) and not any(y is x for y in ast.walk(n)) and not any(y is n for y in ast.walk(x)):
            if (n.lineno, n.col_offset) < (x.lineno, x.col_offset):
                return False
    return True


_SYM_OPS = (ast.Eq, ast.NotEq, ast.Is, ast.IsNot)


def align_compares(ref_fn, cur_fn) -> int:
    """`b == a` -> `a == b` (also !=, is, is not) where the swapped spelling occurs in the reference function and the spelling as written does not.
    Swapping the operands of a symmetric comparison preserves behaviour; the reference only selects the spelling the rules were written against."""
    import copy as _copy

    def shape(node) -> str:
        # name-insensitive spelling: local renames must not keep a comparison from being recognised (and the comparison, once aligned, is what
        # lets the statement unify so that the names can be mapped back)
        t = _copy.deepcopy(node)
        for x in ast.walk(t):
            if isinstance(x, ast.Name):
                x.id = "_"
        return ast.unparse(t)

    ref_cmp = [n for n in ast.walk(ref_fn) if isinstance(n, ast.Compare) and len(n.ops) == 1 and isinstance(n.ops[0], _SYM_OPS)]
    ref_texts = {shape(n) for n in ref_cmp}
    ref_exact = {ast.unparse(n) for n in ref_cmp}
    if not ref_texts:
        return 0
    n = 0
    for c in ast.walk(cur_fn):
        if isinstance(c, ast.Compare) and len(c.ops) == 1 and isinstance(c.ops[0], _SYM_OPS):
            if ast.unparse(c) in ref_exact:
                continue
            sw = ast.Compare(left=c.comparators[0], ops=c.ops, comparators=[c.left])
            if ast.unparse(sw) in ref_exact:
                c.left, c.comparators = sw.left, sw.comparators
                n += 1
                continue
            if shape(c) in ref_texts:
                continue
            swapped = ast.Compare(left=c.comparators[0], ops=c.ops, comparators=[c.left])
            opp = {ast.Eq: ast.NotEq, ast.NotEq: ast.Eq, ast.Is: ast.IsNot, ast.IsNot: ast.Is}[type(c.ops[0])]()
            as_written_neg = ast.Compare(left=c.left, ops=[opp], comparators=c.comparators)
            swapped_neg = ast.Compare(left=c.comparators[0], ops=[opp], comparators=[c.left])
            # also when only the *negated* spelling occurs in the reference (a later branch alignment will flip the test)
            if shape(swapped) in ref_texts or (shape(as_written_neg) not in ref_texts and shape(swapped_neg) in ref_texts):
                c.left, c.comparators = swapped.left, swapped.comparators
                n += 1
    return n


def normalise_module(rel: str, tree: ast.AST) -> int:
    """Strip no-op statements, align branch polarity with the reference spelling, and rename locals of `tree` in place back to
    reference names; returns the number of rewrites."""
    n = strip_noops(tree) + strip_local_annotations(tree)
    ref = _ref_tree(rel)
    if ref is None:
        return n
    # undo "extract method": private helpers that the reference does not have are spliced back into their callers (sa/inline.py)
    if os.environ.get("VERIF_NO_INLINE") != "1":
        from .inline import inline_new_helpers

        try:
            n += inline_new_helpers(tree, ref)
        except RecursionError:
            pass
    ref_fns = _outer_functions(ref)
    for q, cur in _outer_functions(tree).items():
        rf = ref_fns.get(q)
        if rf is None:
            continue
        # the steps enable one another (a comparison over renamed locals can only be aligned after the names are mapped back, a branch can only
        # be aligned once the comparisons inside it are): iterate to a fixpoint (bounded)
        for _round in range(3):
            k = 0
            k += strip_new_casts(rf, cur)
            k += inline_pure_locals(rf, cur)
            k += inline_adjacent_temps(rf, cur)
            k += reintroduce_temps(rf, cur)
            k += renest_else(rf, cur)
            k += align_compares(rf, cur)
            k += align_branches(rf, cur)
            mp = _mapping(rf, cur)
            if mp:
                inv = {c: r for r, c in mp.items() if c != r}
                # do not create collisions with existing names
                existing = {x.id for x in ast.walk(cur) if isinstance(x, ast.Name)} | {a.arg for a in ast.walk(cur) if isinstance(a, ast.arg)}
                inv = {c: r for c, r in inv.items() if r not in existing or r in inv}
                for x in ast.walk(cur):
                    if isinstance(x, ast.Name) and x.id in inv:
                        x.id = inv[x.id]
                    elif isinstance(x, ast.ExceptHandler) and x.name in inv:
                        x.name = inv[x.name]
                k += len(inv)
                k += align_compares(rf, cur)
            n += k
            if k == 0:
                break
    return n
