"""
May-raise summaries: which exception classes can escape a function, from explicit
`raise` statements, a frozen table of raising builtins, and resolved callees,
minus what enclosing try/except clauses catch.
"""

from __future__ import annotations

import ast
import builtins
from typing import Callable, Optional

from .core import FuncNode, Module, Repo, call_name, dotted, src

# frozen facts: callee -> exceptions it can raise for bad input (one line of reason each)
BUILTIN_RAISES = {
    "int": {"ValueError"},  # int("x")
    "float": {"ValueError"},  # float("x")
    "json.loads": {"JSONDecodeError", "RecursionError"},  # malformed JSON; deeply nested arrays/objects ("[" * 2000) exhaust the recursion limit of the C scanner
    "json.load": {"JSONDecodeError"},
    # JSON-compatible input can still fail: nesting deeper than the interpreter's recursion limit (RecursionError), an int with more than
    # sys.get_int_max_str_digits() = 4300 digits (ValueError).  TypeError / circular-reference ValueError need input that is not JSON-compatible.
    "json.dumps": {"RecursionError", "ValueError"},
    "open": {"FileNotFoundError"},  # missing path (read modes)
}

# exception class -> bases (for names that are not builtins)
EXTRA_BASES = {
    "JSONDecodeError": ["ValueError"],
    "json.JSONDecodeError": ["ValueError"],
    "RedunFileNotFoundError": ["FileNotFoundError"],
    "ClientError": ["Exception"],
}


def exc_name(node: Optional[ast.AST]) -> Optional[str]:
    if node is None:
        return None
    if isinstance(node, ast.Call):
        return exc_name(node.func)
    d = dotted(node)
    if d:
        return d.split(".")[-1]
    return None


def is_subclass(name: str, handler: str) -> bool:
    name, handler = name.split(".")[-1], handler.split(".")[-1]
    if name == handler or handler in ("Exception", "BaseException"):
        return True
    seen = set()
    stack = [name]
    while stack:
        n = stack.pop()
        if n in seen:
            continue
        seen.add(n)
        if n == handler:
            return True
        if n in EXTRA_BASES:
            stack += [b.split(".")[-1] for b in EXTRA_BASES[n]]
        cls = getattr(builtins, n, None)
        if isinstance(cls, type):
            stack += [b.__name__ for b in cls.__mro__[1:]]
    return False


def handler_names(h: ast.ExceptHandler) -> list[str]:
    if h.type is None:
        return ["BaseException"]
    if isinstance(h.type, ast.Tuple):
        return [exc_name(e) or "?" for e in h.type.elts]
    return [exc_name(h.type) or "?"]


class RaiseAnalysis:
    def __init__(self, repo: Repo, resolve: Optional[Callable] = None, extra_raises: Optional[dict] = None):
        self.repo = repo
        self.resolve = resolve  # (mod, fn, call) -> list[(mod, fn)] of callees
        self.memo: dict[int, set] = {}
        self.active: set[int] = set()
        self.table = dict(BUILTIN_RAISES)
        if extra_raises:
            self.table.update(extra_raises)

    def escaping(self, mod: Module, fn: ast.AST) -> set[tuple[str, str]]:
        """{(exception name, origin description)} that may escape fn."""
        key = id(fn)
        if key in self.memo:
            return self.memo[key]
        if key in self.active:
            return set()
        self.active.add(key)
        out = self._block(mod, fn, fn.body, [])
        self.active.discard(key)
        self.memo[key] = out
        return out

    def _caught(self, name: str, stack: list[list[str]]) -> bool:
        return any(is_subclass(name, h) for hs in stack for h in hs)

    def _block(self, mod, fn, stmts, stack) -> set:
        out: set = set()
        for st in stmts:
            out |= self._stmt(mod, fn, st, stack)
        return out

    def _stmt(self, mod, fn, st, stack) -> set:
        out: set = set()
        if isinstance(st, (FuncNode, ast.ClassDef)):
            return out
        if isinstance(st, ast.Try):
            hs = [n for h in st.handlers for n in handler_names(h)]
            out |= self._block(mod, fn, st.body, stack + [hs])
            out |= self._block(mod, fn, st.orelse, stack)
            for h in st.handlers:
                # bare `raise` in a handler re-raises what was caught: attribute to handler types
                for inner in h.body:
                    out |= self._stmt(mod, fn, inner, stack)
                for r in ast.walk(ast.Module(body=h.body, type_ignores=[])):
                    if isinstance(r, ast.Raise) and r.exc is None:
                        for n in handler_names(h):
                            if not self._caught(n, stack):
                                out.add((n, f"re-raise in {getattr(fn, 'name', '?')}"))
            out |= self._block(mod, fn, st.finalbody, stack)
            return out
        if isinstance(st, ast.Raise):
            n = exc_name(st.exc)
            if n and not self._caught(n, stack):
                out.add((n, f"raise in {getattr(fn, 'name', '?')}:{st.lineno}"))
            # fallthrough to scan calls in the raise expression
        # compound statements: recurse into bodies, scan header expressions
        bodies = []
        headers: list[ast.AST] = []
        if isinstance(st, (ast.If, ast.While)):
            headers, bodies = [st.test], [st.body, st.orelse]
        elif isinstance(st, (ast.For, ast.AsyncFor)):
            headers, bodies = [st.iter], [st.body, st.orelse]
        elif isinstance(st, (ast.With, ast.AsyncWith)):
            headers, bodies = [i.context_expr for i in st.items], [st.body]
        elif isinstance(st, ast.Match):
            headers, bodies = [st.subject], [c.body for c in st.cases]
        else:
            headers = [st]
        for h in headers:
            for c in ast.walk(h):
                if isinstance(c, (ast.Lambda,)):
                    continue
                if isinstance(c, ast.Call):
                    out |= self._call(mod, fn, c, stack)
        for b in bodies:
            out |= self._block(mod, fn, b, stack)
        return out

    def _call(self, mod, fn, c: ast.Call, stack) -> set:
        out: set = set()
        d = call_name(c) or ""
        if d in self.table:
            for n in self.table[d]:
                if not self._caught(n, stack):
                    out.add((n, f"{d}() in {getattr(fn, 'name', '?')}:{c.lineno}"))
        callees = []
        if self.resolve:
            callees = self.resolve(mod, fn, c) or []
        elif d in mod.funcs:
            callees = [(mod, mod.funcs[d])]
        for cm, cf in callees:
            for n, origin in self.escaping(cm, cf):
                if not self._caught(n, stack):
                    out.add((n, f"{origin} via {getattr(cf, 'name', '?')}()"))
        return out
