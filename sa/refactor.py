"""
Behaviour-preserving refactorings applied to a scratch copy of /repo/redun, used to test that the checks do NOT
raise alarms on code where the properties still hold ("negative kill matrix").

 * rename_locals : consistently renames local variables (not parameters, not globals/nonlocals) in every function
 * (the copy is re-emitted through ast.unparse, so formatting, comments and line numbers all change as well)
"""

from __future__ import annotations

import ast
import os
import shutil
import tempfile

FuncNode = (ast.FunctionDef, ast.AsyncFunctionDef)


def _own_scope_nodes(fn):
    """Nodes of fn's body including nested scopes (we rename consistently across them)."""
    for st in fn.body:
        yield from ast.walk(st)


def rename_locals_in_function(fn, suffix="_r") -> int:
    params = set()
    for f in [fn] + [n for n in _own_scope_nodes(fn) if isinstance(n, FuncNode + (ast.Lambda,))]:
        a = f.args
        for x in a.posonlyargs + a.args + a.kwonlyargs:
            params.add(x.arg)
        if a.vararg:
            params.add(a.vararg.arg)
        if a.kwarg:
            params.add(a.kwarg.arg)
    declared = set()
    nested_defs = set()
    stored = set()
    used = set()
    for n in _own_scope_nodes(fn):
        if isinstance(n, (ast.Global, ast.Nonlocal)):
            declared.update(n.names)
        elif isinstance(n, FuncNode + (ast.ClassDef,)):
            nested_defs.add(n.name)
        elif isinstance(n, ast.Name):
            used.add(n.id)
            if isinstance(n.ctx, (ast.Store, ast.Del)):
                stored.add(n.id)
        elif isinstance(n, ast.ExceptHandler) and n.name:
            stored.add(n.name)
            used.add(n.name)
        elif isinstance(n, (ast.Import, ast.ImportFrom)):
            for al in n.names:
                declared.add((al.asname or al.name).split(".")[0])
    targets = {x for x in stored if x not in params and x not in declared and x not in nested_defs and not x.startswith("__") and (x + suffix) not in used}
    if not targets:
        return 0
    for n in _own_scope_nodes(fn):
        if isinstance(n, ast.Name) and n.id in targets:
            n.id = n.id + suffix
        elif isinstance(n, ast.ExceptHandler) and n.name in targets:
            n.name = n.name + suffix
    return len(targets)


def rename_locals(tree) -> int:
    count = 0
    # only outermost functions: nested functions are handled as part of their parent (consistent renaming)
    def visit(node, inside_fn):
        nonlocal count
        for ch in ast.iter_child_nodes(node):
            if isinstance(ch, FuncNode):
                if not inside_fn:
                    count += rename_locals_in_function(ch)
                visit(ch, True)
            else:
                visit(ch, inside_fn)

    visit(tree, False)
    return count


def invert_branches(tree) -> int:
    """`if c: A else: B` -> `if not c: B else: A` for every two-armed if (elif chains included)."""
    count = 0
    for n in ast.walk(tree):
        if isinstance(n, ast.If) and n.orelse:
            t = n.test
            if isinstance(t, ast.UnaryOp) and isinstance(t.op, ast.Not):
                n.test = t.operand
            else:
                n.test = ast.UnaryOp(op=ast.Not(), operand=t)
            n.body, n.orelse = n.orelse, n.body
            count += 1
    ast.fix_missing_locations(tree)
    return count


def insert_noops(tree) -> int:
    """Insert a `pass` statement in front of every statement of every function body block."""
    count = 0
    for fn in ast.walk(tree):
        if isinstance(fn, FuncNode):
            for n in ast.walk(fn):
                for field in ("body", "orelse", "finalbody"):
                    blk = getattr(n, field, None)
                    if isinstance(blk, list) and blk and isinstance(blk[0], ast.stmt) and not any(isinstance(x, ast.Pass) for x in blk):
                        new = []
                        for i, st in enumerate(blk):
                            if not (i == 0 and isinstance(st, ast.Expr) and isinstance(st.value, ast.Constant) and isinstance(st.value.value, str)):
                                new.append(ast.Pass())
                                count += 1
                            new.append(st)
                        blk[:] = new
    ast.fix_missing_locations(tree)
    return count


def annotate_assigns(tree) -> int:
    """`x = v` -> `x: object = v` for single-name local assignments (not global/nonlocal names); and `self.a = v` -> `self.a: object = v`."""
    count = 0
    for fn in ast.walk(tree):
        if not isinstance(fn, FuncNode):
            continue
        declared = set()
        for n in ast.walk(fn):
            if isinstance(n, (ast.Global, ast.Nonlocal)):
                declared.update(n.names)
        for n in ast.walk(fn):
            for field in ("body", "orelse", "finalbody"):
                blk = getattr(n, field, None)
                if not isinstance(blk, list):
                    continue
                for i, st in enumerate(blk):
                    if isinstance(st, ast.Assign) and len(st.targets) == 1 and not getattr(st, "_done", False):
                        t = st.targets[0]
                        if (isinstance(t, ast.Name) and t.id not in declared) or (isinstance(t, ast.Attribute) and isinstance(t.value, ast.Name)):
                            new = ast.AnnAssign(target=t, annotation=ast.Name(id="object", ctx=ast.Load()), value=st.value, simple=1 if isinstance(t, ast.Name) else 0)
                            ast.copy_location(new, st)
                            blk[i] = new
                            count += 1
    ast.fix_missing_locations(tree)
    return count


def hoist_call_args(tree) -> int:
    """`f(g(x), y)` -> `_h1 = g(x); f(_h1, y)` for the first call-valued positional argument of a call that is the whole value of an
    expression statement / assignment / return inside a function body (evaluation order is preserved: only the FIRST argument is hoisted,
    and only when the callee expression is a plain name/attribute chain, which has no side effects)."""
    count = 0

    def simple(e):
        while isinstance(e, ast.Attribute):
            e = e.value
        return isinstance(e, ast.Name)

    for fn in ast.walk(tree):
        if not isinstance(fn, FuncNode):
            continue
        k = 0
        for n in ast.walk(fn):
            for field in ("body", "orelse", "finalbody"):
                blk = getattr(n, field, None)
                if not isinstance(blk, list):
                    continue
                new = []
                for st in blk:
                    call = None
                    if isinstance(st, ast.Expr) and isinstance(st.value, ast.Call):
                        call = st.value
                    elif isinstance(st, (ast.Assign, ast.Return)) and isinstance(st.value, ast.Call):
                        call = st.value
                    if call is not None and simple(call.func) and call.args and isinstance(call.args[0], ast.Call) and not getattr(st, "_h", False):
                        k += 1
                        name = f"_h{k}"
                        a = ast.Assign(targets=[ast.Name(id=name, ctx=ast.Store())], value=call.args[0])
                        ast.copy_location(a, st)
                        call.args[0] = ast.Name(id=name, ctx=ast.Load())
                        st._h = True
                        new.append(a)
                        count += 1
                    new.append(st)
                blk[:] = new
    ast.fix_missing_locations(tree)
    return count


def no_else_after_return(tree) -> int:
    """`if c: ...; return X  else: B`  ->  `if c: ...; return X` followed by B (pylint's no-else-return / no-else-raise / no-else-continue)."""
    count = 0
    changed = True
    while changed:
        changed = False
        for n in ast.walk(tree):
            for field in ("body", "orelse", "finalbody"):
                blk = getattr(n, field, None)
                if not isinstance(blk, list):
                    continue
                for i, st in enumerate(blk):
                    if isinstance(st, ast.If) and st.orelse and st.body and isinstance(st.body[-1], (ast.Return, ast.Raise, ast.Continue, ast.Break)):
                        tail = st.orelse
                        st.orelse = []
                        blk[i + 1 : i + 1] = tail
                        count += 1
                        changed = True
                        break
                if changed:
                    break
            if changed:
                break
    ast.fix_missing_locations(tree)
    return count


def swap_compares(tree) -> int:
    """`a == b` -> `b == a` (also !=, is, is not) when one side is a constant / name / attribute chain (no evaluation-order question)."""
    def simple(e):
        return isinstance(e, (ast.Constant, ast.Name)) or (isinstance(e, ast.Attribute) and simple(e.value))

    n = 0
    for c in ast.walk(tree):
        if isinstance(c, ast.Compare) and len(c.ops) == 1 and isinstance(c.ops[0], (ast.Eq, ast.NotEq, ast.Is, ast.IsNot)) and (simple(c.left) or simple(c.comparators[0])):
            c.left, c.comparators = c.comparators[0], [c.left]
            n += 1
    return n


def reorder_pure_assigns(tree) -> int:
    """Swap two adjacent statements `a = e1; b = e2` of a function body block when both right-hand sides are call-free, neither reads the other's
    target, and the targets are distinct plain names (no evaluation-order or aliasing question)."""

    def pure(e):
        return not any(isinstance(x, (ast.Call, ast.Await, ast.Yield, ast.YieldFrom, ast.NamedExpr, ast.Lambda)) for x in ast.walk(e))

    def names(e):
        return {x.id for x in ast.walk(e) if isinstance(x, ast.Name)}

    n = 0
    for fn in ast.walk(tree):
        if not isinstance(fn, (ast.FunctionDef, ast.AsyncFunctionDef)):
            continue
        for blk_owner in ast.walk(fn):
            for fld in ("body", "orelse", "finalbody"):
                blk = getattr(blk_owner, fld, None)
                if not isinstance(blk, list):
                    continue
                i = 0
                while i + 1 < len(blk):
                    a, b = blk[i], blk[i + 1]
                    if (
                        isinstance(a, ast.Assign) and isinstance(b, ast.Assign)
                        and len(a.targets) == 1 and len(b.targets) == 1
                        and isinstance(a.targets[0], ast.Name) and isinstance(b.targets[0], ast.Name)
                        and a.targets[0].id != b.targets[0].id
                        and pure(a.value) and pure(b.value)
                        and a.targets[0].id not in names(b.value) and b.targets[0].id not in names(a.value)
                    ):
                        blk[i], blk[i + 1] = b, a
                        n += 1
                        i += 2
                    else:
                        i += 1
    return n


def all_three(tree) -> int:
    return invert_branches(tree) + rename_locals(tree) + insert_noops(tree)


def all_six(tree) -> int:
    return no_else_after_return(tree) + hoist_call_args(tree) + annotate_assigns(tree) + invert_branches(tree) + rename_locals(tree) + insert_noops(tree)


def all_seven(tree) -> int:
    return swap_compares(tree) + all_six(tree)


def all_eight(tree) -> int:
    return reorder_pure_assigns(tree) + all_seven(tree)


def all_five(tree) -> int:
    return hoist_call_args(tree) + annotate_assigns(tree) + invert_branches(tree) + rename_locals(tree) + insert_noops(tree)


TRANSFORMS = {"rename": rename_locals, "invert": invert_branches, "noops": insert_noops, "all": all_three, "annotate": annotate_assigns, "hoist": hoist_call_args, "all5": all_five, "noelse": no_else_after_return, "all6": all_six, "swapcmp": swap_compares, "all7": all_seven, "reorder": reorder_pure_assigns, "all8": all_eight}


def refactored_copy(root: str = "/repo", transform=rename_locals) -> tuple[str, int]:
    tmp = tempfile.mkdtemp(prefix="verif_rf_", dir="/var/tmp")
    shutil.copytree(os.path.join(root, "redun"), os.path.join(tmp, "redun"), ignore=shutil.ignore_patterns("tests", "__pycache__", "*.pyc", "*.db"))
    total = 0
    for dp, dn, fns in os.walk(os.path.join(tmp, "redun")):
        for f in fns:
            if f.endswith(".py"):
                path = os.path.join(dp, f)
                src = open(path).read()
                tree = ast.parse(src)
                n = transform(tree)
                if n:
                    total += n
                    open(path, "w").write(ast.unparse(tree) + "\n")
    return tmp, total
