"""Findings, rule-instance accounting, evidence and known-findings handling."""

from __future__ import annotations

import json
import os
import time
from dataclasses import dataclass, field, asdict
from typing import Any, Optional

from .core import AnalysisError

VERIF = os.path.dirname(os.path.dirname(os.path.abspath(__file__)))


@dataclass
class Finding:
    property: str
    rule: str
    construct: str  # module:qualname[:normalised statement] -- never a line number
    message: str
    file: str = ""
    line: int = 0
    path: list = field(default_factory=list)  # for path rules: readable steps

    def key(self) -> tuple[str, str, str]:
        return (self.property, self.rule, self.construct)


class Rule:
    """Accounting for one rule: instances examined / satisfied / violating."""

    def __init__(self, ctx: "Ctx", rule_id: str, desc: str, floor: int = 1):
        self.ctx = ctx
        self.id = rule_id
        self.desc = desc
        self.floor = floor
        self.examined = 0
        self.ok = 0
        self.bad = 0
        self.samples: list[dict] = []

    def good(self, construct: str, note: str = "") -> None:
        self.examined += 1
        self.ok += 1
        if len(self.samples) < 40:
            self.samples.append({"construct": construct, "verdict": "ok", "note": note})
        self.ctx.constructs.add((self.id, construct))

    def violation(self, construct: str, message: str, file: str = "", line: int = 0, path: Optional[list] = None) -> None:
        if (self.id, construct) in self.ctx.violated:
            return  # one report per (rule, construct)
        self.ctx.violated.add((self.id, construct))
        self.examined += 1
        self.bad += 1
        f = Finding(self.ctx.prop, self.id, construct, message, file, line, path or [])
        self.ctx.findings.append(f)
        self.samples.append({"construct": construct, "verdict": "VIOLATION", "note": message})
        self.ctx.constructs.add((self.id, construct))

    def check(self, cond: bool, construct: str, message: str, file: str = "", line: int = 0, note: str = "") -> bool:
        if cond:
            self.good(construct, note)
        else:
            self.violation(construct, message, file, line)
        return cond

    def done(self) -> None:
        if self.examined < self.floor:
            raise AnalysisError(
                f"rule {self.id} matched {self.examined} instance(s), floor is {self.floor}: "
                f"the anchor it enumerates has vanished or changed shape",
                anchor=self.id,
            )


class Ctx:
    def __init__(self, prop: str, repo, tier: str):
        self.prop = prop
        self.repo = repo
        self.tier = tier
        self.rules: list[Rule] = []
        self.findings: list[Finding] = []
        self.constructs: set[tuple[str, str]] = set()
        self.violated: set[tuple[str, str]] = set()
        self.assumptions: list[str] = []
        self.extra: dict[str, Any] = {}
        self.unresolved: list[str] = []
        self.paths_enumerated = 0

    def rule(self, rule_id: str, desc: str, floor: int = 1) -> Rule:
        r = Rule(self, rule_id, desc, floor)
        self.rules.append(r)
        return r

    def assume(self, text: str) -> None:
        if text not in self.assumptions:
            self.assumptions.append(text)


def load_known() -> dict:
    p = os.path.join(VERIF, "known_findings.json")
    if not os.path.exists(p):
        return {"known": [], "fixed": []}
    with open(p) as f:
        return json.load(f)


def write_evidence(ctx: Ctx, explanation: str, t0: float, known_matched: list, violations: list, selftest: Optional[dict] = None) -> str:
    os.makedirs(os.path.join(VERIF, "evidence"), exist_ok=True)
    path = os.path.join(VERIF, "evidence", f"{ctx.prop}.json")
    examined = sum(r.examined for r in ctx.rules)
    samples = []
    for r in ctx.rules:
        for s in r.samples[:6]:
            samples.append({"rule": r.id, **s})
    coverage = {
        "explanation": explanation,
        "evaluations": examined,
        "distinct_nontrivial": len(ctx.constructs),
        "rule": "one evaluation = one rule instance (a call site, branch, path, table row, class or field) examined on "
        "/repo's current source; distinct = distinct (rule, construct) pairs; every instance is non-trivial in the "
        "sense that it is an obligation the rule had to discharge on real code (no generated inputs).",
        "samples": samples[:60],
        "obligations": examined,
        "discharged": sum(r.ok for r in ctx.rules) + len(known_matched),
        "modules_parsed": len(ctx.repo.modules),
        "functions_analysed": ctx.repo.n_functions(),
        "rule_instances": {
            r.id: {"description": r.desc, "examined": r.examined, "satisfied": r.ok, "violating": r.bad, "floor": r.floor}
            for r in ctx.rules
        },
        "paths_enumerated": ctx.paths_enumerated,
        "unresolved_calls": ctx.unresolved[:50],
        "known_findings_matched": [f.key() for f in known_matched],
        "source_digest": _digest(ctx.repo),
    }
    coverage.update(ctx.extra)
    if selftest is not None:
        coverage["kill_matrix"] = selftest
    ev = {
        "property_id": ctx.prop,
        "tier": ctx.tier,
        "seed": int(os.environ.get("VERIF_SEED", "0") or 0),
        "level": "other",
        "coverage": coverage,
        "assumptions": ctx.assumptions
        + [
            "Python dynamism outside the resolved program (monkey-patching, setattr on foreign objects) is not modelled",
            "the rules decide the named structural clauses of the property, not runtime values",
        ],
        "wall_s": round(time.time() - t0, 3),
        "violations": len(violations),
    }
    with open(path, "w") as f:
        json.dump(ev, f, indent=1, default=str)
    return path


def _digest(repo) -> str:
    import hashlib

    h = hashlib.sha256()
    for rel in sorted(repo.modules):
        h.update(rel.encode())
        h.update(repo.modules[rel].sha.encode())
    return h.hexdigest()[:16]


def write_replay(f: Finding) -> str:
    d = os.path.join(VERIF, "evidence", "replay")
    os.makedirs(d, exist_ok=True)
    import hashlib

    name = f"{f.property}-{f.rule}-{hashlib.sha1(f.construct.encode()).hexdigest()[:10]}.json"
    p = os.path.join(d, name)
    with open(p, "w") as fh:
        json.dump(asdict(f), fh, indent=1)
    return p


class NullRule:
    def check(self, *a, **k):
        return True

    def good(self, *a, **k):
        pass

    def violation(self, *a, **k):
        pass


class BorrowCtx:
    """Runs another property's rules and keeps only the named ones, re-filed under this property's rule id."""

    def __init__(self, ctx, keep: dict):
        self._ctx, self._keep = ctx, keep

    def rule(self, rid, desc, floor=1):
        if rid in self._keep:
            return self._ctx.rule(self._keep[rid], f"{desc} (the obligations of {rid})", floor)
        return NullRule()

    def assume(self, *a, **k):
        pass

    def __getattr__(self, name):
        return getattr(self._ctx, name)

    def __setattr__(self, name, value):
        if name in ("_ctx", "_keep"):
            object.__setattr__(self, name, value)
        # attributes the borrowed rules set on their own context (paths_enumerated, ...) are dropped
