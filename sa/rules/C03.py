"""C03 -- shallow (ultimate-reduction) cache hits respect code changes in the subtree.

The recorded subtree-task set that the shallow check trusts must be complete
whenever it is trusted: either every writer of CallNode rows writes the
CallSubtreeTask rows atomically with it, or the reader rejects call nodes whose
recorded set is empty (a job's set always contains its own task).
"""

from __future__ import annotations

import ast

from ..cfg import CFG, facts_at
from ..core import AnalysisError, FuncNode, arg_or_kw, call_name, calls_in, kwarg, last_attr, names_in, src
from ..effects import commit_summary, expr_commits

EXPLANATION = (
    "C03.1 every writer of CallNode rows (constructor calls reaching session.add) either adds the CallSubtreeTask rows "
    "with no commit point in between, or the reader _get_call_node only accepts a candidate whose recorded subtree set "
    "is non-empty and a subset of the live task hashes; subtree rows are written in one commit; C03.2 ULTIMATE results are "
    "obtained only through _get_call_node; get_call_cache is called only inside check_cache; C03.3 callers pass the live "
    "registry's task_hashes; C03.4 subtree sets are propagated on every arm of the resolve/reject finalisers and start as {task}."
    " C03.1 also: a non-atomic writer adds every CallSubtreeTask row after its last intermediate commit point (a row made durable earlier would let a half-written node pass the reader's non-empty test)."
)

SCHED = "redun/scheduler.py"
DB = "redun/backends/db/__init__.py"
SER = "redun/backends/db/serializers.py"


def reader_guard(db) -> tuple[bool, bool, str]:
    """(subset_test_present, nonempty_test_present, text) for _get_call_node's acceptance test."""
    fn = db.func("RedunBackendDb._get_call_node")
    params = [a.arg for a in fn.args.args]
    if "scheduler_task_hashes" not in params:
        raise AnalysisError("_get_call_node: parameter scheduler_task_hashes vanished", "RedunBackendDb._get_call_node")
    best = (False, False, "")
    for n in ast.walk(fn):
        conds = []
        if isinstance(n, (ast.ListComp, ast.GeneratorExp, ast.SetComp)):
            for g in n.generators:
                conds += g.ifs
        elif isinstance(n, ast.If):
            conds = [n.test]
        for cond in conds:
            atoms = cond.values if isinstance(cond, ast.BoolOp) and isinstance(cond.op, ast.And) else [cond]
            subset_expr = None
            for a in atoms:
                if isinstance(a, ast.Compare) and len(a.ops) == 1 and isinstance(a.ops[0], (ast.LtE, ast.Lt)) and src(a.comparators[0]) == "scheduler_task_hashes":
                    subset_expr = src(a.left)
                if isinstance(a, ast.Call) and last_attr(a) == "issubset" and a.args and src(a.args[0]) == "scheduler_task_hashes":
                    subset_expr = src(a.func.value)
            if subset_expr is None:
                continue
            nonempty = False
            for a in atoms:
                t = src(a)
                if t == subset_expr or t == f"len({subset_expr}) > 0" or t == f"len({subset_expr}) >= 1" or t == f"bool({subset_expr})" or t == f"len({subset_expr})":
                    nonempty = True
            if not best[0] or nonempty:
                best = (True, nonempty, src(cond))
    return best


def run(ctx):
    repo = ctx.repo
    db = repo.mod(DB)
    ser = repo.mod(SER)
    m = repo.mod(SCHED)
    cls = db.cls("RedunBackendDb")
    commits = commit_summary(cls)

    subset_ok, nonempty_ok, guard_text = reader_guard(db)

    # ---- C03.1 writer/reader completeness ----------------------------------
    r1 = ctx.rule("C03.1", "CallNode writers write subtree rows atomically, or the reader rejects empty recorded sets", floor=3)
    r1.check(subset_ok, f"{db.rel}:RedunBackendDb._get_call_node:subset-test", "acceptance test is not `recorded subtree set <= scheduler_task_hashes`", db.rel, 0, note=guard_text)
    writers = []
    for mod in repo.modules.values():
        for n in ast.walk(mod.tree):
            if isinstance(n, ast.Call) and (call_name(n) in ("CallNode", "db.CallNode")):
                cq = mod.enclosing_qual(n)
                if mod.rel == DB and cq.startswith("CallNode"):
                    continue
                writers.append((mod, cq, n))
    if len(writers) < 2:
        raise AnalysisError(f"expected >= 2 CallNode(...) constructor sites, found {len(writers)}", "CallNode(")
    for mod, cq, n in writers:
        fn = mod.enclosing_func(n)
        construct = f"{mod.rel}:{cq}:CallNode-writer"
        atomic = False
        why = "writes no CallSubtreeTask rows"
        sub_calls = [c for c in calls_in(fn) if call_name(c) in ("CallSubtreeTask", "db.CallSubtreeTask")]
        if sub_calls:
            # no commit point between the CallNode add and the last subtree add (statement order in the same block)
            why_parts = []
            inter = _commits_between(mod, fn, n, sub_calls[-1], commits)
            atomic = not inter
            why = "commit point(s) between the CallNode insert and the CallSubtreeTask inserts: " + ", ".join(inter)
        if atomic:
            r1.good(construct, "subtree rows in the same transaction")
        elif nonempty_ok:
            r1.good(construct, f"not atomic ({why}) but the reader rejects empty recorded sets")
        else:
            r1.violation(
                construct,
                f"{why}; and _get_call_node accepts a call node whose recorded subtree set is empty "
                f"(`{guard_text}`: the empty set is a subset of everything), so an interrupted/retried recording or an imported "
                "call graph is replayed even if a task beneath it changed",
                mod.rel,
                n.lineno,
            )
    marker_rows_in_final_transaction(r1, repo, nonempty_ok)
    r5 = ctx.rule("C03.5", "a call node left without subtree rows is completed by the next recording (or the CSE reader refuses the empty set)", floor=1)
    subtree_repair_obligation(r5, repo)
    # C03.6: the set the recorded subtree is compared with (C03.3: <registry>.task_hashes) is exactly the hashes of the tasks the registry holds now.
    # A hash that stays counted after its task was redefined makes an old call node look current.  The pairing obligations are C37.1's.
    from . import C37 as _c37

    from ..report import BorrowCtx

    _c37.run(BorrowCtx(ctx, {"C37.1": "C03.6"}))
    # subtree rows for one call node are written in one transaction
    rc = db.func("RedunBackendDb.record_call_node")
    loops = [st for st in ast.walk(rc) if isinstance(st, ast.For) and any(call_name(c) == "CallSubtreeTask" for c in calls_in(st))]
    if not loops:
        raise AnalysisError("record_call_node: loop adding CallSubtreeTask rows not found", "RedunBackendDb.record_call_node")
    for lp in loops:
        inner = expr_commits(lp, commits)
        # the loop ranges over the whole parameter: `subtree_tasks` itself or a local copy of it (`x = list(subtree_tasks)`)
        it_ok = src(lp.iter) == "subtree_tasks"
        if not it_ok and isinstance(lp.iter, ast.Name):
            defs = [a.value for a in ast.walk(rc) if isinstance(a, ast.Assign) and any(isinstance(t, ast.Name) and t.id == lp.iter.id for t in a.targets)]
            it_ok = bool(defs) and all(
                src(d) == "subtree_tasks" or (isinstance(d, ast.Call) and call_name(d) in ("list", "tuple", "set", "sorted", "frozenset") and len(d.args) == 1 and src(d.args[0]) == "subtree_tasks")
                for d in defs
            )
        r1.check(not inner and it_ok, f"{db.rel}:RedunBackendDb.record_call_node:subtree-loop", f"subtree rows are not added for every task of subtree_tasks in one transaction (commits inside loop: {inner}, iter={src(lp.iter)})", db.rel, lp.lineno)

    # ---- C03.2 single gate ---------------------------------------------------
    r2 = ctx.rule("C03.2", "ULTIMATE results come only through _get_call_node; get_call_cache only inside check_cache", floor=2)
    cc = db.func("RedunBackendDb.check_cache")
    for mod, c in repo.all_calls(lambda c: last_attr(c) == "get_call_cache"):
        q = mod.enclosing_qual(c)
        r2.check(mod.rel == DB and q == "RedunBackendDb.check_cache", f"{mod.rel}:{q}:get_call_cache", "get_call_cache (replay of a recorded final result) is called outside check_cache", mod.rel, c.lineno)
    # in check_cache: the statement that sets cache_type = ULTIMATE is dominated by a truthy test of a variable assigned from _get_call_node
    cfg = CFG(cc)
    ult = [n for n in cfg.nodes if n.kind == "stmt" and isinstance(n.ast, ast.Assign) and src(n.ast.value) == "CacheResult.ULTIMATE"]
    if not ult:
        raise AnalysisError("check_cache: assignment of CacheResult.ULTIMATE not found", "RedunBackendDb.check_cache")
    gate_vars = set()
    for n in ast.walk(cc):
        if isinstance(n, ast.Assign) and isinstance(n.value, ast.Call) and call_name(n.value) == "self._get_call_node":
            gate_vars |= {t.id for t in n.targets if isinstance(t, ast.Name)}
            a = n.value
            passed = arg_or_kw(a, 2, "scheduler_task_hashes")
            r2.check(passed is not None and src(passed) == "scheduler_task_hashes", f"{db.rel}:RedunBackendDb.check_cache:_get_call_node-args", "check_cache does not forward scheduler_task_hashes to _get_call_node", db.rel, n.lineno)
    for u in ult:
        dom_ok = False
        for d in cfg.dominators()[u]:
            if d.kind == "edge" and d.label == "T" and isinstance(d.test.ast, ast.Name) and d.test.ast.id in gate_vars:
                dom_ok = True
        # the value returned with ULTIMATE comes from get_call_cache(<hash of that call node>)
        r2.check(dom_ok, f"{db.rel}:RedunBackendDb.check_cache:ULTIMATE", "cache_type ULTIMATE is set without a call node obtained from _get_call_node", db.rel, u.lineno)

    # ---- C03.3 comparison set is the live registry ----------------------------
    r3 = ctx.rule("C03.3", "check_cache callers pass <registry>.task_hashes as scheduler_task_hashes", floor=2)
    base_params = [a.arg for a in repo.mod("redun/backends/base.py").func("RedunBackend.check_cache").args.args][1:]
    si = base_params.index("scheduler_task_hashes")
    for mod, c in repo.all_calls(lambda c: last_attr(c) == "check_cache"):
        q = mod.enclosing_qual(c)
        v = arg_or_kw(c, si, "scheduler_task_hashes")
        ok = v is not None and src(v).endswith(".task_registry.task_hashes")
        r3.check(ok, f"{mod.rel}:{q}:check_cache", f"scheduler_task_hashes is {src(v) or 'missing'}, not the live task registry's task_hashes", mod.rel, c.lineno)

    # ---- C03.4 propagation ------------------------------------------------------
    r4 = ctx.rule("C03.4", "subtree task sets start as {task}, union finished children, and are maintained on every finaliser arm", floor=4)
    init = m.func("Job.__init__")
    ok = False
    for st in ast.walk(init):
        tgt = st.target if isinstance(st, ast.AnnAssign) else (st.targets[0] if isinstance(st, ast.Assign) else None)
        if tgt is not None and src(tgt) == "self.subtree_tasks":
            v = st.value
            ok = isinstance(v, ast.Set) and len(v.elts) == 1 and src(v.elts[0]) == "task"
    r4.check(ok, f"{m.rel}:Job.__init__:subtree_tasks", "a job's subtree_tasks no longer starts as {task}", m.rel, init.lineno)
    cst = m.func("Job.calc_subtree_tasks")
    ok = False
    for st in ast.walk(cst):
        if isinstance(st, ast.For) and src(st.iter) == "self.child_jobs":
            v = st.target.id if isinstance(st.target, ast.Name) else "?"
            for c in calls_in(st):
                if call_name(c) == "self.subtree_tasks.update" and c.args and src(c.args[0]) == f"{v}.subtree_tasks":
                    ok = True
    rets = [r for r in ast.walk(cst) if isinstance(r, ast.Return)]
    ok = ok and all(src(r.value) == "self.subtree_tasks" for r in rets) and rets
    r4.check(bool(ok), f"{m.rel}:Job.calc_subtree_tasks", "calc_subtree_tasks does not union every finished child's subtree set into the job's own", m.rel, cst.lineno)
    # finalisers pass the computed set to record_call_node
    for q in ("Scheduler._resolve_job_main_thread", "Scheduler._reject_job_main_thread"):
        fn = m.func(q)
        jv = fn.args.args[1].arg
        for c in calls_in(fn, shallow=True):
            if call_name(c) == "self.backend.record_call_node":
                v = kwarg(c, "subtree_tasks")
                good = False
                if v is not None:
                    if src(v) == f"{jv}.calc_subtree_tasks()":
                        good = True
                    elif isinstance(v, ast.Name):
                        defs = [a for a in ast.walk(fn) if isinstance(a, ast.Assign) and any(isinstance(t, ast.Name) and t.id == v.id for t in a.targets)]
                        good = bool(defs) and all(src(a.value) == f"{jv}.calc_subtree_tasks()" for a in defs)
                r4.check(good, f"{m.rel}:{q}:record_call_node.subtree_tasks", "record_call_node is not given job.calc_subtree_tasks()", m.rel, c.lineno)
    # cached arm of resolve: both check_valid arms maintain subtree_tasks
    rs = m.func("Scheduler._resolve_job_main_thread")
    jv = rs.args.args[1].arg
    arm = None
    for st in ast.walk(rs):
        if isinstance(st, ast.If) and src(st.test) == f"{jv}.call_hash":
            arm = st
    if arm is None:
        raise AnalysisError("resolve finaliser: `if job.call_hash:` arm not found", "Scheduler._resolve_job_main_thread")
    cfg = CFG(rs)
    tnode = cfg.node_of(arm.test)
    maint = set()
    for n in cfg.nodes:
        if n.kind == "stmt" and n.ast is not None:
            t = src(n.ast)
            if f"{jv}.calc_subtree_tasks()" in t or (isinstance(n.ast, ast.Assign) and src(n.ast.targets[0]) == f"{jv}.subtree_tasks" and "_get_subtree_tasks" in t):
                maint.add(n)
    ends = [cfg.node_of(c) for c in calls_in(rs, shallow=True) if call_name(c) == f"{jv}.resolve"]
    ok = bool(ends) and all(cfg.must_pass(e, maint, targets=ends) for e in cfg.edge_nodes(tnode, "T"))
    r4.check(ok, f"{m.rel}:Scheduler._resolve_job_main_thread:cached-arm", "a cached job can be resolved without its subtree task set being maintained (parents above a shallow hit would record an incomplete set)", m.rel, arm.lineno)
    # a hit whose *final* result is used (no child job is evaluated under the job) must take its subtree set from the backend record:
    # that is the case for ULTIMATE reduction and for CSE hits, whatever the job's check_valid option says.  The children-based
    # calc_subtree_tasks() on the cached arm is only right for single reduction.
    gc = m.func("Scheduler._get_cache")
    gcfg = CFG(gc)
    gj = gc.args.args[1].arg
    final_rets = []
    for n in gcfg.nodes:
        if n.kind == "stmt" and isinstance(n.ast, ast.Return) and isinstance(n.ast.value, ast.Tuple) and len(n.ast.value.elts) == 3 and src(n.ast.value.elts[1]) == "True":
            fs = facts_at(gcfg, n)
            if any(t and "CacheResult.CSE" in f and "==" in f for f, t in fs):
                final_rets.append(n)
    if not final_rets:
        raise AnalysisError("_get_cache: the CSE arm returning (result, True, call_hash) was not found", "Scheduler._get_cache")
    markers = set()
    for rn in final_rets:
        for n in gcfg.nodes:
            if n.kind == "stmt" and isinstance(n.ast, ast.Assign) and isinstance(n.ast.targets[0], ast.Attribute) and src(n.ast.targets[0].value) == gj and src(n.ast.value) == "True" and gcfg.dominates(n, rn):
                if any(t and "CacheResult.CSE" in f for f, t in facts_at(gcfg, n)):
                    markers.add(n.ast.targets[0].attr)
    calc_nodes = [n for n in cfg.nodes if n.kind == "stmt" and n.ast is not None and f"{jv}.calc_subtree_tasks()" in src(n.ast) and any(cfg.dominates(e, n) for e in cfg.edge_nodes(tnode, "T"))]
    for cn in calc_nodes:
        fs = facts_at(cfg, cn)
        excluded = any((f"{jv}.{mk}", False) in fs for mk in markers)
        r4.check(
            excluded,
            f"{m.rel}:Scheduler._resolve_job_main_thread:cached-arm:cse",
            f"on the cached arm `{src(cn.ast)}` (children-based subtree set) is chosen from the check_valid option alone; a CSE hit of a fully-checked call uses the final result, has no "
            f"child jobs, and ends with the set {{own task}} (markers set by _get_cache on its CSE return: {sorted(markers) or 'none'}): a shallow-checked ancestor then records an incomplete set "
            "and replays a stale result after a task below the CSE hit changes",
            m.rel,
            cn.lineno,
        )
    gs = m.func("Scheduler._get_subtree_tasks")
    ok = any(call_name(c) == "self.backend.get_subtree_tasks" and c.args and src(c.args[0]).endswith(".call_hash") for c in calls_in(gs))
    r4.check(ok, f"{m.rel}:Scheduler._get_subtree_tasks", "_get_subtree_tasks does not query the backend for the hit's call_hash", m.rel, gs.lineno)

    # ---- C03.7 every job that resolves carries a call hash ----------------------------------------------
    # Job.calc_subtree_tasks() unions a child's subtree set only when the child has a call_hash ("finished"); a job resolved without one
    # -- e.g. a job deep inside an unrecorded (prov=False / no_prov) subtree -- is invisible to every ancestor's subtree set, and an edit
    # beneath it is ignored by a shallow replay of the ancestor.
    r7 = ctx.rule("C03.7", "every path through the resolve finaliser to job.resolve() establishes job.call_hash", floor=1)
    cfg7 = CFG(rs)
    t7 = cfg7.node_of(arm.test)
    estab = set(cfg7.edge_nodes(t7, "T"))
    for n in cfg7.nodes:
        if n.kind == "stmt" and isinstance(n.ast, ast.Assign) and any(src(t) == f"{jv}.call_hash" for t in n.ast.targets):
            if not (isinstance(n.ast.value, ast.Constant) and n.ast.value.value is None):
                estab.add(n)
    ends7 = [cfg7.node_of(c) for c in calls_in(rs, shallow=True) if call_name(c) == f"{jv}.resolve"]
    if not ends7:
        raise AnalysisError("resolve finaliser no longer calls job.resolve()", "Scheduler._resolve_job_main_thread")
    r7.check(
        cfg7.must_pass(cfg7.entry, estab, targets=ends7),
        f"{m.rel}:Scheduler._resolve_job_main_thread:call-hash-on-every-path",
        "a job can reach job.resolve() without a call_hash (neither the `if job.call_hash` arm nor an assignment to job.call_hash is on the path): "
        "calc_subtree_tasks() treats a child without call_hash as unfinished and leaves its tasks out of every ancestor's subtree set, so a shallow "
        "ancestor replays a stale result after a task beneath that job is edited",
        m.rel,
        rs.lineno,
    )

    # ---- C03.8 a reused *failed* call brings its recorded subtree set along -----------------------------------
    # The reject finaliser reuses the call node of an equivalent failed call (`if job.call_hash:`: a same-execution hit or a job collapsed onto
    # a failing twin).  No child job ran under this job, so calc_subtree_tasks() is {own task}; the tasks that ran beneath the recorded call
    # must come from the backend, as on the cached arm of the resolve finaliser -- otherwise a shallow ancestor that catches the error
    # records an incomplete set and replays a stale result after one of those tasks is edited.
    r8 = ctx.rule("C03.8", "the reject finaliser takes the subtree set of a reused failed call from the backend record", floor=1)
    rj8 = m.func("Scheduler._reject_job_main_thread")
    jv8 = rj8.args.args[1].arg
    cfg8 = CFG(rj8)
    tests8 = [n for n in cfg8.nodes if n.kind == "test" and isinstance(n.ast, ast.expr) and src(n.ast) == f"{jv8}.call_hash"]
    if not tests8:
        raise AnalysisError("reject finaliser: `if job.call_hash:` arm not found", "Scheduler._reject_job_main_thread")
    maint8 = {
        n
        for n in cfg8.nodes
        if n.kind == "stmt" and isinstance(n.ast, ast.Assign) and any(src(t) == f"{jv8}.subtree_tasks" for t in n.ast.targets) and "_get_subtree_tasks" in src(n.ast.value)
    }
    ends8 = [cfg8.node_of(c) for c in calls_in(rj8, shallow=True) if call_name(c) == f"{jv8}.reject"]
    ok8 = bool(ends8) and bool(maint8) and all(cfg8.must_pass(e, maint8, targets=ends8) for t in tests8 for e in cfg8.edge_nodes(t, "T"))
    r8.check(
        ok8,
        f"{m.rel}:Scheduler._reject_job_main_thread:reused-failed-call-subtree",
        "on the arm that reuses the call node of an equivalent failed call the job keeps calc_subtree_tasks() = {own task}: with Q(x) = catch(F(x), ..) run first and a shallow "
        "P(x) = catch(F(x), ..) hitting the failed F(x) in the same execution, P is recorded without the tasks that ran beneath F, and after one of them is edited P is replayed",
        m.rel,
        rj8.lineno,
    )


def marker_rows_in_final_transaction(rule, repo, nonempty_ok=None):
    """A CallNode writer that is not atomic relies on the reader's `recorded set is non-empty` test to tell an interrupted recording from a
    finished one.  That only works when *every* CallSubtreeTask row of the node is added after the last intermediate commit point: a row added
    earlier becomes durable with the half-written node and makes it look finished (with a subtree set that misses the children's tasks)."""
    db = repo.mod(DB)
    commits = commit_summary(db.cls("RedunBackendDb"))
    if nonempty_ok is None:
        _, nonempty_ok, _ = reader_guard(db)
    n_sites = 0
    for mod in repo.modules.values():
        for n in ast.walk(mod.tree):
            if not (isinstance(n, ast.Call) and call_name(n) in ("CallNode", "db.CallNode")):
                continue
            cq = mod.enclosing_qual(n)
            if mod.rel == DB and cq.startswith("CallNode"):
                continue
            fn = mod.enclosing_func(n)
            subs = sorted((c for c in calls_in(fn) if call_name(c) in ("CallSubtreeTask", "db.CallSubtreeTask")), key=lambda c: (c.lineno, c.col_offset))
            if not subs:
                continue
            n_sites += 1
            # path-sensitive: a row added at A is made durable too early when a commit point C is reachable from A and another add B (possibly A
            # itself, through a loop) is reachable from C.  Adds on mutually exclusive arms (new node / completing an existing one) do not interact.
            wcfg = CFG(fn)
            def _own(nd):
                return nd.kind in ("stmt", "test") and nd.ast is not None and not isinstance(nd.ast, (FuncNode, ast.ClassDef, ast.Try, ast.If, ast.For, ast.While, ast.With))
            add_nodes = [nd for nd in wcfg.nodes if _own(nd) and any(isinstance(c, ast.Call) and call_name(c) in ("CallSubtreeTask", "db.CallSubtreeTask") for c in ast.walk(nd.ast))]
            commit_nodes = [nd for nd in wcfg.nodes if _own(nd) and expr_commits(nd.ast, commits)]
            for nd in wcfg.nodes:
                if nd.kind in ("stmt", "test") and isinstance(nd.ast, (ast.For,)) and expr_commits(nd.ast.iter, commits):
                    commit_nodes.append(nd)
            early = None
            for a in add_nodes:
                after_a = wcfg.reachable(a)
                for c in commit_nodes:
                    if c is a or c not in after_a:
                        continue
                    after_c = wcfg.reachable(c)
                    if any(b in after_c and b is not c for b in add_nodes):
                        early = (a, c)
                        break
                if early:
                    break
            rule.check(
                early is None,
                f"{mod.rel}:{cq}:subtree-marker",
                (
                    f"the CallSubtreeTask row added at line {early[0].lineno} is committed by {', '.join(sorted(set(expr_commits(early[1].ast if not isinstance(early[1].ast, ast.For) else early[1].ast.iter, commits))))} "
                    f"(line {early[1].lineno}) before the remaining subtree rows are written: "
                    "an interrupted or retried recording leaves a call node with a non-empty but partial subtree set, which passes _get_call_node's `recorded set is non-empty` guard and is "
                    "replayed by ultimate reduction even after a task whose row is missing was edited"
                )
                if early
                else "",
                mod.rel,
                early[0].lineno if early else n.lineno,
            )
    if n_sites < 1:
        raise AnalysisError("no CallNode writer that also writes CallSubtreeTask rows found", "CallSubtreeTask")


def _commits_after(mod, fn, node, commits) -> list[str]:
    from ..core import stmt_of

    s1 = stmt_of(mod, node)
    out = []
    for st in ast.walk(fn):
        if isinstance(st, ast.stmt) and not isinstance(st, (ast.If, ast.For, ast.While, ast.With, ast.Try, FuncNode)) and (st.lineno, st.col_offset) > (s1.end_lineno, s1.end_col_offset):
            out += expr_commits(st, commits)
    return out


def _commits_between(mod, fn, first: ast.AST, last: ast.AST, commits) -> list[str]:
    """Commit points in statements located (in source order, same function) strictly after the statement
    containing `first` and up to and including the statement containing `last`."""
    from ..core import stmt_of

    s1, s2 = stmt_of(mod, first), stmt_of(mod, last)
    # climb s2 to the loop statement if the add happens in a loop
    out = []
    lo = (s1.end_lineno, s1.end_col_offset)
    hi = (s2.lineno, s2.col_offset)
    for st in ast.walk(fn):
        if isinstance(st, ast.stmt) and not isinstance(st, (ast.If, ast.For, ast.While, ast.With, ast.Try, FuncNode)):
            pos = (st.lineno, st.col_offset)
            if lo < pos < hi:
                out += expr_commits(st, commits)
    return out


def subtree_repair_obligation(rule, repo):
    """C03.5: the scheduler reads a call node's recorded subtree set in two places: _get_call_node (which refuses empty sets) and
    Scheduler._get_subtree_tasks, used for same-execution (CSE) hits, which takes whatever is there.  A node left without rows -- an interrupted
    recording (known finding C22.1) or a node imported by `redun pull` (subtree rows are not transferred) -- is never completed, because
    record_call_node skips an existing node; a CSE hit on it then contributes an empty set, the enclosing job is recorded with a subtree set that
    lacks everything beneath that call, and a later edit there is ignored by the enclosing job's shallow replay.  Either the CSE reader refuses an
    empty set, or record_call_node completes a node that exists without subtree rows."""
    db = repo.mod(DB)
    m = repo.mod(SCHED)
    rc = db.func("RedunBackendDb.record_call_node")
    cfg = CFG(rc)
    repairs = False
    for n in cfg.nodes:
        if n.kind == "stmt" and n.ast is not None and any(isinstance(c, ast.Call) and call_name(c) in ("CallSubtreeTask", "db.CallSubtreeTask") for c in ast.walk(n.ast)) and not isinstance(n.ast, (ast.For, ast.If, ast.With, ast.Try)):
            facts = facts_at(cfg, n)
            exists_arm = any("query(CallNode)" in f and t for f, t in facts)
            no_rows = any("query(CallSubtreeTask)" in f and not t for f, t in facts)
            if exists_arm and no_rows:
                repairs = True
    gst = m.func("Scheduler._get_subtree_tasks")
    reader_guard = any(isinstance(t, ast.If) and "subtree_task_hashes" in src(t.test) and ("not " in src(t.test) or "len(" in src(t.test)) for t in ast.walk(gst))
    rule.check(
        repairs or reader_guard,
        f"{db.rel}:RedunBackendDb.record_call_node:completes-node-without-subtree-rows",
        "a call node that exists without CallSubtreeTask rows (interrupted recording, or imported by pull) is never completed -- record_call_node skips an existing node -- and "
        "Scheduler._get_subtree_tasks takes the empty set at face value on a same-execution (CSE) hit: repo B pulls leaf(1) from repo A and runs second(first(1), 1) where both call leaf(1); "
        "`second` (check_valid=shallow) is recorded without leaf in its subtree set and, after leaf is edited, B.run(second(2, 1)) replays the stale result",
        db.rel,
        rc.lineno,
    )
