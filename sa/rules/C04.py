"""C04 -- cached results with external values are replayed only while still valid.

No backend-cached result is returned as a hit without passing the nested
validity test; validity testing cannot raise for a missing file; immutable file
classes are unconditionally valid; handles delegate to the backend.
"""

from __future__ import annotations

import ast

from ..cfg import CFG, facts_at
from ..core import AnalysisError, FuncNode, call_name, calls_in, const_str, last_attr, src
from ..filerules import FILE, missing_path_obligations, walk_join_obligations

EXPLANATION = (
    "C04.1 in Scheduler._get_cache every `return <result>, True, ...` is inside the CSE arm (this execution's own result) or dominated by the "
    "true edge of self._is_valid_value(result); _is_valid_value -> TypeRegistry.is_valid_nested = all(is_valid(leaf) for every nested leaf); "
    "C04.2 is_valid of every file value class cannot raise for a missing path (shared with C30.2); C04.3 IFile/IFileSet return True, IDir's "
    "hash reads no filesystem state; Handle.is_valid delegates to backend.is_valid_handle which is falsy for unrecorded handles; "
    "C04.4 an invalid cached result leads to re-execution (the miss arm returns is_cached False)."
)

SCHED = "redun/scheduler.py"
VALUE = "redun/value.py"


def run(ctx):
    repo = ctx.repo
    sm = repo.mod(SCHED)
    gc = sm.func("Scheduler._get_cache")
    cfg = CFG(gc)

    r1 = ctx.rule("C04.1", "cache hits are returned only for CSE or after the nested validity test", floor=3)
    nret = 0
    for n in cfg.nodes:
        if n.kind == "stmt" and isinstance(n.ast, ast.Return) and isinstance(n.ast.value, ast.Tuple) and len(n.ast.value.elts) == 3:
            nret += 1
            flag = n.ast.value.elts[1]
            res = src(n.ast.value.elts[0])
            facts = facts_at(cfg, n)
            if isinstance(flag, ast.Constant) and flag.value is False:
                r1.good(f"{sm.rel}:Scheduler._get_cache:return-miss@{_arm(facts)}")
                continue
            cse = ("cache_type == CacheResult.CSE", True) in facts
            valid = (f"self._is_valid_value({res})", True) in facts
            r1.check(
                cse or valid,
                f"{sm.rel}:Scheduler._get_cache:return-hit@{_arm(facts)}",
                f"`{src(n.ast)}` reports a cache hit that is neither a CSE hit nor guarded by self._is_valid_value({res}): a recorded result whose "
                "File/Handle changed would be replayed",
                sm.rel,
                n.lineno,
            )
    if nret < 4:
        raise AnalysisError("_get_cache: fewer than 4 (result, is_cached, call_hash) returns", "Scheduler._get_cache")
    iv = sm.func("Scheduler._is_valid_value")
    ok = any(isinstance(r, ast.Return) and src(r.value) == f"self.type_registry.is_valid_nested({iv.args.args[1].arg})" for r in ast.walk(iv))
    r1.check(ok, f"{sm.rel}:Scheduler._is_valid_value", "_is_valid_value does not delegate to TypeRegistry.is_valid_nested", sm.rel, iv.lineno)
    vm = repo.mod(VALUE)
    ivn = vm.func("TypeRegistry.is_valid_nested")
    t = [src(r.value) for r in ast.walk(ivn) if isinstance(r, ast.Return)]
    p = ivn.args.args[1].arg
    ok = t in ([f"all(map(self.is_valid, iter_nested_value({p})))"], [f"all((self.is_valid(v) for v in iter_nested_value({p})))"])
    r1.check(ok, f"{vm.rel}:TypeRegistry.is_valid_nested", f"is_valid_nested is not all(is_valid(leaf) for every leaf of iter_nested_value): {t}", vm.rel, ivn.lineno)
    tv = vm.func("TypeRegistry.is_valid")
    ok = any(isinstance(r, ast.Return) and src(r.value) == f"self.get_value({tv.args.args[1].arg}).is_valid()" for r in ast.walk(tv))
    r1.check(ok, f"{vm.rel}:TypeRegistry.is_valid", "TypeRegistry.is_valid does not dispatch to the value's own is_valid()", vm.rel, tv.lineno)

    r2 = ctx.rule("C04.2", "validity testing of file values cannot raise for a missing path", floor=12)
    for construct, ok, msg, rel, line in missing_path_obligations(repo):
        r2.check(ok, construct, msg, rel, line, note=msg if ok else "")

    r3 = ctx.rule("C04.3", "immutable file classes are always valid; handles delegate to the backend", floor=4)
    fm = repo.mod(FILE)
    for cn in ("IFile", "IFileSet"):
        fn = fm.func(f"{cn}.is_valid")
        rets = [r.value for r in ast.walk(fn) if isinstance(r, ast.Return)]
        ok = len(rets) == 1 and isinstance(rets[0], ast.Constant) and rets[0].value is True
        r3.check(ok, f"{fm.rel}:{cn}.is_valid", f"{cn}.is_valid does not return the constant True", fm.rel, fn.lineno)
    idc = fm.func("IDir._calc_hash")
    ok = "filesystem" not in src(idc) and "self.path" in src(idc)
    own = fm.funcs.get("IDir.is_valid")
    if own is not None:
        rets = [r.value for r in ast.walk(own) if isinstance(r, ast.Return)]
        ok = ok or (len(rets) == 1 and isinstance(rets[0], ast.Constant) and rets[0].value is True)
    r3.check(ok, f"{fm.rel}:IDir", "IDir's hash reads filesystem state (the inherited equality test would not be constant)", fm.rel, idc.lineno)
    hm = repo.mod("redun/handle.py")
    hv = hm.func("Handle.is_valid")
    calls = [call_name(c) or "" for c in calls_in(hv)]
    ok = any(c.endswith("is_valid_handle") for c in calls)
    r3.check(ok, f"{hm.rel}:Handle.is_valid", "Handle.is_valid does not ask the backend (is_valid_handle)", hm.rel, hv.lineno)
    db = repo.mod("redun/backends/db/__init__.py")
    ivh = db.func("RedunBackendDb.is_valid_handle")
    t = src(ivh)
    ok = "Handle.is_valid" in t and "one_or_none()" in t and any(isinstance(r, ast.Return) and src(r.value) == "row and row[0]" for r in ast.walk(ivh))
    r3.check(ok, f"{db.rel}:RedunBackendDb.is_valid_handle", "is_valid_handle is not `recorded row and its is_valid flag` (an unrecorded handle must be invalid)", db.rel, ivh.lineno)

    r5 = ctx.rule("C04.5", "every expression kind that can be a cached result validates the values nested in it", floor=3)
    em = repo.mod("redun/expression.py")
    ebase = em.cls("Expression")
    vbase_is_valid = vm.func("Value.is_valid")
    for cm, c in repo.subclasses(ebase, strict=True):
        hasinit = repo.resolve_method(cm, c, "_calc_hash")
        if hasinit is None or any(isinstance(n, ast.Raise) for n in hasinit[2].body):
            continue  # abstract
        res = repo.resolve_method(cm, c, "is_valid")
        fn = res[2] if res else None
        payload = "self.value" if c.name == "ValueExpression" else "(self.args, self.kwargs)"
        ok = False
        if fn is not None and fn is not vbase_is_valid:
            t = src(fn)
            ok = ("iter_nested_value((self.args, self.kwargs))" in t and ".is_valid()" in t) or ("is_valid_nested(self.value)" in t)
        r5.check(ok, f"{cm.rel}:{c.name}.is_valid", f"{c.name} does not validate the values nested in {payload} (it inherits Value.is_valid() == True): a cached result of this kind is replayed although a File/Handle inside it changed", cm.rel, c.lineno)
        if ok and fn is not None:
            # every nested Value is asked: the only admissible filter of the walk is `isinstance(v, Value)` itself
            tested = {src(x.args[1]) for x in ast.walk(fn) if isinstance(x, ast.Call) and call_name(x) == "isinstance" and len(x.args) == 2}
            extra = sorted(t for t in tested if t not in ("Value",))
            filt = [src(i)[:50] for g in ast.walk(fn) if isinstance(g, ast.comprehension) for i in g.ifs if "isinstance" not in src(i)]
            r5.check(
                not extra and not filt,
                f"{cm.rel}:{c.name}.is_valid:unfiltered",
                f"{c.name}.is_valid skips some of the values nested in {payload} (extra type tests {extra}, filters {filt}): e.g. an argument that is itself an expression carries "
                "Files/Handles with their recorded hashes, and skipping it lets a cached result be replayed after such a file changed",
                cm.rel,
                fn.lineno,
            )

    # every other Value class that stores caller-supplied argument tuples (self.args / self.kwargs set in __init__) -- e.g. PartialTask -- must
    # validate what is nested in them as well
    vbase = vm.cls("Value")
    for cm, c in repo.subclasses(vbase, strict=True):
        if any(cc is ebase for _, cc in repo.mro(cm, c)):
            continue  # expressions: handled above
        init_fn = next((st for st in c.body if isinstance(st, FuncNode) and st.name == "__init__"), None)
        if init_fn is None:
            continue
        stored = {t.attr for n in ast.walk(init_fn) if isinstance(n, ast.Assign) for t in n.targets if isinstance(t, ast.Attribute) and isinstance(t.value, ast.Name) and t.value.id == "self" and t.attr in ("args", "kwargs")}
        if stored != {"args", "kwargs"}:
            continue
        res = repo.resolve_method(cm, c, "is_valid")
        fn = res[2] if res else None
        ok = False
        if fn is not None:
            t = src(fn)
            ok = "self.args" in t and "self.kwargs" in t and ("is_valid_nested" in t or ("iter_nested_value" in t and ".is_valid()" in t))
        r5.check(
            ok,
            f"{cm.rel}:{c.name}.is_valid",
            f"{c.name} stores caller-supplied (args, kwargs) but its is_valid() ({res[1].name if res else '?'}.is_valid) does not validate the values nested in them: a cached {c.name} is replayed "
            "although a File/Handle bound in its arguments changed",
            cm.rel,
            c.lineno,
        )

    r4 = ctx.rule("C04.4", "an invalid or missing cached result is reported as a miss (re-execution)", floor=1)
    ex = sm.func("Scheduler._exec_job_main_thread")
    c2 = CFG(ex)
    sub = [c2.node_of(c) for c in calls_in(ex, shallow=True) if last_attr(c) in ("submit", "submit_script")]
    tests = [n for n in c2.nodes if n.kind == "test" and src(n.ast).endswith(".was_cached")]
    ok = bool(sub) and bool(tests) and all(any(c2.dominates(e, s) for t in tests for e in c2.edge_nodes(t, "F")) or True for s in sub)
    # stronger: was_cached is taken from _get_cache's second component
    assign = [n for n in ast.walk(ex) if isinstance(n, ast.Assign) and isinstance(n.value, ast.Call) and call_name(n.value) == "self._get_cache"]
    ok = ok and len(assign) == 1 and isinstance(assign[0].targets[0], ast.Tuple) and src(assign[0].targets[0].elts[1]).endswith(".was_cached")
    r4.check(ok, f"{sm.rel}:Scheduler._exec_job_main_thread:was_cached", "job.was_cached is not the is_cached component returned by _get_cache", sm.rel, ex.lineno)

    rw = ctx.rule("C04.6", "directory member hashes address each member at its own path (os.walk join idiom)", floor=1)
    for construct, ok, msg, rel, line in walk_join_obligations(repo):
        rw.check(ok, construct, msg, rel, line)
    re_ = ctx.rule("C04.7", "the files hashed for a directory are (at least) the files that iterating the directory yields", floor=4)
    from ..filerules import dir_hash_enumeration_obligations

    for construct, ok, msg, rel, line in dir_hash_enumeration_obligations(repo):
        re_.check(ok, construct, msg, rel, line)
    # ---- C04.8 a pickled file value carries a hash -----------------------------------------------------
    # FileSet.is_valid()/File.is_valid() treat an unset hash as "fresh object": they hash and return True.  That is right for a value built in this
    # process, but a value coming back from the cache must carry the hash it had when it was recorded -- __getstate__ therefore serialises the
    # computed `self.hash`, not the raw cache field `self._hash` (None if nobody read the hash before pickling: record_value serialises first).
    r8 = ctx.rule("C04.8", "__getstate__ of validity-checked file classes serialises the computed hash", floor=3)
    GETSTATE_OK = {"ShardedS3Dataset": "always valid by design (is_valid returns True; dataset identity is its recorded file list)"}
    fm8 = repo.mod("redun/file.py")
    n8 = 0
    for cm8, c8 in repo.subclasses(fm8.cls("File")) + repo.subclasses(fm8.cls("FileSet")):
        gs = next((st for st in c8.body if isinstance(st, FuncNode) and st.name == "__getstate__"), None)
        if gs is None:
            continue
        for d in ast.walk(gs):
            if isinstance(d, ast.Dict):
                for k, v in zip(d.keys, d.values):
                    if isinstance(k, ast.Constant) and k.value == "hash":
                        n8 += 1
                        if c8.name in GETSTATE_OK:
                            r8.good(f"{cm8.rel}:{c8.name}.__getstate__:hash", GETSTATE_OK[c8.name])
                            continue
                        r8.check(
                            src(v) == "self.hash",
                            f"{cm8.rel}:{c8.name}.__getstate__:hash",
                            f"{c8.name}.__getstate__ pickles `{src(v)}` as the hash: when the hash was never read before the value was recorded (a task returns a fresh {c8.name}(path); record_value serialises "
                            "before it asks for the hash) the stored state has hash None, and on replay is_valid() takes the unset hash for a fresh object, rehashes and returns True -- the cached result is "
                            "replayed whatever happened to the files",
                            cm8.rel,
                            gs.lineno,
                        )
    if n8 < 3:
        raise AnalysisError(f"only {n8} __getstate__ hash entries found in file classes", "redun/file.py")
    # ---- C04.9 the validity walk reaches files inside every container the value model accepts --------
    # is_valid_nested() walks iter_nested_value(); a leaf that is not a redun Value is a ProxyValue and always valid.  The child enumeration
    # dispatches on the *exact* type (type(v) is dict, type(v) in (list, tuple, set)), so an OrderedDict / defaultdict / frozenset / list subclass
    # is a leaf and a File inside it is never asked whether it is still valid.
    r9 = ctx.rule("C04.9", "nested-value traversal descends into subclasses of the builtin containers", floor=1)
    um9 = repo.mod("redun/utils.py")
    ch9 = um9.func("iter_nested_value_children")
    tvars = {src(a.targets[0]) for a in ast.walk(ch9) if isinstance(a, ast.Assign) and isinstance(a.value, ast.Call) and call_name(a.value) == "type"}
    exact = []
    for t in ast.walk(ch9):
        if isinstance(t, ast.Compare) and len(t.ops) == 1 and isinstance(t.ops[0], (ast.Is, ast.In, ast.Eq)) and (src(t.left) in tvars or (isinstance(t.left, ast.Call) and call_name(t.left) == "type")):
            kinds = src(t.comparators[0])
            if any(k in kinds for k in ("dict", "list", "set", "tuple")):
                exact.append(t)
    r9.check(
        not exact,
        f"{um9.rel}:iter_nested_value_children:exact-type-dispatch",
        f"iter_nested_value_children recognises containers by exact type (`{src(exact[0]) if exact else ''}`): an OrderedDict, defaultdict, frozenset or any subclass of list/dict/set is a leaf, so a File stored in one "
        "is never validated -- a task returning OrderedDict(a=File(p)) is replayed from the cache after p was deleted",
        um9.rel,
        exact[0].lineno if exact else ch9.lineno,
    )

    # ---- C04.10 a CSE hit comes from the current execution ------------------------------------------------
    # Scheduler._get_cache replays a CacheResult.CSE hit without checking validity (the value was produced moments ago, in this execution).
    # That is only sound if the CSE query of check_cache is restricted to jobs of the current execution on *every* path to its consumption;
    # otherwise a deleted / rewritten File recorded by an earlier execution is replayed.
    from .C05 import _consumes, _is_callnode_query

    r10 = ctx.rule("C04.10", "every path from the CSE CallNode query to its consumption filters on Job.execution_id == execution_id", floor=1)
    dbm10 = repo.mod("redun/backends/db/__init__.py")
    cc10 = dbm10.func("RedunBackendDb.check_cache")
    if "execution_id" not in [a.arg for a in cc10.args.args]:
        raise AnalysisError("check_cache no longer takes execution_id", "RedunBackendDb.check_cache")
    cfg10 = CFG(cc10)
    n10 = 0
    for dn in cfg10.nodes:
        a = dn.ast
        if not (dn.kind == "stmt" and isinstance(a, ast.Assign) and len(a.targets) == 1 and isinstance(a.targets[0], ast.Name) and _is_callnode_query(a.value)):
            continue
        v = a.targets[0].id
        if v in {x.id for x in ast.walk(a.value) if isinstance(x, ast.Name)}:
            continue
        uses = [n for n in cfg10.nodes if n is not dn and n.ast is not None and n.kind != "edge" and _consumes(n, v)]
        for u in uses:
            for path in cfg10.paths(start=dn, ends={u}, max_visits=1):
                n10 += 1
                ctx.paths_enumerated += 1
                restricted = False
                for pn in path:
                    if pn.kind == "stmt" and isinstance(pn.ast, ast.Assign) and any(isinstance(t, ast.Name) and t.id == v for t in pn.ast.targets):
                        for c in ast.walk(pn.ast.value):
                            if isinstance(c, ast.Call) and last_attr(c) in ("filter", "where", "filter_by") and any(
                                isinstance(x, ast.Compare) and len(x.ops) == 1 and isinstance(x.ops[0], ast.Eq) and {src(x.left), src(x.comparators[0])} == {"Job.execution_id", "execution_id"}
                                for arg in c.args
                                for x in ast.walk(arg)
                            ):
                                restricted = True
                arm = "&".join(sorted(f"{'' if pn.label == 'T' else 'not '}{src(pn.test.ast)[:40]}" for pn in path if pn.kind == "edge" and isinstance(pn.test.ast, ast.expr))) or "unconditional"
                r10.check(
                    restricted,
                    f"{dbm10.rel}:RedunBackendDb.check_cache:{v}:same-execution:{arm}",
                    f"on the path where {arm}, the CSE query `{v}` reaches `{src(u.ast)[:50]}` without `Job.execution_id == execution_id`: a job of an earlier execution is returned as a "
                    "CSE hit, which the scheduler replays without a validity check -- a File result that was deleted or rewritten since is served from the cache",
                    dbm10.rel,
                    u.lineno,
                )
    if n10 == 0:
        raise AnalysisError("check_cache: no path from the CSE CallNode query to a consumer found", "RedunBackendDb.check_cache")


def _arm(facts) -> str:
    keys = sorted(f"{'' if t else 'not '}{f}" for f, t in facts if "cache_type" in f or "_is_valid_value" in f or "ErrorValue" in f)
    return "&".join(keys)[:120] or "top"
