"""C05 -- results are never shared between calls with different contexts.

Every code path that can hand one call's final result to another call (in-memory
pending-job table, backend CSE query, backend ultimate-reduction query) must
constrain the context on all branches, including the empty-context branch.
"""

from __future__ import annotations

import ast

from ..cfg import CFG, cond_facts
from ..core import AnalysisError, FuncNode, arg_or_kw, assigned_targets, call_name, calls_in, dotted, last_attr, names_in, src

EXPLANATION = (
    "C05.1 the three uses of Scheduler._pending_jobs use one key shape containing eval_hash and context_hash; "
    "C05.2 on every CFG path from the creation of a CallNode query to its consumption in check_cache (CSE) and "
    "_get_call_node (ultimate), a filter on the context tag is applied: equality with context_hash on the "
    "context-bearing branch, exclusion of context-tagged call nodes on the empty branch; C05.3 every check_cache "
    "caller that allows CSE/ULTIMATE passes the job's context_hash; C05.4 context_hash is computed and the context tag "
    "is recorded under the same non-empty-context test, in both finalisers."
)

SCHED = "redun/scheduler.py"
DB = "redun/backends/db/__init__.py"
CONSUMERS = {"first", "all", "one", "one_or_none", "scalar", "count"}


def run(ctx):
    repo = ctx.repo
    m = repo.mod(SCHED)
    db = repo.mod(DB)

    # ---- C05.1 key agreement ----------------------------------------------
    r1 = ctx.rule("C05.1", "_pending_jobs get/store/pop use the same (eval_hash, context_hash) key", floor=3)
    keys = []
    for q, fn in m.funcs.items():
        if not q.startswith("Scheduler."):
            continue
        for n in ast.walk(fn):
            key = None
            kind = None
            if isinstance(n, ast.Call) and isinstance(n.func, ast.Attribute) and src(n.func.value) == "self._pending_jobs" and n.func.attr in ("get", "pop", "setdefault", "__getitem__"):
                key, kind = (n.args[0] if n.args else None), n.func.attr
            elif isinstance(n, ast.Subscript) and src(n.value) == "self._pending_jobs":
                key, kind = n.slice, "subscript"
            if key is None:
                continue
            if m.enclosing_qual(n) != q:
                continue
            keys.append((q, kind, key, n))
    for q, kind, key, n in keys:
        if isinstance(key, ast.Name):
            kdefs = [a.value for a in ast.walk(m.funcs[q]) if isinstance(a, ast.Assign) and any(isinstance(t, ast.Name) and t.id == key.id for t in a.targets)]
            if len(kdefs) == 1:
                key = kdefs[0]
        ok = isinstance(key, ast.Tuple) and len(key.elts) == 2
        parts = [src(e) for e in key.elts] if isinstance(key, ast.Tuple) else [src(key)]
        jobvars = {p.split(".")[0] for p in parts if "." in p}
        attrs = sorted(p.split(".", 1)[1] for p in parts if "." in p)
        ok = ok and len(jobvars) == 1 and attrs == ["context_hash", "eval_hash"] and parts[0].endswith(".eval_hash")
        r1.check(ok, f"{m.rel}:{q}:_pending_jobs.{kind}", f"_pending_jobs key {src(key)} is not (<job>.eval_hash, <job>.context_hash)", m.rel, n.lineno, note=src(key))

    # ---- C05.2 backend queries are context-closed --------------------------
    r2 = ctx.rule("C05.2", "every path from CallNode query creation to consumption applies a context-tag filter", floor=2)
    sites = 0
    for q in ("RedunBackendDb.check_cache", "RedunBackendDb._get_call_node"):
        fn = db.func(q)
        params = [a.arg for a in fn.args.args]
        if "context_hash" not in params:
            r2.violation(f"{db.rel}:{q}:signature", f"{q} no longer takes context_hash", db.rel, fn.lineno)
            continue
        cfg = CFG(fn)
        # query variables: assigned from an expression that queries CallNode rows for result lookup
        creations = []
        for n in cfg.nodes:
            a = n.ast
            if n.kind == "stmt" and isinstance(a, ast.Assign) and len(a.targets) == 1 and isinstance(a.targets[0], ast.Name):
                v = a.targets[0].id
                if _is_callnode_query(a.value) and v not in names_in(a.value):
                    creations.append((v, n))
        for v, dnode in creations:
            uses = []
            for n in cfg.nodes:
                if n is dnode or n.ast is None or n.kind == "edge":
                    continue
                if _consumes(n, v):
                    uses.append(n)
            if not uses:
                continue
            sites += 1
            for u in uses:
                npaths = 0
                for path in cfg.paths(start=dnode, ends={u}, max_visits=1):
                    npaths += 1
                    ctx.paths_enumerated += 1
                    facts = []
                    filt = None
                    for pn in path:
                        if pn.kind == "edge" and isinstance(pn.test.ast, ast.expr):
                            facts += cond_facts(pn.test.ast, pn.label == "T")
                        if pn.kind == "stmt" and isinstance(pn.ast, ast.Assign) and any(isinstance(t, ast.Name) and t.id == v for t in pn.ast.targets) and pn is not dnode:
                            t = src(pn.ast.value)
                            if "CONTEXT_KEY" in t and v in names_in(pn.ast.value):
                                filt = pn.ast.value
                    branch = dict(facts).get("context_hash", None)
                    bname = {True: "context_hash truthy", False: "context_hash falsy", None: "unconditional"}[branch]
                    construct = f"{db.rel}:{q}:{v}:{bname}"
                    if filt is None:
                        r2.violation(
                            construct,
                            f"query `{v}` reaches `{src(u.ast)[:60]}` with no filter on the context tag on the branch where {bname}: "
                            "a call can receive a result recorded under a different context",
                            db.rel,
                            u.lineno,
                            [repr(pn) for pn in path if pn.kind in ("edge", "stmt")][:12],
                        )
                        continue
                    t = src(filt)
                    if branch is False:
                        ok = _is_negated_exists(filt)
                        msg = "on the empty-context branch the filter does not exclude context-tagged call nodes"
                    else:
                        ok = "context_hash" in names_in(filt) and "Tag.value" in t
                        msg = "the filter does not compare the tag value with context_hash"
                    r2.check(ok, construct, msg + f": {t[:120]}", db.rel, u.lineno, note=t[:100])
    if sites < 2:
        raise AnalysisError(f"C05.2 found {sites} CallNode query sites, expected 2 (check_cache CSE, _get_call_node)", "C05.2")

    # ---- C05.3 callers pass context_hash -----------------------------------
    r3 = ctx.rule("C05.3", "check_cache callers allowing CSE/ULTIMATE pass <job>.context_hash", floor=2)
    base_fn = repo.mod("redun/backends/base.py").func("RedunBackend.check_cache")
    params = [a.arg for a in base_fn.args.args][1:]
    if "context_hash" not in params or "allowed_cache_results" not in params:
        raise AnalysisError("RedunBackend.check_cache signature changed", "RedunBackend.check_cache")
    ci, ai = params.index("context_hash"), params.index("allowed_cache_results")
    dbparams = [a.arg for a in db.func("RedunBackendDb.check_cache").args.args][1:]
    r3.check(dbparams == params, f"{db.rel}:RedunBackendDb.check_cache:signature", f"parameter order differs from RedunBackend.check_cache: {dbparams} vs {params}", db.rel, 0)
    for mod, c in repo.all_calls(lambda c: last_attr(c) == "check_cache"):
        q = mod.enclosing_qual(c)
        allowed = arg_or_kw(c, ai, "allowed_cache_results")
        only_single = isinstance(allowed, ast.Set) and all(src(e) == "CacheResult.SINGLE" for e in allowed.elts) and allowed.elts
        cval = arg_or_kw(c, ci, "context_hash")
        if only_single:
            r3.good(f"{mod.rel}:{q}:check_cache", "restricted to {SINGLE}: yields the unevaluated expression, re-evaluated under the caller's context")
            continue
        ok = cval is not None and src(cval).endswith(".context_hash")
        r3.check(ok, f"{mod.rel}:{q}:check_cache", f"check_cache may return a CSE/ULTIMATE result but does not pass the job's context_hash (got {src(cval) or 'nothing'})", mod.rel, c.lineno)

    # ---- C05.4 tag written / hash computed under the non-empty test ----------
    r4 = ctx.rule("C05.4", "context_hash computed before dedup/cache lookup and context tag recorded in both finalisers when context is non-empty", floor=3)
    ex = m.func("Scheduler._exec_job_main_thread")
    cfg = CFG(ex)
    jobvar = ex.args.args[1].arg
    ctxvars = _vars_assigned_from(ex, f"{jobvar}.get_context()")
    tests = [n for n in cfg.nodes if n.kind == "test" and isinstance(n.ast, ast.Name) and n.ast.id in ctxvars]
    ok = False
    for t in tests:
        for e in cfg.edge_nodes(t, "T"):
            for s in cfg.nodes:
                if s.kind == "stmt" and isinstance(s.ast, ast.Assign) and any(src(x) == f"{jobvar}.context_hash" for x in s.ast.targets) and cfg.dominates(e, s):
                    if isinstance(s.ast.value, ast.Call) and (last_attr(s.ast.value) == "get_hash") and s.ast.value.args and src(s.ast.value.args[0]) == t.ast.id:
                        # must precede the dedup and cache lookups on every path
                        lookups = [cfg.node_of(c) for c in calls_in(ex, shallow=True) if call_name(c) in ("self._check_pending_job", "self._get_cache")]
                        if len(lookups) < 2:
                            raise AnalysisError("exec handler no longer calls _check_pending_job and _get_cache", "Scheduler._exec_job_main_thread")
                        ok = all(cfg.dominates(t, l) for l in lookups)
    r4.check(ok, f"{m.rel}:Scheduler._exec_job_main_thread:context_hash", "job.context_hash is not computed from job.get_context() (when non-empty) before the dedup and cache lookups", m.rel, ex.lineno)
    # every value the handler stores in job.context_hash is the hash of the job's OWN context: a hash taken from another job (the parent may be a
    # JobEnv that proxies the caller's hash while carrying the callee's context) keys the call under a context it did not run with
    for s_ in cfg.nodes:
        if s_.kind == "stmt" and isinstance(s_.ast, ast.Assign) and any(src(x) == f"{jobvar}.context_hash" for x in s_.ast.targets):
            v = s_.ast.value
            own = (isinstance(v, ast.Call) and last_attr(v) == "get_hash" and v.args and src(v.args[0]) in ctxvars) or (isinstance(v, ast.Constant) and v.value is None)
            r4.check(
                bool(own),
                f"{m.rel}:Scheduler._exec_job_main_thread:context_hash-source",
                f"`{src(s_.ast)}` stores a context hash that is not the hash of {jobvar}.get_context(): the job is de-duplicated, looked up in the cache and tagged under a context it does not run with "
                "(e.g. a default-argument call evaluated under a JobEnv inherits the caller's hash although its context carries the callee's update_context overrides)",
                m.rel,
                s_.lineno,
            )
    # no other writer of context_hash
    for mod in repo.modules.values():
        for n in ast.walk(mod.tree):
            if isinstance(n, (ast.Assign, ast.AugAssign, ast.AnnAssign)):
                for t in assigned_targets(n):
                    if isinstance(t, ast.Attribute) and t.attr == "context_hash":
                        q = mod.enclosing_qual(n)
                        r4.check(
                            (mod.rel, q) in ((SCHED, "Scheduler._exec_job_main_thread"), (SCHED, "Job.__init__")),
                            f"{mod.rel}:{q}:write context_hash",
                            "context_hash is written outside Job.__init__/_exec_job_main_thread",
                            mod.rel,
                            n.lineno,
                        )
    for construct, ok, msg, rel, line in context_tag_obligations(repo):
        r4.check(ok, construct, msg, rel, line)
    # ---- C05.5 the context tag is durable no later than the call node it qualifies ---------------
    # A call node without a context tag is, for every reader (C05.2), a context-free result.  If the node is committed by one backend call and
    # the tag by a later one, a crash (or an exhausted retry) between the two leaves exactly that: a result computed under a context that every
    # context-free call with the same arguments will accept.
    r5 = ctx.rule("C05.5", "a call node computed under a context never becomes durable without its context tag", floor=0)
    for q in ("Scheduler._resolve_job_main_thread", "Scheduler._reject_job_main_thread"):
        fn = m.func(q)
        cfg5 = CFG(fn)
        nodes = [cfg5.node_of(c) for c in calls_in(fn, shallow=True) if call_name(c) == "self.backend.record_call_node"]
        tags = [cfg5.node_of(c) for c in calls_in(fn) if call_name(c) == "self.backend.record_call_node_context"]
        if not nodes:
            raise AnalysisError(f"{q}: record_call_node not found", q)
        if not tags:
            continue  # no tagging at all in this finaliser: that is C05.4's violation, not an ordering question
        for n in nodes:
            one_call = any(kw.arg in ("context", "context_hash") for c in ast.walk(n.ast) if isinstance(c, ast.Call) and call_name(c) == "self.backend.record_call_node" for kw in c.keywords)
            tag_first = all(cfg5.dominates(t, n) for t in tags)
            r5.check(
                one_call or tag_first,
                f"{m.rel}:{q}:node-then-context-tag",
                f"{q} commits the call node with self.backend.record_call_node(...) and only afterwards records its context with record_call_node_context(...): a crash between the two "
                "leaves a call node computed under a non-empty context without its tag, which a later context-free call accepts as its own result",
                m.rel,
                n.lineno,
            )
    # ---- C05.6 expression de-duplication is scoped to the evaluation environment -------------------
    # _pending_expr has no context in its key: it is keyed by the parent *object* and the expression hash.  Default arguments of a call are
    # evaluated under a fresh JobEnv carrying the callee's context; that object identity is what keeps equal default expressions of two calls
    # with different contexts apart.
    r6 = ctx.rule("C05.6", "pending expressions are keyed by the parent object itself (a JobEnv is its own scope)", floor=2)
    ea6 = m.func("Scheduler._evaluate_apply")
    pvar = "parent_job"
    subs = [n for n in ast.walk(ea6) if isinstance(n, ast.Subscript) and src(n.value) == "self._pending_expr"]
    if len(subs) < 2:
        raise AnalysisError("_evaluate_apply: self._pending_expr[...] lookup and registration not found", "Scheduler._evaluate_apply")
    for i6, n in enumerate(subs):
        r6.check(
            src(n.slice) == pvar,
            f"{m.rel}:Scheduler._evaluate_apply:_pending_expr[{src(n.slice)}]#{i6}",
            f"pending expressions are keyed by `{src(n.slice)}` instead of the parent object `{pvar}`: when the parent is a JobEnv (the environment under which a call's default "
            "arguments are evaluated with the callee's context) unwrapping or replacing it merges equal default expressions of calls that run under different contexts",
            m.rel,
            n.lineno,
        )

    _c05_7(ctx, repo)

    # ---- C05.8 (the obligations of C20.12: the Job-level context tag is written by _record_job_tags, also for jobs that reuse a call node) ----
    from ..report import BorrowCtx
    from . import C20 as _borrowed_C20

    _borrowed_C20.run(BorrowCtx(ctx, {"C20.12": "C05.8"}))


def _vars_assigned_from(fn, text):
    out = set()
    for n in ast.walk(fn):
        if isinstance(n, ast.Assign) and src(n.value) == text:
            for t in n.targets:
                if isinstance(t, ast.Name):
                    out.add(t.id)
    return out


def _is_callnode_query(e: ast.AST) -> bool:
    for c in ast.walk(e):
        if isinstance(c, ast.Call) and last_attr(c) == "query" and c.args and src(c.args[0]) == "CallNode":
            return True
    return False


def _consumes(n, v: str) -> bool:
    a = n.ast
    if n.kind == "test" and isinstance(a, (ast.For, ast.AsyncFor)):
        return v in names_in(a.iter)
    roots = [a]
    if isinstance(a, (ast.With, ast.AsyncWith, FuncNode, ast.ClassDef, ast.Try)):
        return False
    if isinstance(a, ast.Assign) and any(isinstance(t, ast.Name) and t.id == v for t in a.targets):
        # re-binding of the query (filter/join/order_by) is not a consumption unless it also materialises
        pass
    for c in ast.walk(a):
        if isinstance(c, ast.Call) and isinstance(c.func, ast.Attribute) and c.func.attr in CONSUMERS and v in names_in(c.func.value):
            return True
        if isinstance(c, (ast.ListComp, ast.SetComp, ast.DictComp, ast.GeneratorExp)):
            for g in c.generators:
                if v in names_in(g.iter):
                    return True
    return False


def _is_negated_exists(e: ast.AST) -> bool:
    t = src(e)
    if "CONTEXT_KEY" not in t:
        return False
    for n in ast.walk(e):
        if isinstance(n, ast.UnaryOp) and isinstance(n.op, ast.Invert):
            return True
        if isinstance(n, ast.Call) and last_attr(n) in ("not_", "notin_", "not_in", "isnot", "is_not"):
            return True
    return False


def _c05_7(ctx, repo):
    r7 = ctx.rule("C05.7", "a scheduler task's own cache entry is keyed by the calling job's context", floor=1)
    for construct, ok, msg, rel_, line in own_cache_key_obligations(repo):
        r7.check(ok, construct, msg, rel_, line)


def context_tag_obligations(repo):
    """Both finalisers: every path that reaches record_job_end with a non-empty context has recorded the context tag of the job's call node -- directly
    (`self.backend.record_call_node_context(job.call_hash, job.context_hash, <context>)`) or through a Scheduler helper that does so for its job
    parameter -- and at that point job.call_hash is already set (assigned on the path, or tested truthy), because a helper/ call handed a missing
    call hash tags nothing.  Readers of the same-execution (CSE) and ultimate caches filter call nodes by this tag (C05.2), so a call node without
    it is invisible to equal calls under the same context (they run again, C06) and visible to context-free ones (C05).
    Yields (construct, ok, message, rel, line)."""
    m = repo.mod(SCHED)
    out = []
    for q in ("Scheduler._resolve_job_main_thread", "Scheduler._reject_job_main_thread"):
        fn = m.func(q)
        cfg = CFG(fn)
        jv = fn.args.args[1].arg
        ctxvars = _vars_assigned_from(fn, f"{jv}.get_context()")
        ends = [cfg.node_of(c) for c in calls_in(fn, shallow=True) if call_name(c) == "self.backend.record_job_end"]
        if not ends:
            raise AnalysisError(f"{q}: record_job_end not found", q)
        tag_nodes = []
        for c in calls_in(fn, shallow=True):
            d = call_name(c) or ""
            if d == "self.backend.record_call_node_context":
                if len(c.args) >= 3 and src(c.args[0]) == f"{jv}.call_hash" and src(c.args[1]) == f"{jv}.context_hash" and src(c.args[2]) in ctxvars:
                    tag_nodes.append((cfg.node_of(c), True))
            elif d.startswith("self.") and d.count(".") == 1 and c.args and src(c.args[0]) == jv:
                helper = m.funcs.get(f"Scheduler.{d[5:]}")
                if helper is not None and len(helper.args.args) >= 2:
                    hp = helper.args.args[1].arg
                    hctx = _vars_assigned_from(helper, f"{hp}.get_context()")
                    for hc in calls_in(helper, shallow=True):
                        if call_name(hc) == "self.backend.record_call_node_context" and len(hc.args) >= 3 and src(hc.args[0]) == f"{hp}.call_hash" and src(hc.args[1]) == f"{hp}.context_hash" and (src(hc.args[2]) in hctx or src(hc.args[2]) == f"{hp}.get_context()"):
                            tag_nodes.append((cfg.node_of(c), False))
        # call_hash definitely set at the tag node
        sets = [n for n in cfg.nodes if n.kind == "stmt" and isinstance(n.ast, ast.Assign) and any(src(t) == f"{jv}.call_hash" for t in n.ast.targets)]
        truthy = [e for t in cfg.nodes if t.kind == "test" and isinstance(t.ast, ast.expr) and src(t.ast) == f"{jv}.call_hash" for e in cfg.edge_nodes(t, "T")]
        good_nodes = set()
        late = []
        for node, direct in tag_nodes:
            if cfg.must_pass(cfg.entry, set(sets) | set(truthy), targets=[node]):
                good_nodes.add(node)
            else:
                late.append(node)
        for t in cfg.nodes:
            if t.kind == "test" and isinstance(t.ast, ast.Name) and t.ast.id in ctxvars:
                good_nodes.update(cfg.edge_nodes(t, "F"))
        ok = bool(tag_nodes) and all(cfg.must_pass(cfg.entry, good_nodes, targets=[e]) for e in ends)
        why = "a provenance-recording path reaches record_job_end without recording the context tag for a non-empty context"
        if late:
            why += f" (the tag is requested at line {late[0].lineno}, before {jv}.call_hash is assigned on that path, so nothing is tagged)"
        out.append((f"{m.rel}:{q}:context-tag", ok, why, m.rel, fn.lineno))
    return out


def own_cache_key_obligations(repo):
    """A scheduler task that keeps a cache entry of its own (catch: `scheduler.set_cache(eval_hash, ...)` / `backend.check_cache(eval_hash=...)`) may
    store an expression that embeds values computed under the calling job's context (catch stores `recover(error)` with the caught error inside).
    Single reduction re-evaluates the stored expression, but the embedded value stays what it was -- so the key of such an entry must depend on
    the context.  Yields (construct, ok, message, rel, line)."""
    from ..core import decorators

    m = repo.mod(SCHED)
    out = []
    for q, fn in m.funcs.items():
        if "." in q or not any(d.split(".")[-1] == "scheduler_task" for d in decorators(fn)):
            continue
        sets = [c for c in ast.walk(fn) if isinstance(c, ast.Call) and last_attr(c) == "set_cache"]
        if not sets:
            continue
        keys = [c for c in ast.walk(fn) if isinstance(c, ast.Call) and call_name(c) == "hash_args_eval" and len(c.args) >= 3]
        if not keys:
            raise AnalysisError(f"{q}: set_cache without a hash_args_eval key computation", q)
        ctx_vars = {src(a.targets[0]) for a in ast.walk(fn) if isinstance(a, ast.Assign) and isinstance(a.targets[0], ast.Name) and "get_context()" in src(a.value)}
        for k in keys:
            names = {x.id for x in ast.walk(k.args[2]) if isinstance(x, ast.Name)}
            for a in ast.walk(fn):
                if isinstance(a, ast.Assign) and isinstance(a.targets[0], ast.Name) and a.targets[0].id in names and a.lineno < k.lineno:
                    names |= {x.id for x in ast.walk(a.value) if isinstance(x, ast.Name)}
            ok = bool(names & ctx_vars) or "get_context()" in src(k.args[2])
            out.append(
                (
                    f"{m.rel}:{q}:own-cache-key-includes-context",
                    ok,
                    f"{q} caches under a key computed from `{src(k.args[2])[:50]}` only, but what it stores can embed values computed under the caller's context (catch stores recover(<caught error>)): "
                    "main.update_context(denom=0)() with catch(divider(), ZeroDivisionError, recover) caches the recover expression, and a later main() without context replays it (-1.0 instead of 1.0) "
                    "without running divider",
                    m.rel,
                    k.lineno,
                )
            )
    if not out:
        raise AnalysisError("no scheduler task with a cache entry of its own found (catch expected)", "catch")
    return out
