"""C06 -- each distinct call runs at most once per execution (structural clauses).

The hand-off invariant that makes deduplication possible on every path: a job is
discoverable (pending table, then committed Job+CallNode) from the instant it is
handed to an executor; duplicates are looked up before cache and resources; the
only exits that skip deduplication are the two the property exempts; distinct
expressions of one parent are registered exactly once.
"""

from __future__ import annotations

import ast
import re

from ..cfg import CFG, facts_at
from ..core import AnalysisError, FuncNode, call_name, calls_in, last_attr, src, unconditionally_evaluated
from ..lifecycle import SCHED, Lifecycle, describe_trace

EXPLANATION = (
    "C06.1 the store into _pending_jobs dominates both executor submit calls and _check_pending_job dominates _get_cache and _consume_resources; "
    "on every lifecycle trace a job is submitted at most once; C06.2 lookup/store/pop use one key shape; C06.3 on every path of both finalisers: "
    "record_call_node < record_job_end < job.resolve/reject < _finalize_job (a duplicate arriving after removal finds the committed rows; duplicates "
    "collapsed onto the job are notified before it disappears); C06.4 in _evaluate_apply every path past the duplicate lookup reaches the "
    "registration with the same key and no return in between; C06.5 _check_pending_job returns None early only for cache_scope NONE and for "
    "allowed_cache_results without CSE (or when the pending twin records no provenance while this job does), otherwise collapses onto the pending job."
)


def run(ctx):
    repo = ctx.repo
    m = repo.mod(SCHED)
    lc = Lifecycle(repo)
    ex = m.func(lc.EXEC)
    cfg = CFG(ex)
    jv = ex.args.args[1].arg

    r1 = ctx.rule("C06.1", "job is discoverable before hand-off; duplicate lookup precedes cache and resource use; one submit per job", floor=5)
    store = [n for n in cfg.nodes if n.kind == "stmt" and isinstance(n.ast, ast.Assign) and any(isinstance(t, ast.Subscript) and src(t.value) == "self._pending_jobs" for t in n.ast.targets)]
    submits = [cfg.node_of(c) for c in calls_in(ex, shallow=True) if last_attr(c) in ("submit", "submit_script") and c.args and src(c.args[0]) == jv]
    if len(submits) < 2:
        raise AnalysisError("exec handler: executor.submit / submit_script calls not found", lc.EXEC)
    # the key is also "held" on the false edge of `if <holder> is None or ...:` where <holder> = self._pending_jobs.get(key): an equal job is registered already
    holder_vars = {src(a.targets[0]) for a in ast.walk(ex) if isinstance(a, ast.Assign) and isinstance(a.value, ast.Call) and src(a.value.func) == "self._pending_jobs.get"}
    held_edges = []
    for t in cfg.nodes:
        if t.kind == "test" and isinstance(t.ast, ast.expr):
            disj = t.ast.values if isinstance(t.ast, ast.BoolOp) and isinstance(t.ast.op, ast.Or) else [t.ast]
            if any(src(d) in {f"{v} is None" for v in holder_vars} for d in disj):
                held_edges += cfg.edge_nodes(t, "F")
    for s in submits:
        ok = bool(store) and (any(cfg.dominates(st, s) for st in store) or cfg.must_pass(cfg.entry, set(store) | set(held_edges), targets=[s]))
        r1.check(ok, f"{m.rel}:{lc.EXEC}:{src(s.ast)[:40]}", "the job is handed to the executor before it is stored in _pending_jobs: an equal call arriving meanwhile is submitted again", m.rel, s.lineno)
    cp_calls = [c for c in calls_in(ex, shallow=True) if call_name(c) == "self._check_pending_job"]
    cp = []
    for c in cp_calls:
        node = cfg.node_of(c)
        if unconditionally_evaluated(node.ast, c):
            cp.append(node)
        else:
            r1.violation(f"{m.rel}:{lc.EXEC}:conditional-duplicate-lookup", f"the pending-duplicate lookup is short-circuited in `{src(node.ast)[:90]}`: on the entries where it is skipped an equal call that is already pending is handed to an executor again", m.rel, c.lineno)
    if not cp_calls:
        raise AnalysisError("exec handler no longer calls _check_pending_job", lc.EXEC)
    for name in ("self._get_cache", "self._consume_resources"):
        for c in calls_in(ex, shallow=True):
            if call_name(c) == name:
                n = cfg.node_of(c)
                r1.check(any(cfg.dominates(p, n) for p in cp), f"{m.rel}:{lc.EXEC}:{name}", f"{name} can be reached without the pending-duplicate lookup", m.rel, c.lineno)
    results = lc.explore()
    ctx.paths_enumerated = len(results)
    multi = None
    for kind, trace in results:
        n = sum(1 for h, ps, st, notes in trace for e in ps.events if e == ("cont", "submit"))
        if n > 1:
            multi = trace
            break
    r1.check(multi is None, f"{m.rel}:lifecycle:submit-once", "a lifecycle trace hands one job to an executor more than once", m.rel, ex.lineno, note=f"{len(results)} traces")
    if multi:
        ctx.findings[-1].path = describe_trace(multi)

    r2 = ctx.rule("C06.2", "pending-job table is used with one key shape", floor=3)
    keys = []
    for q, fn in m.funcs.items():
        for n in ast.walk(fn):
            if m.enclosing_qual(n) != q:
                continue
            if isinstance(n, ast.Call) and isinstance(n.func, ast.Attribute) and src(n.func.value) == "self._pending_jobs" and n.func.attr in ("get", "pop") and n.args:
                keys.append((q, n.func.attr, n.args[0], n.lineno))
            elif isinstance(n, ast.Subscript) and src(n.value) == "self._pending_jobs":
                keys.append((q, "pop" if isinstance(n.ctx, ast.Del) else "store", n.slice, n.lineno))
    shapes = set()
    for q, kind, key, line in keys:
        if isinstance(key, ast.Name):
            # a local that names the key: resolved through its single definition in the same function
            kdefs = [a.value for a in ast.walk(m.funcs[q]) if isinstance(a, ast.Assign) and any(isinstance(t, ast.Name) and t.id == key.id for t in a.targets)]
            if len(kdefs) == 1:
                key = kdefs[0]
        parts = [src(e).split(".", 1)[1] if "." in src(e) else src(e) for e in key.elts] if isinstance(key, ast.Tuple) else [src(key)]
        shapes.add(tuple(parts))
        r2.check(tuple(parts) == ("eval_hash", "context_hash"), f"{m.rel}:{q}:_pending_jobs.{kind}", f"key shape {parts}", m.rel, line)
    if {k for _, k, _, _ in keys} != {"get", "store", "pop"}:
        raise AnalysisError("expected get/store/pop uses of _pending_jobs", "Scheduler._pending_jobs")

    r3 = ctx.rule("C06.3", "finalisers: record_call_node < record_job_end < resolve/reject < _finalize_job on every path", floor=4)
    for hkey in (lc.RESOLVE, lc.REJECT):
        h = lc.handlers[hkey]
        nfinal = 0
        for ps in h.paths():
            names = []
            for e in ps.events:
                if e[0] == "call":
                    names.append(e[1])
                elif e[0] == "finalize":
                    names.append("FINALIZE")
            if "FINALIZE" not in names:
                continue
            nfinal += 1
            settle = [i for i, x in enumerate(names) if x in (f"{h.jobvar}.resolve", f"{h.jobvar}.reject")]
            fin = names.index("FINALIZE")
            rje = [i for i, x in enumerate(names) if x == "self.backend.record_job_end"]
            rcn = [i for i, x in enumerate(names) if x == "self.backend.record_call_node"]
            ok = bool(settle) and settle[0] < fin and all(i < settle[0] for i in rje) and all(i < (rje[0] if rje else settle[0]) for i in rcn)
            if not ok:
                r3.violation(f"{m.rel}:{hkey}:order", f"a finalising path orders {[x for x in names if x in ('self.backend.record_call_node','self.backend.record_job_end','FINALIZE') or x.endswith('.resolve') or x.endswith('.reject')]}: expected record_call_node < record_job_end < settle < _finalize_job", m.rel, h.fn.lineno, ps.describe())
            else:
                r3.good(f"{m.rel}:{hkey}:path{nfinal}")
        if nfinal == 0:
            raise AnalysisError(f"{hkey}: no finalising path", hkey)
    fz = m.func("Scheduler._finalize_job")
    t = src(fz)
    removes_pending = any(
        (isinstance(n, ast.Call) and src(n.func) == "self._pending_jobs.pop") or (isinstance(n, ast.Delete) and any(isinstance(x, ast.Subscript) and src(x.value) == "self._pending_jobs" for x in n.targets))
        for n in ast.walk(fz)
    )
    ok = removes_pending and "self._jobs.remove(job)" in t and "self._pending_expr.pop(job, None)" in t
    r3.check(ok, f"{m.rel}:Scheduler._finalize_job", "_finalize_job does not remove the job from _jobs, _pending_expr and _pending_jobs", m.rel, fz.lineno)

    r4 = ctx.rule("C06.4", "every distinct expression of a parent is registered exactly once under the looked-up key", floor=3)
    ea = m.func("Scheduler._evaluate_apply")
    c2 = CFG(ea)
    # local aliases: `tbl = self._pending_expr[parent_job]`, `key = expr.get_hash()`
    alias4 = {}
    for a in ast.walk(ea):
        if isinstance(a, ast.Assign) and len(a.targets) == 1 and isinstance(a.targets[0], ast.Name) and (src(a.value) == "self._pending_expr[parent_job]" or src(a.value) == "expr.get_hash()"):
            alias4[a.targets[0].id] = src(a.value)

    def res4(node) -> str:
        return alias4.get(node.id, node.id) if isinstance(node, ast.Name) else src(node)

    reg = [n for n in c2.nodes if n.kind == "stmt" and isinstance(n.ast, ast.Assign) and any(isinstance(t, ast.Subscript) and res4(t.value) == "self._pending_expr[parent_job]" for t in n.ast.targets)]
    look = [
        n
        for n in c2.nodes
        if n.kind == "stmt" and isinstance(n.ast, ast.Assign) and isinstance(n.ast.value, ast.Call) and isinstance(n.ast.value.func, ast.Attribute) and n.ast.value.func.attr == "get"
        and res4(n.ast.value.func.value) == "self._pending_expr[parent_job]" and n.ast.value.args
    ]
    if not reg or not look:
        raise AnalysisError("_evaluate_apply: lookup/registration of _pending_expr not found", "Scheduler._evaluate_apply")
    regkey = res4(reg[0].ast.targets[0].slice)
    lookkey = res4(look[0].ast.value.args[0])
    r4.check(regkey == lookkey == "expr.get_hash()", f"{m.rel}:Scheduler._evaluate_apply:key", f"lookup key `{lookkey}` and registration key `{regkey}` differ", m.rel, reg[0].lineno)
    # the duplicate arm returns the pending promise; every other path to the normal exit passes the registration
    dup_tests = [n for n in c2.nodes if n.kind == "test" and isinstance(n.ast, ast.Name) and n.ast.id in {src(t) for t in look[0].ast.targets}]
    if not dup_tests:
        raise AnalysisError("_evaluate_apply: test of the lookup result not found", "Scheduler._evaluate_apply")
    fe = c2.edge_nodes(dup_tests[0], "F")
    ok = all(c2.must_pass(e, reg) for e in fe)
    r4.check(ok, f"{m.rel}:Scheduler._evaluate_apply:register-on-all-paths", "a path past the duplicate lookup returns without registering the expression's promise: an equal expression of the same parent would be evaluated again", m.rel, reg[0].lineno)
    rets = [n for n in c2.nodes if n.kind == "stmt" and isinstance(n.ast, ast.Return) and any(c2.dominates(e, n) for e in fe)]
    ok = all(c2.dominates(reg[0], n) for n in rets) and all(src(n.ast.value) == "promise" for n in rets)
    r4.check(ok, f"{m.rel}:Scheduler._evaluate_apply:single-return", "there is a return between the lookup and the registration, or the registered promise is not the returned one", m.rel, reg[0].lineno)
    te = c2.edge_nodes(dup_tests[0], "T")
    dup_rets = [n for n in c2.nodes if n.kind == "stmt" and isinstance(n.ast, ast.Return) and any(c2.dominates(e, n) for e in te)]
    ok = bool(dup_rets) and all("pending_promise" in src(n.ast.value) for n in dup_rets)
    r4.check(ok, f"{m.rel}:Scheduler._evaluate_apply:duplicate-arm", "the duplicate arm does not return the pending promise of the first evaluation", m.rel, look[0].lineno)

    # ---- C06.9 who may remove a registered expression -----------------------------------------------------
    # The registration is what makes a second use of the same expression under the same parent return the first evaluation, also after that
    # evaluation has finished (a later cond branch, seq element, recover).  The backend's CSE lookup hides an early removal for ordinary
    # tasks but not for cache_scope=NONE / prov=False tasks, which would run a second time.
    r9 = ctx.rule("C06.9", "entries of _pending_expr are removed only when the parent job is finalised (or the scheduler is cleared)", floor=2)
    REMOVERS_OK = ("Scheduler._finalize_job", "Scheduler.clear")
    for q, fn in m.funcs.items():
        if not q.startswith("Scheduler.") or q.count(".") != 1:
            continue
        al = {a.targets[0].id for a in ast.walk(fn) if isinstance(a, ast.Assign) and len(a.targets) == 1 and isinstance(a.targets[0], ast.Name) and "self._pending_expr" in src(a.value)}

        def on_table(e) -> bool:
            return "self._pending_expr" in src(e) or (isinstance(e, ast.Name) and e.id in al) or (isinstance(e, ast.Subscript) and on_table(e.value))

        for n in ast.walk(fn):
            rem = None
            if isinstance(n, ast.Delete):
                for t in n.targets:
                    if isinstance(t, ast.Subscript) and on_table(t.value):
                        rem = t
            elif isinstance(n, ast.Call) and isinstance(n.func, ast.Attribute) and n.func.attr in ("pop", "popitem", "clear") and on_table(n.func.value):
                rem = n
            if rem is not None:
                r9.check(
                    q in REMOVERS_OK,
                    f"{m.rel}:{q}:removes-pending-expr",
                    f"`{src(rem)}` drops a registered expression outside {REMOVERS_OK}: a later use of the same expression under the same parent job (a cond branch, a later seq element, a "
                    "recover) is evaluated again instead of receiving the first evaluation -- visible for cache_scope=NONE / prov=False tasks, which then run twice",
                    m.rel,
                    rem.lineno,
                )

    r5 = ctx.rule("C06.5", "the only exits that skip deduplication are cache_scope NONE and allowed_cache_results without CSE", floor=3)
    cpj = m.func("Scheduler._check_pending_job")
    c3 = CFG(cpj)
    none_rets = [n for n in c3.nodes if n.kind == "stmt" and isinstance(n.ast, ast.Return) and (n.ast.value is None or src(n.ast.value) == "None")]
    allowed = []
    for n in none_rets:
        facts = facts_at(c3, n)
        why = None
        for f, t in facts:
            if t and "CacheScope.NONE" in f and "cache_scope" in f and "==" in f:
                why = "cache_scope NONE"
            if t and f == "CacheResult.CSE not in allowed_cache_results":
                why = "CSE not allowed"
            if (not t) and f == "pending_job":
                why = "no pending twin"
        # a twin that records no provenance has no call node to share with a provenance-recording duplicate (and is itself exempt from
        # de-duplication: _evaluate_apply forces cache_scope NONE when provenance is off); accepted only in exactly this asymmetric form
        fs = {(f, t) for f, t in facts}
        if ("job.recording_provenance()", True) in fs and ("pending_job.recording_provenance()", False) in fs and ("pending_job", True) in fs:
            why = "pending twin records no provenance"
        for f, t in []:
            pass
        if why is None and n is max(none_rets, key=lambda x: x.lineno):
            why = "no pending twin"
        allowed.append(why)
        r5.check(why is not None, f"{m.rel}:Scheduler._check_pending_job:return-None@{n.lineno - cpj.lineno}", "an exit skips deduplication for a reason other than cache_scope NONE / CSE not allowed / no pending twin / a twin without provenance", m.rel, n.lineno, note=str(why))
    t = src(cpj)
    ok = "self._pending_jobs.get((job.eval_hash, job.context_hash))" in t and "job.collapse(pending_job)" in t and "return pending_job" in t
    r5.check(ok, f"{m.rel}:Scheduler._check_pending_job:collapse", "a pending twin is not looked up by (eval_hash, context_hash), collapsed onto and returned", m.rel, cpj.lineno)
    # a collapsed duplicate is driven by the twin's promise, marked cached, and handed to done (result) / reject (error)
    col = m.func("Job.collapse")
    okreg = any(last_attr(c) == "then" and "result_promise" in src(c) and len(c.args) == 2 for c in calls_in(col, shallow=True))
    seen_then = seen_fail = False
    bad_cached = None
    for kind, trace in results:
        for i, (hkey, ps, st, notes) in enumerate(trace):
            if hkey in ("collapse.then", "collapse.fail"):
                conts = [e[1] for e in ps.events if e[0] == "cont"]
                if hkey == "collapse.then" and conts == ["done"]:
                    seen_then = True
                if hkey == "collapse.fail" and conts == ["reject"]:
                    seen_fail = True
                if st.get("job.was_cached") is not True:
                    bad_cached = hkey
    r5.check(okreg and seen_then and seen_fail and bad_cached is None, f"{m.rel}:Job.collapse", f"a collapsed duplicate is not handed the twin's result (done) and error (reject) while marked cached (then->done seen: {seen_then}, fail->reject seen: {seen_fail}, not marked cached in: {bad_cached})", m.rel, col.lineno)

    # ---- C06.6 finished calls stay discoverable under their context --------------------------
    # A duplicate that arrives after its twin has finished is found only through the backend's same-execution lookup, which filters call nodes by
    # their context tag.  A finished (also: failed) call whose node lacks the tag is invisible to an equal call under the same context -- the
    # call is handed to an executor a second time.
    r6 = ctx.rule("C06.6", "both finalisers tag the call node with the job's context before the job is recorded as ended", floor=2)
    from .C05 import context_tag_obligations

    for construct, ok, msg, rel, line in context_tag_obligations(repo):
        r6.check(ok, construct, msg + "; an equal call created later in the same execution under that context misses the same-execution lookup and is executed again", rel, line)

    # ---- C06.7 the pending table keeps the entry of a twin that is still running --------------------
    # Jobs that opted out of de-duplication (prov=False, cache_scope NONE) still pass through the hand-off and through _finalize_job under the
    # same (eval_hash, context_hash) key.  If they overwrite the entry, a provenance-recording duplicate no longer finds the running job
    # (_check_pending_job refuses a holder without provenance); if whoever finishes first pops the key, the running twin becomes invisible.
    r7 = ctx.rule("C06.7", "registration does not displace a provenance-recording holder; finalisation removes only the job's own entry", floor=2)
    from ..cfg import facts_at as _facts7

    exf = m.func(lc.EXEC)
    cfg7 = CFG(exf)
    stores = [n for n in cfg7.nodes if n.kind == "stmt" and isinstance(n.ast, ast.Assign) and any(isinstance(t, ast.Subscript) and src(t.value) == "self._pending_jobs" for t in n.ast.targets)]
    if not stores:
        raise AnalysisError(f"{lc.EXEC}: store into self._pending_jobs not found", lc.EXEC)
    for st in stores:
        facts = _facts7(cfg7, st)
        holder_vars = {src(a.targets[0]) for a in ast.walk(exf) if isinstance(a, ast.Assign) and isinstance(a.value, ast.Call) and src(a.value.func) == "self._pending_jobs.get"}
        looks = any(("self._pending_jobs" in f) or any(re.search(rf"\b{re.escape(v)}\b", f) for v in holder_vars) for f, t in facts) or any(
            isinstance(d.test.ast, ast.BoolOp) and any(re.search(rf"\b{re.escape(v)}\b", src(d.test.ast)) for v in holder_vars) for d in cfg7.dominators().get(st, ()) if d.kind == "edge"
        )
        r7.check(
            looks,
            f"{m.rel}:{lc.EXEC}:pending-store-guarded",
            f"`{src(st.ast)}` (line {st.lineno}) overwrites whatever job holds the key: after f(1) [running], f.options(prov=False)(1) takes the slot, and a third f(1) from another parent finds a holder "
            "without provenance (refused by _check_pending_job) -- it is handed to an executor while the first is still running",
            m.rel,
            st.lineno,
        )
    fin = m.func("Scheduler._finalize_job")
    cfgf = CFG(fin)
    jv7 = fin.args.args[1].arg
    rem = [n for n in cfgf.nodes if n.kind == "stmt" and n.ast is not None and ((isinstance(n.ast, ast.Delete) and any("self._pending_jobs" in src(t) for t in n.ast.targets)) or any(isinstance(c, ast.Call) and src(c.func) == "self._pending_jobs.pop" for c in ast.walk(n.ast)))]
    if not rem:
        raise AnalysisError("_finalize_job: removal from self._pending_jobs not found", "Scheduler._finalize_job")
    for n in rem:
        own = any(t and re.search(rf"self\._pending_jobs\.get\(.*\) is {re.escape(jv7)}$", f) for f, t in _facts7(cfgf, n))
        r7.check(
            own,
            f"{m.rel}:Scheduler._finalize_job:removes-own-entry",
            f"_finalize_job removes the key from self._pending_jobs without testing that the entry is this job (line {n.lineno}): a twin that opted out of de-duplication and finishes first removes the entry "
            "of the job that is still running, so a later equal call is executed again instead of being collapsed onto it",
            m.rel,
            n.lineno,
        )

    # ---- C06.8 "ran without context" is a fact about the job, not about the shared call node -------
    # Call nodes are content-addressed: f(1) without context and f(1) under a context that f does not read produce the same node, and the
    # context-bearing job tags that node.  The context-free arm of the same-execution lookup must therefore not exclude *call nodes* that carry a
    # context tag (the finished context-free twin would become invisible and an equal context-free call would run again); it excludes *jobs*
    # tagged with a context, and the scheduler writes that job tag.
    r8 = ctx.rule("C06.8", "the context-free arm of the same-execution lookup filters on the Job's context tag, which the scheduler records", floor=2)
    dbm8 = repo.mod("redun/backends/db/__init__.py")
    cc8 = dbm8.func("RedunBackendDb.check_cache")
    negs = [n for n in ast.walk(cc8) if isinstance(n, ast.UnaryOp) and isinstance(n.op, ast.Invert) and "exists()" in src(n.operand) and "CONTEXT_KEY" in src(n.operand)]
    if not negs:
        raise AnalysisError("check_cache: context-free filter `~exists().where(... CONTEXT_KEY ...)` not found", "RedunBackendDb.check_cache")
    for n in negs:
        ents = [src(c.comparators[0]) for c in ast.walk(n) if isinstance(c, ast.Compare) and src(c.left) == "Tag.entity_id"]
        r8.check(
            ents == ["Job.id"],
            f"{dbm8.rel}:RedunBackendDb.check_cache:context-free-filter",
            f"the context-free arm of the same-execution lookup excludes rows by a context tag on {ents}: a call node is shared by equal calls made with and without context, so once "
            "f.update_context(..)(1) has finished and tagged the node, the finished f(1) without context is no longer found and a later context-free f(1) in the same execution is executed again",
            dbm8.rel,
            n.lineno,
        )
    rjt = m.func("Scheduler._record_job_tags")
    cfg8 = CFG(rjt)
    jv8 = rjt.args.args[1].arg
    writes = [a for a in ast.walk(rjt) if isinstance(a, (ast.Assign, ast.AugAssign)) and "CONTEXT_KEY" in src(a.value) and f"{jv8}.context_hash" in src(a.value)]
    ok = bool(writes) and all((f"{jv8}.context_hash", True) in _facts7(cfg8, cfg8.node_of(a)) for a in writes) and any(call_name(c) == "self.backend.record_tags" and "TagEntity.Job" in src(c) for c in calls_in(rjt))
    r8.check(
        ok,
        f"{m.rel}:Scheduler._record_job_tags:job-context-tag",
        "the scheduler does not tag a job that ran under a context with (CONTEXT_KEY, job.context_hash): the reader's Job-based context filter has nothing to read",
        m.rel,
        rjt.lineno,
    )
