"""C07 -- results and recorded call graph do not depend on timing (structural clauses).

No schedule-dependent quantity flows into anything hashed into the call graph,
and the part of the exec handler that can run more than once for one job (it
re-enters after waiting for resource limits) performs no non-idempotent effect
twice.
"""

from __future__ import annotations

import ast

from ..core import AnalysisError, FuncNode, assigned_targets, call_name, calls_in, last_attr, names_in, src
from ..lifecycle import SCHED, Lifecycle, describe_trace

EXPLANATION = (
    "C07.1 along every lifecycle trace (including wait-queue re-entry) each non-idempotent in-memory effect reachable from the exec handler "
    "(augmented assignment / growth of job or scheduler state, transitively through Scheduler methods and their closures) is executed at most "
    "once per job; C07.2 schedule taint: no value read from state that handlers mutate in arrival order (augmented counters) flows into the "
    "preprocessing arguments that become a Handle's fork key, nor into hash_args_eval / record_call_node arguments; C07.3 uuid/time sources reach "
    "only ids and timestamps; hash_call_node sorts child hashes."
)

TAINT_SOURCES = ("uuid", "time", "datetime", "utcnow", "get_ident", "random")


def run(ctx):
    repo = ctx.repo
    m = repo.mod(SCHED)
    lc = Lifecycle(repo)

    r1 = ctx.rule("C07.1", "non-idempotent effects of the exec handler happen at most once per job, also across wait-queue re-entry", floor=4)
    # a job that has to wait for limits re-enters the handler later with what was queued: that must be exactly what it arrived with, not the
    # arguments after this entry's preprocessing (forked handles, filled-in JobInfo) -- otherwise its recorded arguments depend on having waited
    exh = m.func(lc.EXEC)
    if len(exh.args.args) < 3:
        raise AnalysisError("exec handler: (self, job, eval_args) signature changed", lc.EXEC)
    evp = exh.args.args[2].arg
    rebound = [n for n in ast.walk(exh) if isinstance(n, (ast.Assign, ast.AugAssign, ast.AnnAssign)) and any(isinstance(x, ast.Name) and x.id == evp for t in (n.targets if isinstance(n, ast.Assign) else [n.target]) for x in ast.walk(t) if not isinstance(t, ast.Attribute))]
    rq = [c for c in calls_in(exh) if call_name(c) == "self._add_job_pending_limits"]
    if not rq:
        raise AnalysisError("exec handler: self._add_job_pending_limits(...) not found", lc.EXEC)
    for c in rq:
        ok = len(c.args) == 2 and src(c.args[1]) == evp and not rebound
        r1.check(
            ok,
            f"{m.rel}:{lc.EXEC}:requeue-arguments",
            f"`{src(c)}` queues the waiting job with something other than the unchanged `{evp}` it arrived with: on re-entry the already preprocessed arguments become job.eval_args, "
            "so what is recorded for a job (argument value hashes) depends on whether it had to wait for a resource limit",
            m.rel,
            c.lineno,
        )
    results = lc.explore()
    ctx.paths_enumerated = len(results)
    seen_ok = 0
    reported = set()
    summ = lc._nonidempotent_summary()
    ctx.extra["nonidempotent_summaries"] = {k: v[:3] for k, v in summ.items() if v}
    exec_effect_sites = set()
    for ps in lc.handlers[lc.EXEC].paths():
        for e in ps.events:
            if e[0] == "effect":
                exec_effect_sites.add(e[1])
    for kind, trace in results:
        counts: dict[str, int] = {}
        reentered = sum(1 for h, _, _, _ in trace if h == lc.EXEC) > 1
        for hkey, ps, st, notes in trace:
            if hkey != lc.EXEC:
                continue
            for n in notes:
                if n[0] == "effect":
                    counts[n[1]] = counts.get(n[1], 0) + 1
        bad = [k for k, v in counts.items() if v > 1]
        if bad:
            for b in bad:
                meth = b.split("(")[0]
                construct = f"{m.rel}:Scheduler._exec_job_main_thread:repeats {meth}"
                if construct not in reported:
                    reported.add(construct)
                    r1.violation(
                        construct,
                        f"a job that waits for resource limits re-enters _exec_job_main_thread from the top and runs `{b}` again: the in-memory "
                        "counter/collection is advanced twice for one call, so what is hashed/recorded depends on whether the job had to wait",
                        m.rel,
                        lc.handlers[lc.EXEC].fn.lineno,
                        describe_trace(trace),
                    )
        elif reentered:
            seen_ok += 1
    if not exec_effect_sites:
        ctx.assume("no non-idempotent effect is reachable from the exec handler")
    for site in sorted(exec_effect_sites):
        meth = site.split("(")[0]
        if f"{m.rel}:Scheduler._exec_job_main_thread:repeats {meth}" not in reported:
            r1.good(f"{m.rel}:Scheduler._exec_job_main_thread:once {meth}", f"{seen_ok} re-entering traces, effect executed once")
    r1.good(f"{m.rel}:lifecycle:reentry-traces", f"{seen_ok} traces re-enter exec without repeating an effect")
    # the re-entry really exists (wait queue nominates through _exec_job)
    cj = m.func("Scheduler._check_jobs_pending_limits")
    r1.check(any(call_name(c) == "self._exec_job" for c in calls_in(cj)), f"{m.rel}:Scheduler._check_jobs_pending_limits:renominate", "waiting jobs are not re-nominated through _exec_job", m.rel, cj.lineno)
    # rollbacks/advance are database get-or-create/update operations (idempotent by construction): listed as assumption
    ctx.assume("backend.advance_handle / rollback_handle are idempotent database operations (get_or_create / UPDATE)")
    r1.floor = 3

    # ---- C07.2 schedule taint ------------------------------------------------
    r2 = ctx.rule("C07.2", "no arrival-order state flows into hashed quantities", floor=3)
    # state that lifecycle code mutates in arrival order: augmented attributes/subscripts in Scheduler methods
    aug_fields = set()
    cls = m.cls("Scheduler")
    for n in ast.walk(cls):
        if isinstance(n, ast.AugAssign):
            t = n.target
            while isinstance(t, ast.Subscript):
                t = t.value
            if isinstance(t, ast.Attribute):
                aug_fields.add(t.attr)
    aug_fields -= {"limits_used"}  # resource accounting, never hashed (C08.3)
    ctx.extra["arrival_order_state"] = sorted(aug_fields)
    pp = m.func("Scheduler._preprocess_args")
    inner = [f for f in ast.walk(pp) if isinstance(f, FuncNode) and f is not pp]
    sink_calls = [c for c in calls_in(pp) if last_attr(c) == "preprocess" and "type_registry" in (call_name(c) or "")]
    if not sink_calls:
        raise AnalysisError("_preprocess_args: call of type_registry.preprocess not found", "Scheduler._preprocess_args")
    scope = inner[0] if inner else pp

    def tainted_vars(fn) -> dict[str, str]:
        tv: dict[str, str] = {}
        changed = True
        while changed:
            changed = False
            for a in ast.walk(fn):
                if isinstance(a, ast.Assign):
                    why = None
                    for sub in ast.walk(a.value):
                        if isinstance(sub, ast.Attribute) and sub.attr in aug_fields and isinstance(sub.ctx, ast.Load):
                            why = f"reads arrival-ordered state `.{sub.attr}`"
                        if isinstance(sub, ast.Name) and sub.id in tv:
                            why = tv[sub.id]
                        if isinstance(sub, ast.Call) and (call_name(sub) or "").split(".")[0] in TAINT_SOURCES:
                            why = f"calls {call_name(sub)}"
                    if why:
                        for t in a.targets:
                            if isinstance(t, ast.Name) and t.id not in tv:
                                tv[t.id] = why
                                changed = True
        return tv

    tv = tainted_vars(scope)
    for c in sink_calls:
        bad = [(n, tv[n]) for a in c.args[1:] for n in names_in(a) if n in tv]
        r2.check(
            not bad,
            f"{m.rel}:Scheduler._preprocess_args:preprocess-args",
            "the arguments handed to Value.preprocess (a Handle turns them into its fork key, hence its hash, hence the call's args_hash) carry "
            + "; ".join(f"`{n}` which {w}" for n, w in bad)
            + ": sibling jobs taking the same handle get their keys in the order they happen to become ready",
            m.rel,
            c.lineno,
        )
    for q in ("Scheduler._exec_job_main_thread", "Scheduler._resolve_job_main_thread", "Scheduler._reject_job_main_thread"):
        fn = m.func(q)
        tvf = tainted_vars(fn)
        for c in calls_in(fn, shallow=True):
            if call_name(c) in ("hash_args_eval", "self.backend.record_call_node", "hash_call_node"):
                bad = []
                for a in list(c.args) + [k.value for k in c.keywords]:
                    for sub in ast.walk(a):
                        if isinstance(sub, ast.Name) and sub.id in tvf:
                            bad.append(f"{sub.id} ({tvf[sub.id]})")
                        if isinstance(sub, ast.Attribute) and sub.attr in aug_fields:
                            bad.append(f".{sub.attr}")
                        if isinstance(sub, ast.Call) and (call_name(sub) or "").split(".")[0] in TAINT_SOURCES:
                            bad.append(call_name(sub))
                r2.check(not bad, f"{m.rel}:{q}:{call_name(c)}", f"schedule-dependent value(s) {bad} flow into a hashed call-graph quantity", m.rel, c.lineno)

    # ---- C07.4 the child list hashed into the parent's call node is timing independent ----------------
    r4 = ctx.rule("C07.4", "a parent's child-job list has one slot per child call whether the duplicate was collapsed or served from the cache", floor=3)
    col = m.func("Job.collapse")
    from ..cfg import CFG as _CFG

    ccfg = _CFG(col)
    repl = [n for n in ccfg.nodes if n.kind == "stmt" and isinstance(n.ast, ast.Assign) and isinstance(n.ast.targets[0], ast.Subscript) and src(n.ast.targets[0].value).endswith(".child_jobs") and ".index(self)" in src(n.ast.targets[0].slice) and src(n.ast.value) == col.args.args[1].arg]
    # the one admissible way around the replacement: the duplicate is no longer in the list (its parent finished and cleared its children)
    absent = []
    for t4 in ccfg.nodes:
        if t4.kind == "test" and isinstance(t4.ast, ast.Compare) and len(t4.ast.ops) == 1 and isinstance(t4.ast.ops[0], ast.In) and src(t4.ast.left) == "self" and src(t4.ast.comparators[0]).endswith(".child_jobs"):
            absent += ccfg.edge_nodes(t4, "F")
    ok = bool(repl) and ccfg.must_pass(ccfg.entry, set(repl) | set(absent))
    r4.check(ok, f"{m.rel}:Job.collapse:slot-replaced", "collapsing a duplicate does not, on every path, replace the duplicate's slot in the parent's child list by the twin: the parent's child call hashes (hashed with multiplicity) then depend on whether the twin was still running or already cached", m.rel, col.lineno)
    muts = []
    for mod in repo.modules.values():
        for n in ast.walk(mod.tree):
            if isinstance(n, ast.Call) and isinstance(n.func, ast.Attribute) and n.func.attr in ("remove", "pop", "insert", "append", "extend", "clear", "sort", "reverse") and isinstance(n.func.value, ast.Attribute) and n.func.value.attr == "child_jobs":
                muts.append((mod.rel, mod.enclosing_qual(n), n.func.attr, n.lineno))
            if isinstance(n, ast.Delete) and any("child_jobs" in src(t) for t in n.targets):
                muts.append((mod.rel, mod.enclosing_qual(n), "del", n.lineno))
    allowed = {("redun/scheduler.py", "Job.add_parent", "append"), ("redun/scheduler.py", "Job.clear", "clear")}
    for rel, q, op, line in muts:
        r4.check((rel, q, op) in allowed, f"{rel}:{q}:child_jobs.{op}", f"child_jobs is mutated by {op} in {q}: only append on creation and clear after finalisation keep the child list independent of completion order", rel, line)
    for q in ("Scheduler._resolve_job_main_thread",):
        fn = m.func(q)
        ok = any(isinstance(n, ast.ListComp) and "child_jobs" in src(n.generators[0].iter) and not any(call_name(c) in ("set", "sorted", "dict.fromkeys") for c in calls_in(n)) for n in ast.walk(fn))
        r4.check(ok, f"{m.rel}:{q}:children-with-multiplicity", "child call hashes are not taken from the child list in order and with multiplicity", m.rel, fn.lineno)

    # ---- C07.5 a failing parent records only the children finished so far ---------------------------------
    r5 = ctx.rule("C07.5", "the child list recorded for a failed job does not depend on which siblings had finished", floor=1)
    rj = m.func("Scheduler._reject_job_main_thread")
    filt = [n for n in ast.walk(rj) if isinstance(n, ast.ListComp) and "child_jobs" in src(n.generators[0].iter) and any(src(i).endswith(".call_hash") for i in n.generators[0].ifs)]
    pm = repo.mod("redun/promise.py")
    fail_fast = False
    pf = pm.funcs.get("Promise.all.fail")
    if pf is not None:
        fail_fast = any(call_name(c) == "promise.do_reject" for c in calls_in(pf)) and not any("num_done" in src(n) for n in ast.walk(pf))
    r5.check(
        not (filt and fail_fast),
        f"{m.rel}:Scheduler._reject_job_main_thread:children-finished-so-far",
        "a job is rejected as soon as one child fails (Promise.all rejects on the first rejection) and its call node lists only the children that already have a "
        "call hash at that moment: siblings still running are omitted (and never recorded), so the failed job's call hash depends on completion order",
        m.rel,
        rj.lineno,
    )

    # ---- C07.3 ---------------------------------------------------------------------
    r3 = ctx.rule("C07.3", "uuid/time reach only ids and timestamps; child hashes are sorted before hashing", floor=3)
    hm = repo.mod("redun/hashing.py")
    hcn = hm.func("hash_call_node")
    r3.check("sorted(child_call_hashes)" in src(hcn), f"{hm.rel}:hash_call_node:sorted", "child call hashes are hashed in completion/creation order instead of sorted order", hm.rel, hcn.lineno)
    allowed_targets = ("id", "start_time", "end_time", "updated_time", "promise_id", "thread_id", "now", "start", "duration", "timestamp", "start_time_", "delay")
    for n in ast.walk(m.tree):
        if isinstance(n, ast.Assign) and any(isinstance(c, ast.Call) and (call_name(c) or "") in ("uuid.uuid4", "time.time", "utcnow", "datetime.datetime.now", "threading.get_ident") for c in ast.walk(n.value)):
            tnames = []
            for t in assigned_targets(n):
                tnames.append(t.attr if isinstance(t, ast.Attribute) else (t.id if isinstance(t, ast.Name) else src(t)))
            ok = all(any(tn == a or tn.endswith(a) for a in allowed_targets) for tn in tnames)
            r3.check(ok, f"{m.rel}:{m.enclosing_qual(n)}:{','.join(tnames)}", f"uuid/time value stored in {tnames}, which is not an id/timestamp field", m.rel, n.lineno)
    for q in ("hash_struct", "hash_eval", "hash_arguments", "hash_call_node", "hash_tag"):
        fn = hm.func(q)
        bad = [call_name(c) for c in calls_in(fn) if (call_name(c) or "").split(".")[0] in TAINT_SOURCES]
        r3.check(not bad, f"{hm.rel}:{q}:pure", f"{q} consults {bad}", hm.rel, fn.lineno)
