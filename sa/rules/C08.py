"""C08 -- resource limits are never exceeded; units returned exactly once.

Decides: on every lifecycle path (exec -> done/reject/... -> finalize), units are
consumed at most once, only behind the within-limits test, and released exactly
once iff consumed.  Structural clauses; no counts are measured at run time.
"""

from __future__ import annotations

import ast

from ..cfg import CFG, facts_at
from ..core import AnalysisError, FuncNode, call_name, calls_in, dotted, last_attr, src
from ..lifecycle import SCHED, Lifecycle, describe_trace
from ..linear import linear_cmp

EXPLANATION = (
    "C08.1 consume is dominated by the true outcome of the within-limits test on the same limits and the test is "
    "`limit(default 1) - used - demand >= 0`; C08.2 abstract interpretation of (units held, tracked job/scheduler "
    "booleans) over every handler-path sequence of the job lifecycle graph recovered from scheduler.py: held stays "
    "in {0,1}, is 0 at finalisation; C08.3 only _consume/_release_resources write limits_used and only lifecycle "
    "handlers call them, always with job.get_limits(); C08.4 list-form limits map to one unit each."
)


def run(ctx):
    repo = ctx.repo
    m = repo.mod(SCHED)
    lc = Lifecycle(repo)

    # ---- C08.1 guard -------------------------------------------------------
    r1 = ctx.rule("C08.1", "consume dominated by within-limits(true) on the same limits; test is limit-used-demand>=0, default 1")
    n_consume = 0
    for q, fn in m.funcs.items():
        if not q.startswith("Scheduler."):
            continue
        for c in calls_in(fn, shallow=True):
            if call_name(c) == "self._consume_resources":
                n_consume += 1
                cfg = CFG(fn)
                node = cfg.node_of(c)
                arg = src(c.args[0]) if c.args else ""
                facts = facts_at(cfg, node)
                want = (f"self._is_job_within_limits({arg})", True)
                r1.check(
                    want in facts,
                    f"{m.rel}:{q}:consume({arg})",
                    f"_consume_resources({arg}) is not dominated by a successful _is_job_within_limits({arg}) test",
                    m.rel,
                    c.lineno,
                )
    if n_consume == 0:
        raise AnalysisError("no call of _consume_resources found", "Scheduler._consume_resources")
    within = m.func("Scheduler._is_job_within_limits")
    cmp_ok = False
    detail = "no comparison found"
    for n in ast.walk(within):
        if isinstance(n, ast.Compare) and len(n.ops) == 1:
            lin = linear_cmp(n)
            if lin is None:
                continue
            terms, op, const = lin  # sum(terms) op const  with op in >=, >
            lim = [t for t in terms if ".limits.get(" in t]
            used = [t for t in terms if ".limits_used[" in t]
            others = [t for t in terms if t not in lim + used]
            if len(lim) == 1 and len(used) == 1 and len(others) == 1:
                # default value of an unconfigured name
                default_ok = False
                for c in calls_in(n):
                    if (call_name(c) or "").endswith(".limits.get") and len(c.args) == 2:
                        default_ok = isinstance(c.args[1], ast.Constant) and c.args[1].value == 1
                coeff_ok = terms[lim[0]] == 1 and terms[used[0]] == -1 and terms[others[0]] == -1
                # never weaker than  L - U - C >= 0
                bound_ok = (op == ">=" and const >= 0) or (op == ">" and const >= -1)
                cmp_ok = default_ok and coeff_ok and bound_ok
                detail = f"terms={terms} op={op} const={const} default_is_1={default_ok}"
    r1.check(
        cmp_ok,
        f"{m.rel}:Scheduler._is_job_within_limits:comparison",
        f"within-limits test is not (limit(default 1) - used - demand >= 0): {detail}",
        m.rel,
        within.lineno,
        note=detail,
    )
    # the test must quantify over every requested resource: all(... for ... in job_limits.items())
    allq = False
    for n in ast.walk(within):
        if isinstance(n, ast.Return) and isinstance(n.value, ast.Call) and call_name(n.value) == "all":
            g = n.value.args[0] if n.value.args else None
            if isinstance(g, (ast.GeneratorExp, ast.ListComp)) and len(g.generators) == 1 and not g.generators[0].ifs:
                it = g.generators[0].iter
                p = within.args.args[1].arg
                if isinstance(it, ast.Call) and call_name(it) == f"{p}.items":
                    allq = True
    r1.check(allq, f"{m.rel}:Scheduler._is_job_within_limits:all", "the test does not range over all requested resources (all(... for ... in limits.items()) without filter)", m.rel, within.lineno)
    r1.floor = 3

    # ---- C08.2 lifecycle release count ------------------------------------
    r2 = ctx.rule("C08.2", "units held stay in {0,1} on every lifecycle path and are 0 at finalisation", floor=8)
    results = lc.explore()
    ctx.paths_enumerated = len(results)
    seen_bad = set()
    n_final = 0
    for kind, trace in results:
        seq = _seq(trace)
        bad = None
        for hkey, ps, st, notes in trace:
            for note in notes:
                if note[0] == "held" and (note[1] < 0 or note[1] > 1):
                    what = "release of units that are not held" if note[1] < 0 else "second consume while units are held"
                    bad = (hkey, what)
                    break
            if bad:
                break
        if not bad and kind == "final" and trace[-1][2]["held"] != 0:
            bad = (trace[-1][0], f"job finalised while still holding units (held={trace[-1][2]['held']})")
        if not bad and kind == "stop" and trace[-1][2]["held"] != 0 and not trace[-1][2].get("sched._dryrun"):
            bad = (trace[-1][0], "lifecycle stops with units held and no continuation")
        if bad:
            hkey, what = bad
            hq = lc.handlers[hkey].qual
            dry = "dryrun" if trace[0][2].get("sched._dryrun") else "run"
            construct = f"{m.rel}:{hq}:{what}:via {seq}:{dry}"
            if construct not in seen_bad:
                seen_bad.add(construct)
                r2.violation(construct, f"{what} on lifecycle path {seq} ({dry})", m.rel, lc.handlers[hkey].fn.lineno, describe_trace(trace))
        elif kind in ("final",):
            n_final += 1
            if n_final <= 400:
                r2.good(f"{m.rel}:lifecycle:{seq}:{_statekey(trace[-1][2])}")
            else:
                r2.examined += 1
                r2.ok += 1
    ctx.extra["lifecycle"] = {
        "handlers": {k: {"function": h.qual, "distinct_path_summaries": len(h.paths())} for k, h in lc.handlers.items()},
        "wrappers": lc.wrappers,
        "traces": len(results),
        "finalised_traces": n_final,
    }

    # ---- C08.3 ownership ---------------------------------------------------
    r3 = ctx.rule("C08.3", "limits_used written only by _consume/_release_resources; those called only from lifecycle handlers with job.get_limits()", floor=5)
    allowed_writers = {"Scheduler._consume_resources", "Scheduler._release_resources", "Scheduler.__init__"}
    for mod in repo.modules.values():
        for n in ast.walk(mod.tree):
            tgt = None
            if isinstance(n, (ast.Assign, ast.AugAssign, ast.AnnAssign, ast.Delete)):
                tgts = n.targets if isinstance(n, (ast.Assign, ast.Delete)) else [n.target]
                for t in tgts:
                    base = t.value if isinstance(t, ast.Subscript) else t
                    if isinstance(base, ast.Attribute) and base.attr == "limits_used":
                        tgt = t
            elif isinstance(n, ast.Call) and isinstance(n.func, ast.Attribute) and isinstance(n.func.value, ast.Attribute) and n.func.value.attr == "limits_used" and n.func.attr in ("update", "pop", "clear", "setdefault", "__setitem__"):
                tgt = n
            if tgt is not None:
                q = mod.enclosing_qual(n)
                # Scheduler.clear() runs once before an execution starts (first statement group of _run): resetting every counter to the constant 0
                # there is the initial state of the accounting, not a release
                reset = mod.rel == SCHED and q == "Scheduler.clear" and isinstance(n, ast.Assign) and isinstance(n.value, ast.Constant) and n.value.value == 0
                if reset:
                    runf = m.func("Scheduler._run")
                    clear_calls = [c for c in calls_in(runf, shallow=True) if call_name(c) == "self.clear"]
                    evals = [c for c in calls_in(runf, shallow=True) if call_name(c) in ("self.evaluate", "self._process_events")]
                    reset = bool(clear_calls) and bool(evals) and all(c.lineno < min(e.lineno for e in evals) for c in clear_calls) and all(
                        call_name(c) != "self.clear" for q2, f2 in m.funcs.items() if q2.startswith("Scheduler.") and q2 not in ("Scheduler._run",) for c in calls_in(f2, shallow=True)
                    )
                r3.check(
                    (mod.rel == SCHED and q in allowed_writers) or reset,
                    f"{mod.rel}:{q}:write limits_used",
                    f"limits_used is written outside _consume_resources/_release_resources: {src(n)[:80]}",
                    mod.rel,
                    n.lineno,
                )
    handler_quals = {h.qual for h in lc.handlers.values()}
    for mod in repo.modules.values():
        for n in ast.walk(mod.tree):
            if isinstance(n, ast.Call) and isinstance(n.func, ast.Attribute) and n.func.attr in ("_consume_resources", "_release_resources"):
                q = mod.enclosing_qual(n)
                ok_site = mod.rel == SCHED and q in handler_quals
                helper = mod.rel == SCHED and q.startswith("Scheduler.") and lc.is_lifecycle_helper(q.split(".", 1)[1])
                arg_ok = False
                if (ok_site or helper) and n.args:
                    a = n.args[0]
                    fn = mod.enclosing_func(n)
                    if ok_site:
                        jobvars = [[h for h in lc.handlers.values() if h.qual == q][0].jobvar]
                    else:
                        jobvars = [p.arg for p in fn.args.args[1:]]
                    arg_ok = any(_resolves_to_get_limits(fn, a, jv) for jv in jobvars)
                    ok_site = True
                r3.check(
                    ok_site and arg_ok,
                    f"{mod.rel}:{q}:{n.func.attr}",
                    f"{n.func.attr} called outside a lifecycle handler or not with <job>.get_limits(): {src(n)[:80]}",
                    mod.rel,
                    n.lineno,
                )
    # bodies: += / -= of every item
    for name, op in (("_consume_resources", ast.Add), ("_release_resources", ast.Sub)):
        fn = m.func("Scheduler." + name)
        p = fn.args.args[1].arg
        ok = False
        for st in fn.body:
            if isinstance(st, ast.For) and isinstance(st.iter, ast.Call) and call_name(st.iter) == f"{p}.items" and isinstance(st.target, ast.Tuple) and len(st.target.elts) == 2:
                kname, vname = (e.id if isinstance(e, ast.Name) else None for e in st.target.elts)
                for b in st.body:
                    if (
                        isinstance(b, ast.AugAssign)
                        and isinstance(b.op, op)
                        and src(b.target) == f"self.limits_used[{kname}]"
                        and src(b.value) == vname
                        and len(st.body) == 1
                    ):
                        ok = True
        r3.check(ok, f"{m.rel}:Scheduler.{name}:body", f"{name} does not adjust limits_used[name] by exactly the demanded count for every resource", m.rel, fn.lineno)

    # ---- C08.4 list form ---------------------------------------------------
    r4 = ctx.rule("C08.4", "Job.get_limits maps a list of names to one unit each")
    gl = m.func("Job.get_limits")
    ok = False
    for n in ast.walk(gl):
        if isinstance(n, ast.If) and "isinstance" in src(n.test) and "list" in src(n.test):
            for b in n.body:
                if isinstance(b, ast.Assign) and isinstance(b.value, ast.DictComp):
                    ok = isinstance(b.value.value, ast.Constant) and b.value.value.value == 1
    r4.check(ok, f"{m.rel}:Job.get_limits:list-form", "list-form limits are not mapped to {name: 1}", m.rel, gl.lineno)
    # the demand is the job's *effective* `limits` option (definition < exported by the parent < call-time < scheduler-imposed), i.e. read through
    # self.get_option; the task's definition-time option alone ignores `.options(limits=...)` and limits exported by a parent
    sources = [a.value for a in ast.walk(gl) if isinstance(a, ast.Assign) and any(isinstance(t, ast.Name) and t.id == "limits" for t in a.targets) and not isinstance(a.value, ast.DictComp)]
    def _effective(v):
        if isinstance(v, ast.IfExp):
            return _effective(v.body) and (isinstance(v.orelse, ast.Dict) and not v.orelse.keys)
        return isinstance(v, ast.Call) and src(v.func) == "self.get_option" and v.args and isinstance(v.args[0], ast.Constant) and v.args[0].value == "limits"
    ok = bool(sources) and all(_effective(v) for v in sources)
    r4.check(
        ok,
        f"{m.rel}:Job.get_limits:effective-option",
        f"Job.get_limits takes the demand from {[src(v)[:60] for v in sources]} instead of self.get_option('limits', ...): limits given at call time (task.options(limits=...)) or exported by a parent "
        "job are ignored, so such jobs hold fewer units than they declare and more of them run at once than the configured limit allows",
        m.rel,
        gl.lineno,
    )
    # ---- C08.5 the accounting is reset only after the executors have waited for their jobs ------------
    # Scheduler.clear() zeroes limits_used at the start of the next execution on the assumption that executor.stop() (called when the previous
    # execution ended) has waited for every job still running.  A local pool shut down with wait=False leaves such a job running *and holding its
    # units* while the counters say 0: the next execution admits another job on the same resource.
    r5 = ctx.rule("C08.5", "LocalExecutor.stop() waits for its pools (no shutdown(wait=False))", floor=1)
    lm = repo.mod("redun/executors/local.py")
    stopf = lm.func("LocalExecutor.stop")
    downs = [c for c in calls_in(stopf) if last_attr(c) == "shutdown"]
    if not downs:
        raise AnalysisError("LocalExecutor.stop: pool shutdown calls not found", "LocalExecutor.stop")
    for c in downs:
        w = next((k.value for k in c.keywords if k.arg == "wait"), c.args[0] if c.args else None)
        nowait = w is not None and not (isinstance(w, ast.Constant) and w.value is True)
        r5.check(
            not nowait,
            f"{lm.rel}:LocalExecutor.stop:{src(c.func)}",
            f"`{src(c)}` does not wait for the jobs still running in the pool: Scheduler.clear() resets limits_used at the start of the next execution while such a job still holds its units, so a second job "
            "on the same resource is admitted (limit exceeded), and the old job's late completion releases again (usage goes negative)",
            lm.rel,
            c.lineno,
        )


def _resolves_to_get_limits(fn, a, jobvar) -> bool:
    want = f"{jobvar}.get_limits()"
    if src(a) == want:
        return True
    if isinstance(a, ast.Name):
        defs = [st for st in ast.walk(fn) if isinstance(st, ast.Assign) and any(isinstance(t, ast.Name) and t.id == a.id for t in st.targets)]
        return len(defs) >= 1 and all(src(d.value) == want for d in defs)
    return False


def _short(h: str) -> str:
    return h.split(".")[-1].replace("_job_main_thread", "").lstrip("_") if h.startswith("Scheduler.") else h


def _statekey(st: dict) -> str:
    return ",".join(f"{k.split('.')[-1]}={v}" for k, v in sorted(st.items()) if k in ("job.was_cached", "sched._dryrun", "held"))


def _seq(trace) -> str:
    names = []
    for h, _, _, _ in trace:
        n = _short(h)
        if not names or names[-1] != n:
            names.append(n)
    return ">".join(names)
