"""C09 -- executions terminate with every job settled (structural clauses).

No lost wake-up and no dropped job in the scheduler's own control flow: every
release is followed by a re-check of the wait queue, every exit of a lifecycle
handler hands the job on (or is the dry-run stop), the wait queue is
partitioned, a job demanding exactly the limit can run.
"""

from __future__ import annotations

import ast

from ..cfg import CFG
from ..core import AnalysisError, FuncNode, call_name, calls_in, last_attr, src
from ..lifecycle import SCHED, Lifecycle, describe_trace
from ..linear import linear_cmp

EXPLANATION = (
    "C09.1 every _release_resources call is followed on all paths of its handler by _check_jobs_pending_limits(); C09.2 hand-off typestate from the "
    "lifecycle interpreter: every feasible handler path ends in a continuation (collapse, cached done/reject, wait queue, reject, submit) or in "
    "_finalize_job; a path with no continuation exists only under dry-run in the exec handler; collapsed duplicates are driven by the twin's "
    "promise; C09.3 _check_jobs_pending_limits appends every queued entry to exactly one of ready / not-ready, reassigns the queue from not-ready and "
    "re-nominates every ready entry; C09.4 _jobs add/remove pairing, the event loop runs while the workflow promise is pending, the within-limits test "
    "is non-strict (a job demanding exactly the limit runs), and the done handler's promise chain ends in a rejection handler."
)


def run(ctx):
    repo = ctx.repo
    m = repo.mod(SCHED)
    lc = Lifecycle(repo)

    r1 = ctx.rule("C09.1", "release is always followed by a wake-up of the wait queue", floor=2)
    n = 0
    for q, fn in m.funcs.items():
        if not q.startswith("Scheduler."):
            continue
        rel = [c for c in calls_in(fn, shallow=True) if call_name(c) == "self._release_resources"]
        if not rel:
            continue
        cfg = CFG(fn)
        wake = [cfg.node_of(c) for c in calls_in(fn, shallow=True) if call_name(c) == "self._check_jobs_pending_limits"]
        for c in rel:
            n += 1
            node = cfg.node_of(c)
            ok = bool(wake) and cfg.must_pass(node, [w for w in wake if w is not node]) and cfg.must_pass(node, wake, targets=[cfg.raise_exit, cfg.exit])
            r1.check(ok, f"{m.rel}:{q}:release-then-wake", "resources are released without re-checking the jobs waiting for them on some path: a waiting job may never be re-nominated", m.rel, c.lineno)
    if n < 1:
        raise AnalysisError("no release site found", "Scheduler._release_resources")
    r1.floor = 1

    r2 = ctx.rule("C09.2", "every lifecycle path hands the job on or finalises it; stopping without continuation only under dry-run", floor=4)
    results = lc.explore()
    ctx.paths_enumerated = len(results)
    seen = set()
    for kind, trace in results:
        hkey, ps, st, notes = trace[-1]
        seq = ">".join(h.split(".")[-1].replace("_job_main_thread", "").lstrip("_") for h, _, _, _ in trace)
        if kind == "stop":
            ok = hkey == lc.EXEC and st.get("sched._dryrun") is True
            key = f"{m.rel}:{lc.handlers[hkey].qual}:stop:{'dryrun' if st.get('sched._dryrun') else 'run'}"
            if not ok:
                if key not in seen:
                    seen.add(key)
                    r2.violation(key, f"lifecycle path {seq} ends in {lc.handlers[hkey].qual} with no continuation and without finalising the job: the job stays pending forever", m.rel, lc.handlers[hkey].fn.lineno, describe_trace(trace))
            elif key not in seen:
                seen.add(key)
                r2.good(key, "dry-run stop")
        elif kind == "final":
            key = f"{m.rel}:lifecycle:final:{_compress(seq)}"
            if key not in seen:
                seen.add(key)
                r2.good(key)
        elif kind == "assert-fails":
            key = f"{m.rel}:{lc.handlers[hkey].qual}:assert:{notes[-1][1]}"
            if key not in seen and not st.get("sched._dryrun") is None:
                seen.add(key)
    # C09.5: a job taken out of the wait queue consumes, is re-queued, or wakes the queue
    r5 = ctx.rule("C09.5", "a re-nominated job that leaves without consuming its projected units wakes the wait queue", floor=1)
    seen5 = set()
    n5 = 0
    for kind, trace in results:
        for i, (hkey, ps, st, notes) in enumerate(trace):
            if hkey != lc.EXEC or i == 0:
                continue
            prev = trace[i - 1]
            if prev[0] != lc.EXEC or ("cont", "waitq") not in prev[1].events:
                continue
            n5 += 1
            evs = ps.events
            consumed = any(e[0] == "consume" for e in evs)
            requeued = ("cont", "waitq") in evs
            woke = any(e[0] == "call" and e[1] == "self._check_jobs_pending_limits" for e in evs)
            if not (consumed or requeued or woke) and ps.exit_kind != "raise":
                how = next((e[1] for e in evs if e[0] == "cont"), "return")
                key = f"{m.rel}:{lc.EXEC}:nominated-exit-without-wake:{how}"
                if key not in seen5:
                    seen5.add(key)
                    r5.violation(
                        key,
                        f"a job that waited for resource limits is re-nominated (the queue check projected units for it), re-enters the exec handler and leaves through `{how}` "
                        "without consuming and without re-checking the wait queue: no release follows, so the jobs still queued are never woken although the resource is free",
                        m.rel,
                        lc.handlers[lc.EXEC].fn.lineno,
                        describe_trace(trace[: i + 1]),
                    )
    if n5 == 0:
        r5.violation(f"{m.rel}:{lc.EXEC}:no-wait-queue-path", "no lifecycle trace queues a job that does not fit within the limits and re-enters later: over-limit jobs are dropped or run regardless", m.rel, lc.handlers[lc.EXEC].fn.lineno)
    if not seen5:
        r5.good(f"{m.rel}:{lc.EXEC}:re-nominated-exits", f"{n5} re-entry steps consume, re-queue or wake")
        r5.good(f"{m.rel}:{lc.EXEC}:re-nominated-exits:traces")

    col = m.func("Job.collapse")
    ok = any(last_attr(c) == "then" and "other_job.result_promise" in src(c) and len(c.args) == 2 for c in calls_in(col, shallow=True))
    r2.check(ok, f"{m.rel}:Job.collapse:driven-by-twin", "a collapsed job is not registered on the twin's result promise with both a result and an error callback", m.rel, col.lineno)

    r3 = ctx.rule("C09.3", "wait queue is partitioned and every ready job is re-nominated", floor=4)
    cj = m.func("Scheduler._check_jobs_pending_limits")
    loop = next((x for x in cj.body if isinstance(x, ast.For) and src(x.iter) == "self._jobs_pending_limits"), None)
    if loop is None:
        raise AnalysisError("_check_jobs_pending_limits: loop over the wait queue not found", "Scheduler._check_jobs_pending_limits")
    # the scan is unconditional: no path reaches the exit without scanning the queue, unless the queue is empty
    ccfg = CFG(cj)
    lnode = next(n for n in ccfg.nodes if n.kind == "test" and n.ast is loop)
    from ..cfg import facts_at as _facts_at

    bypass = []
    for n in ccfg.nodes:
        if n.kind == "stmt" and isinstance(n.ast, ast.Return) and not ccfg.dominates(lnode, n):
            facts = _facts_at(ccfg, n)
            if ("self._jobs_pending_limits", False) not in facts and ("len(self._jobs_pending_limits) == 0", True) not in facts:
                bypass.append(n)
    ok_scan = ccfg.must_pass(ccfg.entry, [lnode] + [n for n in ccfg.nodes if n.kind == "stmt" and isinstance(n.ast, ast.Return) and n not in bypass and not ccfg.dominates(lnode, n)]) and not bypass
    r3.check(
        ok_scan,
        f"{m.rel}:Scheduler._check_jobs_pending_limits:unconditional-scan",
        "the wait-queue check can return without scanning the queue on a condition other than `the queue is empty`"
        + (f" (`{src(bypass[0].ast)}` at line {bypass[0].lineno} under {sorted(f for f, t in _facts_at(ccfg, bypass[0]) if t)[:2]})" if bypass else "")
        + ": a release that takes this exit wakes nobody, and a queued job whose blocking resource changed waits forever",
        m.rel,
        cj.lineno,
    )
    tgt = src(loop.target)
    ifs = [x for x in loop.body if isinstance(x, ast.If)]
    ok = False
    ready = notready = None
    if len(ifs) == 1 and ifs[0].orelse:
        a = [c for c in calls_in(ast.Module(body=ifs[0].body, type_ignores=[])) if last_attr(c) == "append"]
        b = [c for c in calls_in(ast.Module(body=ifs[0].orelse, type_ignores=[])) if last_attr(c) == "append"]
        if len(a) == 1 and len(b) == 1 and src(a[0].args[0]).strip("()") == tgt.strip("()") and src(b[0].args[0]).strip("()") == tgt.strip("()"):
            ready, notready = src(a[0].func.value), src(b[0].func.value)
            ok = ready != notready and "self._is_job_within_limits(" in src(ifs[0].test)
    r3.check(ok, f"{m.rel}:Scheduler._check_jobs_pending_limits:partition", "a queued entry is not appended to exactly one of the ready / not-ready lists", m.rel, loop.lineno)
    t = src(cj)
    r3.check(notready is not None and f"self._jobs_pending_limits = {notready}" in t, f"{m.rel}:Scheduler._check_jobs_pending_limits:requeue", "the wait queue is not reassigned from the not-ready list", m.rel, cj.lineno)
    renom = [x for x in cj.body if isinstance(x, ast.For) and ready is not None and src(x.iter) == ready]
    ok = bool(renom) and any(call_name(c) == "self._exec_job" and [src(a) for a in c.args] == [e.strip() for e in src(renom[0].target).strip("()").split(",")] for c in calls_in(renom[0]))
    r3.check(ok, f"{m.rel}:Scheduler._check_jobs_pending_limits:renominate", "not every ready entry is passed to _exec_job", m.rel, cj.lineno)
    after = [i for i, x in enumerate(cj.body) if isinstance(x, ast.Assign) and src(x.targets[0]) == "self._jobs_pending_limits"]
    ok = bool(after) and bool(renom) and cj.body.index(renom[0]) > after[0]
    r3.check(ok, f"{m.rel}:Scheduler._check_jobs_pending_limits:order", "ready jobs are re-nominated before the queue is updated (a re-queued job could be lost or duplicated)", m.rel, cj.lineno)
    aq = m.func("Scheduler._add_job_pending_limits")
    r3.check("self._jobs_pending_limits.append((job, eval_args))" in src(aq), f"{m.rel}:Scheduler._add_job_pending_limits", "a waiting job is not appended to the wait queue", m.rel, aq.lineno)

    r4 = ctx.rule("C09.4", "job set pairing, event-loop condition, non-strict limit test, rejection handler on the done chain", floor=5)
    adds = [(q, c) for q, fn in m.funcs.items() for c in calls_in(fn, shallow=True) if call_name(c) == "self._jobs.add"]
    rems = [(q, c) for q, fn in m.funcs.items() for c in calls_in(fn, shallow=True) if call_name(c) == "self._jobs.remove"]
    r4.check(len(adds) == 1 and adds[0][0] == "Scheduler._evaluate_apply" and len(rems) == 1 and rems[0][0] == "Scheduler._finalize_job", f"{m.rel}:Scheduler._jobs:add/remove", f"_jobs add sites {[a[0] for a in adds]} / remove sites {[r[0] for r in rems]}", m.rel, 0)
    pe = m.func("Scheduler._process_events")
    loop = next((x for x in ast.walk(pe) if isinstance(x, ast.While)), None)
    r4.check(loop is not None and src(loop.test) == "self.workflow_promise.is_pending", f"{m.rel}:Scheduler._process_events:loop", "the event loop does not run exactly while the workflow promise is pending", m.rel, pe.lineno)
    brk = [x for x in ast.walk(loop) if isinstance(x, ast.If) and any(isinstance(b, ast.Break) for b in x.body)] if loop else []
    r4.check(all("self._dryrun" in src(b.test) for b in brk), f"{m.rel}:Scheduler._process_events:break", "the event loop can be left early outside dry-run", m.rel, pe.lineno)
    within = m.func("Scheduler._is_job_within_limits")
    exact = False
    for x in ast.walk(within):
        if isinstance(x, ast.Compare):
            lin = linear_cmp(x)
            if lin:
                terms, op, const = lin
                if any(".limits.get(" in t for t in terms):
                    exact = (op == ">=" and const == 0) or (op == ">" and const == -1)
    r4.check(exact, f"{m.rel}:Scheduler._is_job_within_limits:non-strict", "the within-limits test is stricter than limit - used - demand >= 0: a job demanding exactly the free amount never runs", m.rel, within.lineno)
    dn = m.func(lc.DONE)
    chain = [x for x in dn.body if isinstance(x, ast.Expr) and isinstance(x.value, ast.Call) and last_attr(x.value) in ("catch", "then")]
    ok = False
    for x in chain:
        c = x.value
        if last_attr(c) == "catch" and c.args and "reject_job" in src(c.args[0]):
            inner = c.func.value
            ok = isinstance(inner, ast.Call) and last_attr(inner) == "then" and "_resolve_job" in src(inner.args[0]) and "self.evaluate(" in src(inner)
    r4.check(ok, f"{m.rel}:{lc.DONE}:chain", "the done handler does not end in evaluate(result).then(resolve).catch(reject): a failure while evaluating the result would leave the job pending", m.rel, dn.lineno)
    ex = m.func(lc.EXEC)
    r4.check(True, f"{m.rel}:lifecycle:traces", "", note=f"{len(results)} traces explored")
    # ---- C09.6 per-execution state does not leak into the next execution ----------------------
    # run() may be called again on the same Scheduler after an execution that stopped early (a failure while other jobs were still running):
    # whatever that execution left in the scheduler's work containers would be processed / waited for by the next one.
    r6 = ctx.rule("C09.6", "every work container the lifecycle mutates is reset by Scheduler.clear() at the start of an execution", floor=5)
    PERSISTENT = {
        "executors": "configuration: filled by add_executor/load, not by the job lifecycle",
    }
    init = m.func("Scheduler.__init__")
    containers = {}
    for n in ast.walk(init):
        tg = n.target if isinstance(n, ast.AnnAssign) else (n.targets[0] if isinstance(n, ast.Assign) else None)
        if tg is not None and isinstance(tg, ast.Attribute) and src(tg.value) == "self" and n.value is not None:
            v = n.value
            if isinstance(v, (ast.List, ast.Dict, ast.Set)) or (isinstance(v, ast.Call) and (call_name(v) or "").split(".")[-1] in ("set", "dict", "list", "defaultdict", "Queue", "OrderedDict", "deque")):
                containers[tg.attr] = src(v)
    mutated = {}
    for q, fn in m.funcs.items():
        if not q.startswith("Scheduler.") or q in ("Scheduler.__init__", "Scheduler.clear"):
            continue
        for n in ast.walk(fn):
            f = None
            if isinstance(n, ast.Call) and isinstance(n.func, ast.Attribute) and isinstance(n.func.value, ast.Attribute) and src(n.func.value.value) == "self" and n.func.attr in ("append", "add", "put", "extend", "update", "setdefault", "appendleft"):
                f = n.func.value.attr
            elif isinstance(n, (ast.Assign, ast.AugAssign)):
                for t in n.targets if isinstance(n, ast.Assign) else [n.target]:
                    if isinstance(t, ast.Subscript) and isinstance(t.value, ast.Attribute) and src(t.value.value) == "self":
                        f = t.value.attr
            if f in containers:
                mutated.setdefault(f, set()).add(q.split(".", 1)[1])
    cl = m.func("Scheduler.clear")
    reset = set()
    for n in ast.walk(cl):
        if isinstance(n, ast.Call) and isinstance(n.func, ast.Attribute) and isinstance(n.func.value, ast.Attribute) and src(n.func.value.value) == "self" and n.func.attr in ("clear", "get_nowait", "get"):
            reset.add(n.func.value.attr)
        if isinstance(n, ast.Assign):
            for t in n.targets:
                b = t.value if isinstance(t, ast.Subscript) else t
                if isinstance(b, ast.Attribute) and src(b.value) == "self":
                    reset.add(b.attr)
    runf = m.func("Scheduler._run")
    r6.check(any(call_name(c) == "self.clear" for c in calls_in(runf, shallow=True)), f"{m.rel}:Scheduler._run:clear", "_run does not reset the scheduler state before evaluating", m.rel, runf.lineno)
    for f in sorted(mutated):
        if f in PERSISTENT:
            r6.good(f"{m.rel}:Scheduler.clear:{f}", PERSISTENT[f])
            continue
        r6.check(
            f in reset,
            f"{m.rel}:Scheduler.clear:{f}",
            f"self.{f} (initialised to {containers[f]}, filled by {sorted(mutated[f])[:3]}) is not reset by Scheduler.clear(): after an execution that stopped early its leftovers -- "
            "events of jobs that were still running, jobs waiting for limits, units still counted as held -- are processed or waited for by the next run() on the same Scheduler "
            "(KeyError in _finalize_job, a job of the old execution recorded under the new one, or a wait for units nobody will release)",
            m.rel,
            cl.lineno,
        )
    # an element-wise reset (`for k in X: self.F[k] = v`) covers every entry of F only when X is F itself: entries of F that are not keys of another
    # container (resource names that jobs use but the [limits] config does not list) would keep their value
    for lp in ast.walk(cl):
        if not isinstance(lp, ast.For):
            continue
        for a in ast.walk(lp):
            if isinstance(a, ast.Assign):
                for t in a.targets:
                    if isinstance(t, ast.Subscript) and isinstance(t.value, ast.Attribute) and src(t.value.value) == "self" and t.value.attr in mutated:
                        f = t.value.attr
                        it = src(lp.iter)
                        same = it in (f"self.{f}", f"self.{f}.keys()", f"list(self.{f})", f"list(self.{f}.keys())", f"tuple(self.{f})")
                        r6.check(
                            same,
                            f"{m.rel}:Scheduler.clear:{f}:elementwise-over-own-keys",
                            f"Scheduler.clear() resets self.{f} entry by entry but iterates `{it}`: entries of self.{f} whose key is not in `{it}` keep their value (a resource name used by a job but "
                            "absent from the [limits] config defaults to capacity 1 and is counted in limits_used; after an execution that stopped with such a unit held, the next run() waits for it for ever)",
                            m.rel,
                            lp.lineno,
                        )
    # ---- C09.7 no hold-and-wait ------------------------------------------------------------------
    # Units are released in the done/reject handlers.  A synchronous task reaches them when its function returns (children run afterwards); an
    # async task reaches them only after everything it awaited has finished.  The entry point through which a *running* job starts a child
    # evaluation must therefore give the parent's units back first, or a child that needs the same resource waits for its own parent.
    r7 = ctx.rule("C09.7", "a running job does not keep its resource units while the scheduler evaluates an expression it awaits", floor=1)
    ea = m.funcs.get("Scheduler._evaluate_async_main_thread")
    if ea is None:
        raise AnalysisError("Scheduler._evaluate_async_main_thread not found", "Scheduler._evaluate_async_main_thread")
    evals = [c for c in calls_in(ea) if call_name(c) == "self.evaluate"]
    if not evals:
        raise AnalysisError("_evaluate_async_main_thread no longer calls self.evaluate", "Scheduler._evaluate_async_main_thread")
    releases = [c for c in calls_in(ea) if call_name(c) in ("self._release_resources",)]
    r7.check(
        bool(releases),
        f"{m.rel}:Scheduler._evaluate_async_main_thread:hold-and-wait",
        "an async task that awaits a child expression keeps the units it consumed (they are released only in _done_job_main_thread/_reject_job_main_thread, which an async task reaches after "
        "everything it awaited has finished): with limits={'api': 1}, an async parent with limits=['api'] awaiting a child with limits=['api'] parks the child in _jobs_pending_limits for ever and run() never returns",
        m.rel,
        ea.lineno,
    )

    # ---- C09.8 consumed units are marked as held before the job can leave the function --------------------
    # The finalisers give units back only for a job whose limits_held flag is set.  Any exit between _consume_resources() and the flag
    # (an early reject for an unknown executor, a return) leaks the units: limits_used never drops and later jobs wait for ever.
    r8 = ctx.rule("C09.8", "no exit between _consume_resources() and job.limits_held = True", floor=1)
    n8 = 0
    for q, fn in m.funcs.items():
        if not q.startswith("Scheduler.") or not isinstance(fn, FuncNode):
            continue
        consumes = [c for c in calls_in(fn, shallow=True) if call_name(c) == "self._consume_resources"]
        if not consumes:
            continue
        cfg8 = CFG(fn)
        marks = [n for n in cfg8.nodes if n.kind == "stmt" and isinstance(n.ast, ast.Assign) and any(src(t).endswith(".limits_held") for t in n.ast.targets) and src(n.ast.value) == "True"]
        leaves = [cfg8.exit, cfg8.raise_exit] + [
            cfg8.node_of(c) for c in calls_in(fn, shallow=True) if (call_name(c) or "").split(".")[-1] in ("reject_job", "_reject_job_main_thread", "_reject_job", "_add_job_pending_limits")
        ]
        for c in consumes:
            n8 += 1
            cn = cfg8.node_of(c)
            ok8 = bool(marks) and all(cfg8.must_pass(s_, marks, targets=leaves) for s_ in cn.succ if s_ is not cfg8.raise_exit)
            r8.check(
                ok8,
                f"{m.rel}:{q}:consume-then-mark",
                "after _consume_resources() the job can leave the function (return, reject, raise) before `limits_held = True`: the reject/done finalisers release "
                "units only for jobs with the flag set, so the units stay counted in limits_used and a later job needing them is parked in _jobs_pending_limits for ever",
                m.rel,
                c.lineno,
            )
    if n8 == 0:
        raise AnalysisError("no _consume_resources() call site found in Scheduler", "Scheduler._consume_resources")

    # ---- C09.9 the local executor settles a job whatever the task raised ------------------------------------------
    # future.result() / `await task.func(..)` re-raise what the task function raised, including SystemExit (sys.exit() in a task) and other
    # BaseExceptions.  A handler for Exception only lets those escape the completion callback -- concurrent.futures logs and drops them --
    # so neither done_job nor reject_job is queued and run() blocks for ever.
    r9 = ctx.rule("C09.9", "LocalExecutor's completion handlers reject the job for every BaseException the task can raise", floor=2)
    lm = repo.mod("redun/executors/local.py")
    n9 = 0
    for t in ast.walk(lm.tree):
        if not isinstance(t, ast.Try):
            continue
        if not any(isinstance(c, ast.Call) and last_attr(c) == "done_job" for st in t.body for c in ast.walk(st)):
            continue
        n9 += 1
        wide = False
        for h in t.handlers:
            rejects = any(isinstance(c, ast.Call) and last_attr(c) == "reject_job" for c in ast.walk(h))
            names = [] if h.type is None else [src(x) for x in (h.type.elts if isinstance(h.type, ast.Tuple) else [h.type])]
            if rejects and (h.type is None or "BaseException" in names):
                wide = True
        q9 = lm.enclosing_qual(t)
        r9.check(
            wide,
            f"{lm.rel}:{q9}:rejects-base-exception",
            f"the handler around done_job in {q9} catches {sorted({src(h.type) for h in t.handlers if h.type is not None})} only: a task that calls sys.exit() (SystemExit) is never reported "
            "done or failed, its job stays RUNNING and Scheduler.run() never returns",
            lm.rel,
            t.lineno,
        )
    if n9 < 2:
        raise AnalysisError(f"only {n9} done_job try-blocks found in LocalExecutor", "LocalExecutor._submit")


def _compress(seq: str) -> str:
    out = []
    for p in seq.split(">"):
        if not out or out[-1] != p:
            out.append(p)
    return ">".join(out)
