"""C10 -- remote-executor monitors never lose a submitted job (lock-discipline clause).

Decides whether the start/exit handshake between a submitting thread and the
monitor thread is atomic: the monitor's decision to exit (its loop guard reads
the pending-work collections) together with the state change that lets the next
submitter start a new monitor, against the submitter's test-and-spawn.
"""

from __future__ import annotations

import ast
import re

from ..cfg import facts_at as _facts_c10

from ..core import AnalysisError, FuncNode, call_name, calls_in, kwarg, last_attr, src
from ..lockset import lock_fields

EXPLANATION = (
    "C10.1 for every executor class that spawns threading.Thread(target=self.<m>) from a start method: extract the target's terminal loop "
    "guard, the work collections G it reads, and the liveness test D of the start method (running flag or Thread.is_alive()). Accepted idiom A: "
    "a lock L of the class such that the guard evaluation that ends the loop and the change that makes D true for the next starter are in one "
    "`with self.L` region and the start method's test-and-spawn is in `with self.L`; accepted idiom B: the guard does not read G (the monitor "
    "lives until stop()). Anything else is reported with class, thread target and liveness test; C10.2 each submit path registers the job in G "
    "before calling the start method; C10.3 the monitor's top level routes exceptions to scheduler.reject_job; "
    "C10.4 JobArrayer.num_pending, read by the AWS Batch / K8S / GCP Batch monitor loop guards, changes by exactly the number of jobs added to / removed from "
    "JobArrayer.pending on every path of every method that writes it (symbolic list-size conservation, sa/conserve.py)."
)

EXECUTORS = ["redun/executors/docker.py", "redun/executors/aws_batch.py", "redun/executors/k8s.py", "redun/executors/gcp_batch.py", "redun/executors/aws_glue.py"]


def _self_fields(e: ast.AST) -> set[str]:
    return {n.attr for n in ast.walk(e) if isinstance(n, ast.Attribute) and isinstance(n.value, ast.Name) and n.value.id == "self"}


def _with_locks(mod, node, locks) -> set[str]:
    held = set()
    p = mod.parent.get(node)
    while p is not None:
        if isinstance(p, (ast.With, ast.AsyncWith)):
            for it in p.items:
                d = src(it.context_expr)
                if d.startswith("self.") and d[5:] in locks:
                    held.add(d[5:])
        if isinstance(p, FuncNode):
            break
        p = mod.parent.get(p)
    return held


def run(ctx):
    repo = ctx.repo
    r1 = ctx.rule("C10.1", "monitor start/exit handshake is atomic (lock idiom) or the monitor outlives empty work", floor=6)
    r2 = ctx.rule("C10.2", "submit paths register the job before (re)starting the monitor", floor=5)
    r3 = ctx.rule("C10.3", "monitor threads route top-level exceptions to the scheduler", floor=5)
    nclasses = 0
    table = []
    for rel in EXECUTORS:
        repo.mod(rel)  # the five anchored executors must exist
    for rel in sorted(r for r in repo.modules if r.startswith("redun/executors/")):
        mod = repo.mod(rel)
        for cname, cls in mod.classes.items():
            if "." in cname:
                continue
            methods = {st.name: st for st in cls.body if isinstance(st, FuncNode)}
            spawns = []
            for mname, fn in methods.items():
                if mname == "__init__":
                    continue
                for c in calls_in(fn):
                    if (call_name(c) or "").endswith("Thread"):
                        tg = kwarg(c, "target")
                        if tg is not None and src(tg).startswith("self."):
                            spawns.append((mname, fn, c, src(tg)[5:]))
            if not spawns:
                continue
            nclasses += 1
            locks = lock_fields(cls)
            for mname, startfn, spawn, target in spawns:
                tfn = methods.get(target)
                if tfn is None:
                    raise AnalysisError(f"{cname}: thread target {target} not found", f"{rel}:{cname}")
                loops = [n for n in ast.walk(tfn) if isinstance(n, ast.While) and mod.enclosing_func(n) is tfn]
                if not loops and rel not in EXECUTORS:
                    table.append({"class": cname, "target": target, "start": mname, "note": "thread target has no polling loop: not a monitor"})
                    continue
                if not loops:
                    raise AnalysisError(f"{cname}.{target}: no loop in thread target (unknown shape)", f"{rel}:{cname}.{target}")
                # outermost loop = terminal loop
                loop = min(loops, key=lambda n: n.lineno)
                gfields = _self_fields(loop.test)
                flags = {f for f in gfields if "running" in f}
                work = gfields - flags
                # liveness test in the start method guarding the spawn
                guard_if = None
                p = mod.parent.get(spawn)
                while p is not None and p is not startfn:
                    if isinstance(p, ast.If):
                        guard_if = p
                    p = mod.parent.get(p)
                dtest = src(guard_if.test) if guard_if is not None else None
                if dtest is None:
                    # early-return form: `if self.is_running: return`
                    for st in startfn.body:
                        if isinstance(st, ast.If) and any(isinstance(b, ast.Return) for b in st.body) and st.lineno < spawn.lineno:
                            guard_if, dtest = st, src(st.test)
                if dtest is None:
                    raise AnalysisError(f"{cname}.{mname}: liveness test guarding the thread spawn not found", f"{rel}:{cname}.{mname}")
                construct = f"{rel}:{cname}.{target}<->{mname}"
                row = {"class": cname, "target": target, "start": mname, "loop_guard": src(loop.test), "work": sorted(work), "liveness": dtest, "locks": sorted(locks)}
                table.append(row)
                if not work:
                    r1.good(construct, "idiom B: loop guard does not depend on pending work")
                    continue
                # idiom A
                ok = False
                if locks:
                    start_locked = _with_locks(mod, guard_if, locks)
                    # flag clear / exit decision inside the target (or stop() called from it) under the same lock together with a test of G
                    for n in ast.walk(tfn):
                        if isinstance(n, (ast.With, ast.AsyncWith)):
                            held = {src(it.context_expr)[5:] for it in n.items if src(it.context_expr).startswith("self.") and src(it.context_expr)[5:] in locks}
                            if held & start_locked:
                                body_fields = set()
                                clears = False
                                for b in n.body:
                                    body_fields |= _self_fields(b)
                                    for a in ast.walk(b):
                                        if isinstance(a, ast.Assign) and any("running" in src(t) for t in a.targets) and src(a.value) == "False":
                                            clears = True
                                        if isinstance(a, (ast.Return, ast.Break)):
                                            clears = clears or ("is_alive" in dtest)
                                if clears and (work & body_fields):
                                    ok = True
                r1.check(
                    ok,
                    construct,
                    f"{cname}.{target} leaves its loop when `{src(loop.test)}` is false and only afterwards makes `{dtest}` true for the next starter "
                    f"(flag cleared in stop() / thread return), while {cname}.{mname} tests `{dtest}` and spawns without a lock shared with the monitor: a job "
                    f"registered in {sorted(work)} between the monitor's last guard evaluation and its exit is seen by no monitor thread and is never reported",
                    rel,
                    loop.lineno,
                )
                # C10.3
                top_try = [n for n in tfn.body if isinstance(n, ast.Try)]
                ok3 = any(any(src(h.type) == "Exception" and any((call_name(c) or "").endswith("reject_job") for b in h.body for c in calls_in(b)) for h in t.handlers) and any(x is loop for x in ast.walk(t)) for t in top_try)
                r3.check(ok3, f"{rel}:{cname}.{target}:top-level", "the thread's loop is not wrapped in try/except Exception -> scheduler.reject_job(None, error)", rel, tfn.lineno)
            # C10.2: every call of the start method is preceded (in the same function) by a registration into one of the work collections
            starts = {row["start"] for row in table if row["class"] == cname and "note" not in row}
            works = set()
            for row in table:
                if row["class"] == cname:
                    works |= set(row.get("work", ()))
            for mname, fn in methods.items():
                for c in calls_in(fn):
                    if call_name(c) in {f"self.{s}" for s in starts}:
                        reg = False
                        for n in ast.walk(fn):
                            if getattr(n, "lineno", 10**9) >= c.lineno:
                                continue
                            if isinstance(n, ast.Assign) and any(isinstance(t, ast.Subscript) and isinstance(t.value, ast.Attribute) and t.value.attr in works for t in n.targets):
                                reg = True
                            if isinstance(n, ast.Call) and isinstance(n.func, ast.Attribute) and n.func.attr in ("append", "add_job", "extend") and isinstance(n.func.value, ast.Attribute) and (n.func.value.attr in works or n.func.value.attr == "arrayer"):
                                reg = True
                        r2.check(reg, f"{rel}:{cname}.{mname}:register-then-start", f"{cname}.{mname} calls the monitor start without first registering the job in {sorted(works)}", rel, c.lineno)
    if nclasses < 5:
        raise AnalysisError(f"only {nclasses} thread-owning executor classes found (expected >= 5)", "executors")
    ctx.extra["handshake_table"] = table

    # ---- C10.4 -----------------------------------------------------------
    # a monitor loop guard that reads arrayer.num_pending relies on that counter being exact: if it reads 0 while jobs are still queued in the
    # arrayer, the monitor exits (and stop() stops the arrayer) with submitted jobs that no thread will ever report
    r4 = ctx.rule("C10.4", "counters read by monitor loop guards move exactly with the queues they summarise", floor=2)
    from ..conserve import Conservation, f_eq, f_str

    readers = [row for row in table if "loop_guard" in row and "num_pending" in row["loop_guard"]]
    if not readers:
        raise AnalysisError("no monitor loop guard reads arrayer.num_pending any more (anchor vanished)", "executors")
    jm = repo.mod("redun/job_array.py")
    jcls = jm.cls("JobArrayer")
    writers = [st for st in jcls.body if isinstance(st, FuncNode) and st.name != "__init__" and any(
        isinstance(n, (ast.AugAssign, ast.Assign)) and any(src(t) == "self.num_pending" for t in ([n.target] if isinstance(n, ast.AugAssign) else n.targets)) for n in ast.walk(st))]
    if not writers:
        raise AnalysisError("JobArrayer.num_pending has no writer outside __init__", "JobArrayer")
    for fn in writers:
        for p in Conservation(fn, "pending", "num_pending", "_submit_jobs").run():
            where = " -> ".join(p.trace[:6])
            r4.check(
                f_eq(p.dq, p.dc),
                f"{jm.rel}:JobArrayer.{fn.name}:count",
                f"on the path [{where}] `pending` changes by {f_str(p.dq)} job(s) but num_pending by {f_str(p.dc)}; the monitor loops of "
                f"{sorted({r['class'] for r in readers})} run `while ... or self.arrayer.num_pending` and exit when it reads 0 with jobs still queued",
                jm.rel,
                fn.lineno,
            )

    # ---- C10.5 a thread that may exit on its own is restartable by every submission ------------------
    # Where the start method decides per thread with `not self.<thread>.is_alive()`, that thread's loop ends when its own work collection is
    # empty while another thread keeps the executor "running".  Every path through the start method must therefore reach that liveness test;
    # an early return on the shared running flag leaves a submission without the thread that would consume it.
    r5 = ctx.rule("C10.5", "per-thread liveness tests in the start method are reached on every path", floor=1)
    from ..cfg import CFG

    nlive = 0
    for rel in sorted(r for r in repo.modules if r.startswith("redun/executors/")):
        mod = repo.mod(rel)
        for cname, cls in mod.classes.items():
            if "." in cname:
                continue
            for st in cls.body:
                if not isinstance(st, FuncNode):
                    continue
                spawns = [c for c in calls_in(st) if (call_name(c) or "").endswith("Thread") and kwarg(c, "target") is not None and src(kwarg(c, "target")).startswith("self.")]
                if not spawns:
                    continue
                cfg5 = CFG(st)
                for t in cfg5.nodes:
                    if t.kind == "test" and isinstance(t.ast, ast.expr) and "is_alive()" in src(t.ast):
                        nlive += 1
                        r5.check(
                            cfg5.must_pass(cfg5.entry, [t]),
                            f"{rel}:{cname}.{st.name}:{src(t.ast)[:50]}",
                            f"{cname}.{st.name} can return without evaluating `{src(t.ast)}`: a job submitted while the executor is still marked running but this thread has already "
                            "finished (its own queue was empty) is registered and never picked up -- it is neither sent nor reported",
                            rel,
                            t.lineno,
                        )
    if nlive == 0:
        raise AnalysisError("no per-thread is_alive() liveness test found in any executor start method", "executors")

    # ---- C10.6 -----------------------------------------------------------
    # A thread that moves a job out of a collection which ANOTHER thread's loop guard reads must not leave the job in none of that guard's
    # collections while it calls anything: the other thread may evaluate its guard in that window, find no work and exit for good.
    r6 = ctx.rule("C10.6", "a job in transit between collections read by another thread's loop guard is never in none of them across a call", floor=1)
    ntransit = 0
    REMOVERS = {"pop", "popleft", "popitem"}
    for rel in sorted(r for r in repo.modules if r.startswith("redun/executors/")):
        mod = repo.mod(rel)
        for cname, cls in mod.classes.items():
            rows = [row for row in table if row["class"] == cname and "note" not in row]
            if len(rows) < 2:
                continue
            methods = {st.name: st for st in cls.body if isinstance(st, FuncNode)}
            for row in rows:
                fn = methods[row["target"]]
                others = set()
                for o in rows:
                    if o["target"] != row["target"]:
                        others |= {f for f in re.findall(r"self\.(\w+)", o["loop_guard"]) if f != "is_running" and not f.startswith("_thread")}
                if not others:
                    continue
                cfg6 = CFG(fn)
                for n in cfg6.nodes:
                    if n.kind != "stmt" or not isinstance(n.ast, (ast.Assign, ast.Expr)) or not isinstance(n.ast.value, ast.Call):
                        continue
                    c = n.ast.value
                    if not (isinstance(c.func, ast.Attribute) and c.func.attr in REMOVERS and isinstance(c.func.value, ast.Attribute) and src(c.func.value.value) == "self" and c.func.value.attr in others):
                        continue
                    var = src(n.ast.targets[0]) if isinstance(n.ast, ast.Assign) else None
                    ntransit += 1
                    if var is None:
                        # `self.q.popleft()` as a statement discards the element: fine when the job was put into a guard collection just before
                        # (same block) or when the thread gives up on it (`raise` follows)
                        blk = mod.parent.get(n.ast)
                        sibs = []
                        for fld in ("body", "orelse", "finalbody"):
                            b = getattr(blk, fld, None)
                            if isinstance(b, list) and n.ast in b:
                                sibs = b
                        i = sibs.index(n.ast) if n.ast in sibs else -1
                        prev_put = any(
                            isinstance(w, ast.Assign) and any(isinstance(t, ast.Subscript) and isinstance(t.value, ast.Attribute) and t.value.attr in others for t in w.targets)
                            or (isinstance(w, ast.Expr) and isinstance(w.value, ast.Call) and isinstance(w.value.func, ast.Attribute) and w.value.func.attr in ("append", "appendleft", "add") and isinstance(w.value.func.value, ast.Attribute) and w.value.func.value.attr in others)
                            for w in sibs[:i]
                        )
                        gives_up = i >= 0 and i + 1 < len(sibs) and isinstance(sibs[i + 1], ast.Raise)
                        if prev_put or gives_up:
                            r6.good(f"{rel}:{cname}.{row['target']}:{c.func.value.attr}:in-transit", "element registered elsewhere before it is dropped here (or the thread re-raises)")
                            continue
                    # forward walk until the job is put (back) into one of the other guard's collections
                    seen, work, bad = set(), list(n.succ), None
                    while work and bad is None:
                        x = work.pop()
                        if x in seen or x in (cfg6.exit, cfg6.raise_exit):
                            continue
                        seen.add(x)
                        a = x.ast
                        if x.kind == "stmt" and a is not None and not isinstance(a, (FuncNode, ast.Try, ast.With, ast.For, ast.While, ast.If)):
                            put = False
                            for w in ast.walk(a):
                                if isinstance(w, ast.Assign) and any(isinstance(t, ast.Subscript) and isinstance(t.value, ast.Attribute) and t.value.attr in others for t in w.targets) and (var is None or src(w.value) == var):
                                    put = True
                                if isinstance(w, ast.Call) and isinstance(w.func, ast.Attribute) and w.func.attr in ("append", "appendleft", "add") and isinstance(w.func.value, ast.Attribute) and w.func.value.attr in others and w.args and (var is None or src(w.args[0]) == var):
                                    put = True
                            if put:
                                continue
                            calls = [w for w in ast.walk(a) if isinstance(w, ast.Call)]
                            if calls:
                                bad = calls[0]
                                break
                        work.extend(x.succ)
                    r6.check(
                        bad is None,
                        f"{rel}:{cname}.{row['target']}:{c.func.value.attr}:in-transit",
                        (
                            f"{cname}.{row['target']} takes `{var or 'a job'}` out of self.{c.func.value.attr} and then calls `{src(bad)[:60]}` (line {bad.lineno}) before the job is in any of {sorted(others)}: "
                            f"another thread of {cname} leaves its loop when those collections are all empty, so if it evaluates its guard during that call the job is registered afterwards with no thread "
                            "left to poll it and is never reported"
                        )
                        if bad is not None
                        else "",
                        rel,
                        n.lineno,
                    )
    if ntransit == 0:
        r6.good("redun/executors:no-cross-thread-transit", "no thread removes from a collection read by another thread's loop guard")

    # ---- C10.7 -----------------------------------------------------------
    # the reunite branch of a submit method may decline (remote job gone); whatever it decides, the job must end up registered with a
    # collection a monitor polls, handed to the arrayer / another submit method, or reported.  Paths are enumerated with the None-ness of the
    # remote-id variable tracked, because the hand-off to the arrayer is written as `if <id> is None: self.arrayer.add_job(job)`.
    r7 = ctx.rule("C10.7", "every feasible path through a reuniting submit method registers, forwards or reports the job", floor=4)
    nsub = 0
    for rel in EXECUTORS:
        mod = repo.mod(rel)
        for qn, fn in mod.funcs.items():
            if qn.count(".") != 1 or mod.enclosing_func(fn) is not None and False:
                continue
            if not any(isinstance(x, ast.Attribute) and x.attr.startswith("preexisting_") for x in ast.walk(fn)) or "gather" in qn or qn.endswith("__init__"):
                continue
            params = [a.arg for a in fn.args.args]
            if "job" not in params:
                continue
            nsub += 1
            bad = _unregistered_path(fn, "job")
            r7.check(
                bad is None,
                f"{rel}:{qn}:registers-job",
                f"{qn} has a feasible path that neither registers `job` in a polled collection, nor hands it to the arrayer or another submit method, nor reports it: {bad}; "
                "such a job is never done or rejected and the scheduler waits for it forever",
                rel,
                fn.lineno,
            )
    if nsub < 4:
        raise AnalysisError(f"only {nsub} reuniting submit methods found (expected >= 4)", "preexisting_")
    # ---- C10.8 a monitor winding down stops only what it monitors ----------------------------------
    # Batch executors embed a DockerExecutor for debug jobs; it has its own monitor thread and its own pending set.  When the batch monitor has
    # drained *its* pending set it must not call the whole-executor stop(), which also stops the embedded executor: that clears the flag the
    # docker monitor's loop guard reads, and the docker monitor exits with debug jobs still pending -- they are never reported.
    r8 = ctx.rule("C10.8", "a monitor thread's own shutdown does not stop an embedded executor that has its own monitor", floor=2)
    n8 = 0
    for rel in EXECUTORS:
        mod = repo.mod(rel)
        for cname, cls in mod.classes.items():
            if "." in cname:
                continue
            methods = {st.name: st for st in cls.body if isinstance(st, FuncNode)}
            init = methods.get("__init__")
            stopm = methods.get("stop")
            mon = methods.get("_monitor")
            if init is None or stopm is None or mon is None:
                continue
            embedded = {src(a.targets[0])[5:] for a in ast.walk(init) if isinstance(a, ast.Assign) and src(a.targets[0]).startswith("self.") and isinstance(a.value, ast.Call) and (call_name(a.value) or "").endswith("Executor")}
            stops_embedded = [e for e in embedded if any(call_name(c) == f"self.{e}.stop" for c in calls_in(stopm))]
            if not stops_embedded:
                continue
            n8 += 1
            calls_stop = [c for c in calls_in(mon) if call_name(c) == "self.stop"]
            r8.check(
                not calls_stop,
                f"{rel}:{cname}._monitor:stops-embedded:{stops_embedded[0]}",
                f"{cname}._monitor ends with self.stop() (line {calls_stop[0].lineno if calls_stop else 0}), and {cname}.stop() also stops self.{stops_embedded[0]}, an executor with its own monitor thread: a debug job still pending "
                f"there when the batch jobs are done is never polled again and never reported",
                rel,
                calls_stop[0].lineno if calls_stop else mon.lineno,
            )
    if n8 < 2:
        raise AnalysisError(f"only {n8} executors with an embedded executor stopped by stop() found (AWS Batch, GCP Batch expected)", "executors")

    # ---- C10.9 the arrayer is restarted when a job arrives while a stop() is in flight ----------------
    r9 = ctx.rule("C10.9", "JobArrayer.start() does not take a thread that has been told to exit for a running one", floor=1)
    jam = repo.mod("redun/job_array.py")
    st9 = jam.func("JobArrayer.start")
    cfg9 = CFG(st9)
    for nn in cfg9.nodes:
        if nn.kind == "stmt" and isinstance(nn.ast, ast.Return) and any("is_alive()" in f and t for f, t in _facts_c10(cfg9, nn)):
            facts = _facts_c10(cfg9, nn)
            ok = any("_exit_flag.is_set()" in f and not t for f, t in facts)
            r9.check(
                ok,
                f"{jam.rel}:JobArrayer.start:alive-but-exiting",
                "JobArrayer.start() returns as soon as the old thread is_alive(), also when stop() has already set the exit flag: the thread then leaves its loop without flushing the job that was just added, "
                "and no arrayer thread is left to submit it",
                jam.rel,
                nn.lineno,
            )
    # ---- C10.10 an entry of a polled collection is published complete ------------------------------------
    # Array submission runs on the arrayer's thread while the monitor thread iterates the pending collection.  Publishing an empty per-array dict
    # and filling it in a loop lets a poll in between see a partial array: for an array that completes at once the monitor processes the
    # children it sees, pops the key, and the rest are never reported.
    r10 = ctx.rule("C10.10", "a per-array entry of a monitor-polled collection is assigned complete, not filled after publication", floor=1)
    n10 = 0
    for rel in EXECUTORS:
        mod = repo.mod(rel)
        for qn, fn in mod.funcs.items():
            if "array" not in qn.lower():
                continue
            for a in ast.walk(fn):
                if isinstance(a, ast.Assign) and isinstance(a.targets[0], ast.Subscript) and isinstance(a.targets[0].value, ast.Attribute) and src(a.targets[0].value.value) == "self" and a.targets[0].value.attr.startswith("pending_"):
                    n10 += 1
                    coll = a.targets[0].value.attr
                    key = src(a.targets[0].slice)
                    empty = (isinstance(a.value, ast.Dict) and not a.value.keys) or (isinstance(a.value, ast.Call) and call_name(a.value) in ("dict", "defaultdict") and not a.value.args)
                    filled_later = [
                        lp for lp in ast.walk(fn)
                        if isinstance(lp, (ast.For, ast.While)) and lp.lineno > a.lineno and any(
                            isinstance(x, ast.Assign) and isinstance(x.targets[0], ast.Subscript) and f"self.{coll}[{key}]" in src(x.targets[0].value) for x in ast.walk(lp)
                        )
                    ]
                    r10.check(
                        not (empty and filled_later),
                        f"{rel}:{qn}:{coll}:published-empty",
                        f"{qn} assigns an empty container to self.{coll}[{key}] (line {a.lineno}) and fills it in a loop afterwards: the monitor thread polling self.{coll} in between sees a partial array; "
                        "if the array job has already finished it reports the children present so far, drops the key, and the remaining jobs are never reported",
                        rel,
                        a.lineno,
                    )
    if n10 == 0:
        raise AnalysisError("no per-array registration into a pending_* collection found in the executors", "executors")


def _unregistered_path(fn, jv):
    from ..cfg import CFG

    cfg = CFG(fn)

    def registers(n):
        if n.kind != "stmt" or n.ast is None or isinstance(n.ast, (ast.If, ast.For, ast.While, ast.Try, ast.With, FuncNode)):
            return False
        for w in ast.walk(n.ast):
            if isinstance(w, ast.Assign) and any(isinstance(t, ast.Subscript) and any(isinstance(y, ast.Attribute) and src(y.value) == "self" for y in ast.walk(t.value)) for t in w.targets) and any(isinstance(x, ast.Name) and x.id == jv for x in ast.walk(w.value)):
                return True
            if isinstance(w, ast.Call) and any(isinstance(a, ast.Name) and a.id == jv for a in w.args) and isinstance(w.func, ast.Attribute):
                if w.func.attr in ("add_job", "append", "appendleft", "done_job", "reject_job") or w.func.attr.lstrip("_").startswith("submit"):
                    return True
        return False

    for path in cfg.paths(ends=[cfg.exit], max_visits=1, limit=50000):
        env = {}
        feasible, reg, trail = True, False, []
        for n in path:
            if n.kind == "edge" and isinstance(n.test.ast, ast.expr):
                t = n.test.ast
                want = n.label == "T"
                var, is_none_test = None, None
                if isinstance(t, ast.Compare) and len(t.ops) == 1 and isinstance(t.left, ast.Name) and isinstance(t.comparators[0], ast.Constant) and t.comparators[0].value is None:
                    var, is_none_test = t.left.id, isinstance(t.ops[0], ast.Is)
                if var is not None and var in env:
                    holds = (env[var] == "none") == is_none_test
                    if holds != want:
                        feasible = False
                        break
                trail.append(f"{src(t)[:40]}={'T' if want else 'F'}@{n.test.lineno}")
            elif n.kind == "stmt" and n.ast is not None:
                a = n.ast
                if isinstance(a, (ast.Assign, ast.AnnAssign)):
                    tg = a.targets[0] if isinstance(a, ast.Assign) else a.target
                    if isinstance(tg, ast.Name) and a.value is not None:
                        if isinstance(a.value, ast.Constant) and a.value.value is None:
                            env[tg.id] = "none"
                        else:
                            env.pop(tg.id, None)
                elif isinstance(a, ast.Assert) and isinstance(a.test, ast.Name):
                    env[a.test.id] = "some"
                if registers(n):
                    reg = True
        if feasible and not reg:
            return "path " + " -> ".join(trail[-6:])
    return None
