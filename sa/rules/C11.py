"""C11 -- the job arrayer hands off every job exactly once (structural clauses).

Lock discipline on the arrayer's shared state (guarded-by), the exactly-once
partition of popped jobs into batches with the structural size bounds, and the
monitor's top-level error routing.  The interleavings themselves are not
enumerated.
"""

from __future__ import annotations

import ast

from ..core import AnalysisError, FuncNode, call_name, calls_in, last_attr, src
from ..lockset import accesses, lock_fields

EXPLANATION = (
    "C11.1 guarded-by: every field of JobArrayer that is accessed under self._lock anywhere outside __init__ is accessed under it everywhere "
    "outside __init__ (lexical lockset over all methods reachable from the two thread entries add_job and _monitor_stale_jobs); foreign reads of "
    "num_pending by executors are listed; C11.2 submit_pending_jobs pops the group under the lock and partitions it: > max -> slice [:max] "
    "submitted, [max:] re-inserted under the lock; < min -> singletons; otherwise one batch; max >= min enforced in __init__; groups are keyed by "
    "task name + sorted options; the pending counter is decremented by the number handed off; C11.3 the monitor's top level routes any exception "
    "to on_error and add_job updates queue, timestamp and counter in one critical section."
)

JA = "redun/job_array.py"


def run(ctx):
    repo = ctx.repo
    m = repo.mod(JA)
    cls = m.cls("JobArrayer")
    locks = lock_fields(cls)
    if "_lock" not in locks:
        raise AnalysisError("JobArrayer._lock not found", "JobArrayer.__init__")
    acc = [a for a in accesses(m, cls) if a.method != "__init__"]
    guarded = sorted({a.field for a in acc if "_lock" in a.locks})
    if len(guarded) < 3:
        raise AnalysisError(f"expected >= 3 lock-guarded fields, found {guarded}", "JobArrayer")
    r1 = ctx.rule("C11.1", "fields guarded by _lock somewhere are guarded everywhere outside __init__", floor=8)
    for a in acc:
        if a.field not in guarded:
            continue
        r1.check(
            "_lock" in a.locks,
            f"{m.rel}:JobArrayer.{a.method}:{a.field}:{a.kind}:{a.text[:50]}",
            f"`self.{a.field}` is {'written' if a.kind != 'load' else 'read'} in JobArrayer.{a.method} (`{a.text[:70]}`) without holding self._lock, while other accesses "
            f"hold it: the monitor thread and add_job race on it ({'lost update of the pending count' if a.field == 'num_pending' else 'dict mutated during iteration / inconsistent read'})",
            m.rel,
            a.line,
        )
    foreign = []
    for mod in repo.modules.values():
        if mod.rel == JA:
            continue
        for n in ast.walk(mod.tree):
            if isinstance(n, ast.Attribute) and n.attr in guarded and "arrayer" in src(n.value):
                foreign.append(f"{mod.rel}:{mod.enclosing_qual(n)}:{src(n)}")
    ctx.extra["foreign_unguarded_reads"] = sorted(set(foreign))
    ctx.extra["guarded_fields"] = guarded

    r2 = ctx.rule("C11.2", "popped jobs are partitioned exactly once into batches of size max, 1, or [min,max]", floor=7)
    sp = m.func("JobArrayer.submit_pending_jobs")
    t = src(sp)
    pops = [a for a in acc if a.method == "submit_pending_jobs" and a.field == "pending" and "pop(" in a.text]
    r2.check(bool(pops) and all("_lock" in a.locks for a in pops), f"{m.rel}:JobArrayer.submit_pending_jobs:pop", "the group is not removed from `pending` (pop) under the lock: a job could be handed off twice", m.rel, sp.lineno)
    # conservation over symbolic list sizes (sa/conserve.py): per path, items taken out of `pending` are handed off exactly once or put back,
    # the counter moves exactly with the queue, and every hand-off batch is of size max, of size 1, or within [min, max]
    from ..conserve import Conservation, f_add, f_eq, f_str

    MAX, MIN = {"self.max_array_size": 1}, {"self.min_array_size": 1}

    def known(facts, form, rel):
        return any(f_eq(f, form) and r == rel for f, r in facts)

    for q, incoming in (("JobArrayer.submit_pending_jobs", 0), ("JobArrayer.add_job", 1)):
        fn = m.func(q)
        paths = Conservation(fn, "pending", "num_pending", "_submit_jobs").run()
        if not paths:
            raise AnalysisError(f"{q}: no path found", q)
        for p in paths:
            where = " -> ".join(p.trace[:6])
            r2.check(
                f_eq(f_add(p.taken, {1: incoming} if incoming else {}), f_add(p.back, p.off)),
                f"{m.rel}:{q}:conservation",
                f"on the path [{where}] {incoming} job(s) arrive, {f_str(p.taken)} are removed from `pending`, {f_str(p.off)} handed to _submit_jobs and {f_str(p.back)} put back: a job is lost or handed off twice",
                m.rel,
                fn.lineno,
            )
            r2.check(
                f_eq(p.dq, p.dc),
                f"{m.rel}:{q}:count",
                f"on the path [{where}] the queue changes by {f_str(p.dq)} job(s) but num_pending by {f_str(p.dc)}: the counter the executors' monitor loops wait on drifts from the queue",
                m.rel,
                fn.lineno,
            )
            for line, d, facts in p.handoffs:
                if q.endswith("add_job"):
                    continue  # unbatched submission of script jobs / arrays disabled
                le_max = d is not None and (f_eq(d, MAX) or f_eq(d, {1: 1}) or known(facts, f_add(d, MAX, -1), "<=0"))
                ge_min = d is not None and (f_eq(d, MAX) or f_eq(d, {1: 1}) or known(facts, f_add(MIN, d, -1), "<=0"))
                r2.check(
                    le_max and ge_min,
                    f"{m.rel}:{q}:batch-size",
                    f"_submit_jobs at line {line} receives {f_str(d)} job(s); on the path [{where}] this is not provably the maximum array size, a single job, or between the minimum and the maximum",
                    m.rel,
                    line,
                )
    reins = [a for a in acc if a.method == "submit_pending_jobs" and a.field == "pending" and ("extend(" in a.text or "append(" in a.text or "+=" in a.text)]
    r2.check(bool(reins) and all("_lock" in a.locks for a in reins), f"{m.rel}:JobArrayer.submit_pending_jobs:reinsert", "the remainder is not re-inserted under the lock", m.rel, sp.lineno)
    init = m.func("JobArrayer.__init__")
    ti = src(init)
    ok = "if self.max_array_size < self.min_array_size:" in ti and "raise ValueError" in ti and "self.max_array_size = min(max_array_size, MAX_ARRAY_SIZE)" in ti
    r2.check(ok, f"{m.rel}:JobArrayer.__init__:bounds", "max >= min is not enforced / max is not capped by MAX_ARRAY_SIZE", m.rel, init.lineno)
    jd = m.func("JobDescription.__init__")
    tj = src(jd)
    ok = "job.task.fullname" in tj and "job.get_options()" in tj and "sorted(self.options.items())" in tj
    eq = m.func("JobDescription.__eq__")
    hs = m.func("JobDescription.__hash__")
    ok = ok and "self.key == other.key" in src(eq) and "hash(self.key)" in src(hs)
    r2.check(ok, f"{m.rel}:JobDescription:key", "jobs are not grouped by task name + sorted options", m.rel, jd.lineno)

    r3 = ctx.rule("C11.3", "monitor never dies silently; add_job updates queue/timestamp/counter atomically", floor=3)
    mon = m.func("JobArrayer._monitor_stale_jobs")
    ok = False
    for n in mon.body:
        if isinstance(n, ast.Try) and len(mon.body) <= 2:
            for h in n.handlers:
                if src(h.type) == "Exception" and any(call_name(c) == "self._on_error" for b in h.body for c in calls_in(b)):
                    ok = True
    r3.check(ok, f"{m.rel}:JobArrayer._monitor_stale_jobs:top-level", "the monitor's whole body is not wrapped in try/except Exception -> on_error", m.rel, mon.lineno)
    aj = [a for a in acc if a.method == "add_job" and a.kind != "load"]
    fields = {a.field for a in aj if "_lock" in a.locks}
    r3.check({"pending", "pending_timestamps", "num_pending"} <= fields and all("_lock" in a.locks for a in aj if a.field in guarded), f"{m.rel}:JobArrayer.add_job:critical-section", "add_job does not update queue, timestamp and counter in one critical section", m.rel, 0)
    add = m.func("JobArrayer.add_job")
    starts = [c for c in calls_in(add) if call_name(c) == "self.start"]
    r3.check(bool(starts), f"{m.rel}:JobArrayer.add_job:start", "add_job does not (re)start the monitor after enqueueing", m.rel, add.lineno)
    loop = next((n for n in ast.walk(mon) if isinstance(n, ast.While)), None)
    ok = loop is not None and "self._exit_flag.wait(" in src(loop.test) and any(call_name(c) == "self.submit_pending_jobs" for c in calls_in(loop))
    r3.check(bool(ok), f"{m.rel}:JobArrayer._monitor_stale_jobs:loop", "the monitor loop does not submit every stale group each interval until the exit flag is set", m.rel, mon.lineno)
