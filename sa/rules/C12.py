"""C12 -- failures propagate and are never replayed from the cache (structural clauses).

An ErrorValue from the backend is never returned as a hit unless it is a CSE
hit; no rejection is dropped anywhere in the scheduler's promise chains; the
reject finaliser records the failure before settling the job.
"""

from __future__ import annotations

import ast

from ..cfg import CFG, facts_at
from ..core import AnalysisError, FuncNode, call_name, calls_in, const_str, decorator_call, decorators, kwarg, last_attr, src, stmt_of
from ..lifecycle import SCHED, Lifecycle

EXPLANATION = (
    "C12.1 in _get_cache every non-CSE `is_cached=True` return is dominated by the false outcome of isinstance(result, ErrorValue); a cached ErrorValue "
    "(CSE) is turned into reject_job in the exec handler; C12.2 promise error discipline: every discarded promise chain in scheduler.py, functools.py "
    "and context.py ends in .catch(h) or a two-argument .then(f, h); every @scheduler_task returns a promise-rooted expression on every return; "
    "C12.3 reject finaliser effect order on the provenance path: record_value(ErrorValue) < record_call_node(result_hash=error hash) < "
    "record_job_end(status FAILED) < job.reject < _finalize_job, and ancestors fail through the done handler's catch; C12.4 the ErrorValue type-name "
    "constant used by status code equals ErrorValue.type_name; workflow-level errors reject the workflow promise."
)

MODS = ["redun/scheduler.py", "redun/functools.py", "redun/context.py"]
PROMISE_ROOTS = ("evaluate", "Promise", "all", "wait_promises", "then", "catch", "result_promise")


def _is_promise_chain(e: ast.AST) -> bool:
    return isinstance(e, ast.Call) and last_attr(e) in ("then", "catch") and isinstance(e.func, ast.Attribute)


def run(ctx):
    repo = ctx.repo
    m = repo.mod(SCHED)
    lc = Lifecycle(repo)

    r1 = ctx.rule("C12.1", "backend ErrorValues are never returned as cache hits (except CSE), cached errors become rejections", floor=3)
    gc = m.func("Scheduler._get_cache")
    cfg = CFG(gc)
    nh = 0
    for n in cfg.nodes:
        if n.kind == "stmt" and isinstance(n.ast, ast.Return) and isinstance(n.ast.value, ast.Tuple) and len(n.ast.value.elts) == 3:
            flag = n.ast.value.elts[1]
            if isinstance(flag, ast.Constant) and flag.value is True:
                nh += 1
                facts = facts_at(cfg, n)
                cse = ("cache_type == CacheResult.CSE", True) in facts
                res = src(n.ast.value.elts[0])
                noerr = (f"isinstance({res}, ErrorValue)", False) in facts
                r1.check(cse or noerr, f"{m.rel}:Scheduler._get_cache:hit@{'CSE' if cse else 'backend'}", "a backend cache hit can return an ErrorValue: a failed call would be replayed instead of executed again", m.rel, n.lineno)
    if nh < 2:
        raise AnalysisError("_get_cache: hit returns not found", "Scheduler._get_cache")
    ex = m.func(lc.EXEC)
    ok = False
    for n in ast.walk(ex):
        if isinstance(n, ast.If) and src(n.test) == "isinstance(result, ErrorValue)":
            ok = any(isinstance(b, ast.Return) and "self.reject_job(job, result.error, result.traceback)" in src(b) for b in n.body) and any("self.done_job(job, result)" in src(b) for b in n.orelse)
    r1.check(ok, f"{m.rel}:{lc.EXEC}:cached-error", "a cached ErrorValue is not turned into reject_job(job, error, traceback)", m.rel, ex.lineno)
    bd = repo.mod("redun/backends/db/__init__.py")
    # backend never filters errors itself, so the scheduler-side test is the only gate: check it is reached before validity
    order = [n.lineno for n in cfg.nodes if n.kind == "test" and "ErrorValue" in src(n.ast)] + [10**9]
    valid = [n.lineno for n in cfg.nodes if n.kind == "test" and "_is_valid_value" in src(n.ast)] + [0]
    r1.check(min(order) < max(valid), f"{m.rel}:Scheduler._get_cache:order", "the ErrorValue test does not precede the validity test", m.rel, gc.lineno)

    r2 = ctx.rule("C12.2", "no promise rejection is dropped; scheduler tasks return their chains", floor=8)
    ndisc = 0
    for rel in MODS:
        mod = repo.mod(rel)
        for n in ast.walk(mod.tree):
            if isinstance(n, ast.Expr) and _is_promise_chain(n.value):
                c = n.value
                # exclude non-promise receivers (list.append etc. are not then/catch)
                ndisc += 1
                q = mod.enclosing_qual(n)
                handled = (last_attr(c) == "catch" and len(c.args) == 1) or (last_attr(c) == "then" and len(c.args) == 2)
                r2.check(handled, f"{rel}:{q}:discarded-chain:{src(c.func)[-40:]}", f"promise chain `{src(c)[:80]}` is discarded without a rejection handler: an error in it is silently lost and the job never settles", rel, n.lineno)
        for q, fn in mod.funcs.items():
            if "scheduler_task" in decorators(fn):
                rets = [r for r in ast.walk(fn) if isinstance(r, ast.Return) and mod.enclosing_func(r) is fn]
                if not rets:
                    r2.violation(f"{rel}:{q}:no-return", "scheduler task returns no promise", rel, fn.lineno)
                for r in rets:
                    v = r.value
                    ok = False
                    if isinstance(v, ast.Call):
                        d = call_name(v) or ""
                        ok = last_attr(v) in ("then", "catch", "evaluate", "all", "wait_promises") or d in ("Promise", "wait_promises") or d.endswith(".evaluate")
                    elif isinstance(v, ast.Name):
                        defs = [a for a in ast.walk(fn) if isinstance(a, ast.Assign) and any(isinstance(t, ast.Name) and t.id == v.id for t in a.targets)]
                        ok = bool(defs) and all(isinstance(a.value, ast.Call) and (last_attr(a.value) in ("then", "catch", "evaluate", "pop_promise", "all") or call_name(a.value) == "Promise") for a in defs)
                    r2.check(ok, f"{rel}:{q}:return:{src(v)[:40]}", f"scheduler task returns `{src(v)[:60]}`, which is not a promise-rooted expression: its failure cannot reach the caller", rel, r.lineno)
    if ndisc < 3:
        raise AnalysisError(f"only {ndisc} discarded promise chains found (expected >= 3)", "promise chains")

    # ---- C12.6 a rejection handler either passes the failure on or is a declared recovery point ----
    r6 = ctx.rule("C12.6", "rejection handlers re-raise / reject, except at the declared recovery points", floor=4)
    RECOVERY = {
        ("redun/scheduler.py", "catch.promise_catch"): "catch(expr, error_class, recover): recovering from the failure is its purpose; other classes are re-raised",
    }
    SINKS = ("reject_job", "_reject_job_main_thread", "do_reject", "set_exception")
    nrej = 0
    for rel in MODS:
        mod = repo.mod(rel)
        for q, fn in mod.funcs.items():
            for c in calls_in(fn, shallow=True):
                rej = None
                if last_attr(c) == "then" and len(c.args) == 2:
                    rej = c.args[1]
                if rej is None:
                    continue
                nrej += 1
                construct = f"{rel}:{q}:rejector:{src(rej)[:30]}"
                if isinstance(rej, ast.Lambda):
                    body_calls = [last_attr(x) for x in ast.walk(rej.body) if isinstance(x, ast.Call)]
                    ok = any(any(s_ in (b or "") for s_ in SINKS) or (b or "").startswith("call_soon") for b in body_calls)
                    r6.check(ok, construct, f"rejection handler `{src(rej)[:60]}` neither re-raises nor rejects: the failure is turned into a value", rel, c.lineno)
                    continue
                if not isinstance(rej, ast.Name):
                    r6.good(construct, "bound method / attribute passed through")
                    continue
                f = mod.funcs.get(f"{q}.{rej.id}")
                if f is None:
                    r6.good(construct, "handler defined elsewhere")
                    continue
                fq = f"{q}.{rej.id}"
                if (rel, fq) in RECOVERY or (rel, fq.split(".", 1)[-1] if fq.startswith("Scheduler.") else fq) in RECOVERY:
                    r6.good(construct, "declared recovery point: " + RECOVERY.get((rel, fq), ""))
                    continue
                vals = [r for r in ast.walk(f) if isinstance(r, ast.Return) and r.value is not None and not (isinstance(r.value, ast.Constant) and r.value.value is None) and mod.enclosing_func(r) is f]
                # a handler that falls off its end without re-raising must have handed the failure to a sink
                fcfg = CFG(f)
                sink_nodes = [n for n in fcfg.nodes if n.kind == "stmt" and n.ast is not None and (isinstance(n.ast, ast.Raise) or any(isinstance(x, ast.Call) and any(s_ in (last_attr(x) or "") for s_ in SINKS) for x in ast.walk(n.ast)))]
                passes_on = fcfg.must_pass(fcfg.entry, sink_nodes)
                r6.check(
                    not vals and passes_on,
                    construct,
                    f"rejection handler {fq} {'returns `' + src(vals[0].value)[:40] + '`' if vals else 'can finish without re-raising or rejecting'}: Promise.then resolves the chained promise with whatever "
                    "a rejector returns, so the failure becomes an ordinary value (the workflow continues, the ancestor job is recorded DONE, downstream tasks receive the exception object as an argument)",
                    rel,
                    f.lineno,
                )
    if nrej < 4:
        raise AnalysisError(f"only {nrej} `.then(resolver, rejector)` registrations found", "promise chains")

    r3 = ctx.rule("C12.3", "reject finaliser records the failure, then settles, then finalises; ancestors fail through the catch", floor=3)
    h = lc.handlers[lc.REJECT]
    nprov = 0
    for ps in h.paths():
        names = []
        for e in ps.events:
            if e[0] == "call":
                names.append(e[1])
            elif e[0] == "finalize":
                names.append("FINALIZE")
        if "FINALIZE" not in names or "self.backend.record_call_node" not in names:
            continue
        nprov += 1
        want = ["self.backend.record_value", "self.backend.record_call_node", "self._record_job_tags", "self.backend.record_job_end", f"{h.jobvar}.reject", "FINALIZE"]
        idx = []
        ok = True
        for w in want:
            if w not in names:
                ok = False
                break
            idx.append(names.index(w))
        ok = ok and idx == sorted(idx)
        if not ok:
            r3.violation(f"{m.rel}:{lc.REJECT}:order", f"provenance path of the reject finaliser orders {[x for x in names if x in want]}, expected {want}", m.rel, h.fn.lineno, ps.describe())
        else:
            r3.good(f"{m.rel}:{lc.REJECT}:path{nprov}")
    if nprov == 0:
        raise AnalysisError("reject finaliser: no provenance-recording path", lc.REJECT)
    rj = h.fn
    t = src(rj)
    ok = "ErrorValue(error, error_traceback or Traceback.from_error(error))" in t and "result_hash=error_hash" in t and 'self.backend.record_job_end(job, status="FAILED")' in t.replace("'", '"')
    r3.check(ok, f"{m.rel}:{lc.REJECT}:records-error", "the failed call node is not recorded with the ErrorValue's hash / the job end is not recorded as FAILED", m.rel, rj.lineno)
    t2 = src(rj)
    ok = "self.workflow_promise.do_reject(error)" in t2
    r3.check(ok, f"{m.rel}:{lc.REJECT}:workflow-error", "an error that is not job specific does not reject the workflow promise", m.rel, rj.lineno)
    # the failure is recorded even when the exception object cannot be serialised (frozen fact: pickling an object that holds
    # a lock/generator/local function raises TypeError or AttributeError, or pickle.PicklingError)
    from ..raises import handler_names, is_subclass

    tries = [n for n in ast.walk(rj) if isinstance(n, ast.Try) and any("record_value" in src(b) and ("error_value" in src(b) or "ErrorValue(" in src(b)) for b in n.body)]
    ok = False
    covered = []
    if tries:
        hs = [x for h in tries[0].handlers for x in handler_names(h)]
        covered = [e for e in ("TypeError", "AttributeError", "PicklingError") if any(is_subclass(e, h) or (e == "PicklingError" and h in ("PicklingError", "PickleError")) for h in hs)]
        fallback = any("record_value" in src(b) and "ErrorValue(" in " ".join(src(x) for x in h.body) for h in tries[0].handlers for b in h.body)
        ok = {"TypeError", "AttributeError"} <= set(covered) and fallback
    r3.check(ok, f"{m.rel}:{lc.REJECT}:unserialisable-error-fallback", f"recording the ErrorValue is not protected against errors that cannot be pickled (handled: {covered}; pickling raises TypeError/AttributeError for objects holding locks, generators or local functions): such a failure escapes the event loop, run() raises the pickling error instead of the task's, and the job and its ancestors are never recorded as failed", m.rel, rj.lineno)

    jr = m.func("Job.reject")
    r3.check("self.result_promise.do_reject(error)" in src(jr), f"{m.rel}:Job.reject", "Job.reject does not reject the job's result promise with the error (ancestors would not fail)", m.rel, jr.lineno)
    run_ = m.func("Scheduler.run")
    ok = any(isinstance(n, ast.Raise) and src(n.exc) == "result.error" for n in ast.walk(run_))
    r3.check(ok, f"{m.rel}:Scheduler.run:raise", "run() does not re-raise the rejection error of the workflow promise", m.rel, run_.lineno)

    r4 = ctx.rule("C12.4", "ErrorValue type name agrees with the status constants", floor=1)
    ev = m.cls("ErrorValue")
    tn = const_str(repo.class_attr(m, ev, "type_name"))
    qc = const_str(repo.mod("redun/backends/db/query.py").module_consts().get("REDUN_ERROR_TYPE_NAME"))
    r4.check(tn is not None and tn == qc, f"{m.rel}:ErrorValue.type_name", f"ErrorValue.type_name {tn!r} != REDUN_ERROR_TYPE_NAME {qc!r}", m.rel, ev.lineno)

    # ---- C12.5 failures never travel as the (cacheable) result of a task -------------------------
    # A failure that is returned as data makes the returning task DONE; if that task is cached in the backend, a later execution replays
    # the failure from the cache instead of re-running the failed work.
    r5 = ctx.rule("C12.5", "no backend-cacheable task returns a failure as data", floor=1)
    # producers: Scheduler methods that return {"error": <...>.error, ...}
    producers = {}
    for q, fn in m.funcs.items():
        if q.startswith("Scheduler.") and q.count(".") == 1:
            for n in ast.walk(fn):
                if isinstance(n, ast.Return) and isinstance(n.value, ast.Dict) and any(const_str(k) == "error" for k in n.value.keys if k is not None):
                    producers[q.split(".")[1]] = n
    if not producers:
        raise AnalysisError("no Scheduler method returning an {'error': ...} result found (anchor vanished)", "Scheduler.extend_run")
    # consumers: task functions (decorated @task) that call a producer on a scheduler object and let the dict reach their return value
    ntask = 0
    for q, fn in m.funcs.items():
        if "." in q or not any(d.split(".")[-1] == "task" for d in decorators(fn)):
            continue
        ntask += 1
        for c in calls_in(fn):
            if isinstance(c.func, ast.Attribute) and c.func.attr in producers:
                st = stmt_of(m, c)
                var = st.targets[0].id if isinstance(st, ast.Assign) and isinstance(st.targets[0], ast.Name) else None
                rets = [src(r.value) for r in ast.walk(fn) if isinstance(r, ast.Return) and r.value is not None]
                flows = set()
                if var:
                    for n in ast.walk(fn):
                        if isinstance(n, ast.Call) and isinstance(n.func, ast.Attribute) and n.func.attr == "update" and n.args and src(n.args[0]) == var:
                            flows.add(src(n.func.value))
                    flows.add(var)
                returned = [r for r in rets if r in flows]
                dc = decorator_call(fn, "task")
                scope = src(kwarg(dc, "cache_scope")) if dc is not None and kwarg(dc, "cache_scope") is not None else "CacheScope.BACKEND (default)"
                # call sites that override the scope: `<task>.options(**D)` where D = {"cache_scope": ..., ...} built from another task's default
                for q2, fn2 in m.funcs.items():
                    for c2 in calls_in(fn2):
                        if isinstance(c2.func, ast.Attribute) and c2.func.attr == "options" and src(c2.func.value) == q:
                            for kw2 in c2.keywords:
                                if kw2.arg == "cache_scope":
                                    scope += f" | {src(kw2.value)} at {q2}"
                                if kw2.arg is None and isinstance(kw2.value, ast.Name):
                                    for n2 in ast.walk(fn2):
                                        if isinstance(n2, (ast.Assign, ast.AnnAssign)) and src(n2.targets[0] if isinstance(n2, ast.Assign) else n2.target) == kw2.value.id and isinstance(n2.value, ast.Dict):
                                            for k2, v2 in zip(n2.value.keys, n2.value.values):
                                                if k2 is not None and const_str(k2) == "cache_scope":
                                                    dflt = None
                                                    for d2 in fn2.decorator_list:
                                                        if isinstance(d2, ast.Call) and kwarg(d2, "cache_scope") is not None:
                                                            dflt = src(kwarg(d2, "cache_scope"))
                                                    scope = f"{dflt or src(v2)} (set by {q2} through .options(**{kw2.value.id}))"
                cache_off = dc is not None and kwarg(dc, "cache") is not None and src(kwarg(dc, "cache")) == "False"
                raises_on_error = any(isinstance(n, ast.Raise) and "error" in src(n) for n in ast.walk(fn))
                if returned:
                    r5.check(
                        cache_off or ("BACKEND" not in scope) or raises_on_error,
                        f"{m.rel}:{q}:error-in-cached-result",
                        f"{q} returns the dict produced by {src(c.func)}(...) -- which carries a failed sub-workflow as {{'error': ...}} -- as its own successful result, and is cached with scope "
                        f"{scope}: the job is recorded DONE, the failure is stored in the backend cache, and the next execution replays it without re-running the failed task "
                        "(direct evaluation re-runs failed tasks)",
                        m.rel,
                        c.lineno,
                    )
    if ntask < 3:
        raise AnalysisError(f"only {ntask} module-level @task functions found in scheduler.py", "scheduler.py")

    # ---- C12.7 a recorded value that cannot be rebuilt is a cache miss, not a scheduler crash ------
    # Every cache lookup (same-execution, single and ultimate reduction, catch's own eval cache) ends in RedunBackendDb._deserialize_value on the
    # scheduler thread.  Unpickling runs arbitrary constructors -- an exception class whose __init__ takes two arguments pickles with
    # args=("a-b",) and raises TypeError when loaded -- so anything it raises must be turned into "not available" there; otherwise a recorded
    # failure makes the *lookup* raise a builtin error instead of the task running again and raising its own.
    r7 = ctx.rule("C12.7", "_deserialize_value maps every deserialisation error to (None, False)", floor=1)
    dbm7 = repo.mod("redun/backends/db/__init__.py")
    dv7 = dbm7.func("RedunBackendDb._deserialize_value")
    dcalls = [c for c in calls_in(dv7) if last_attr(c) == "deserialize"]
    if not dcalls:
        raise AnalysisError("_deserialize_value no longer calls <registry>.deserialize", "RedunBackendDb._deserialize_value")
    for c in dcalls:
        tr = dbm7.parent.get(c)
        while tr is not None and not (isinstance(tr, ast.Try) and any(c is x for b in tr.body for x in ast.walk(b))):
            tr = dbm7.parent.get(tr)
        broad = tr is not None and any(
            (h.type is None or (isinstance(h.type, ast.Name) and h.type.id in ("Exception", "BaseException")))
            and any(isinstance(b, ast.Return) and src(b.value) == "(None, False)" for b in h.body)
            for h in tr.handlers
        )
        r7.check(
            bool(broad),
            f"{dbm7.rel}:RedunBackendDb._deserialize_value:any-error-is-a-miss",
            "only InvalidValueError (a missing module) is mapped to (None, False); any other exception raised while unpickling a recorded value escapes the cache lookup on the scheduler thread: with "
            "check_valid='shallow', a task that raised `class E(Exception): def __init__(self, a, b)` makes the next execution die with TypeError inside check_cache instead of re-running the task, and a second "
            "`catch(boom(), E, recover)` in the same execution crashes the scheduler",
            dbm7.rel,
            c.lineno,
        )

    # ---- C12.8 catch's own cache entry is keyed by everything that decides what it stores ------------
    # A handled catch stores `recover(error)` -- with the caught error inside -- under its own evaluation key.  If the key leaves out the error
    # classes (or loses the task hash), a later catch over the same failing call with a class that does NOT match hits that entry: the failure is
    # replayed from the cache, run() returns normally and nothing is recorded as failed.
    r8 = ctx.rule("C12.8", "catch computes its cache key from all of its arguments, in the (eval_hash, args_hash) order", floor=2)
    from .C15 import eval_key_obligations

    for construct, ok, msg, rel_, line in eval_key_obligations(repo):
        if ":catch:" in construct or construct.endswith(":unpack") and "scheduler.py:catch" in construct:
            r8.check(ok, construct, msg, rel_, line)

    # ---- C12.9 a failing job whose end is recorded has an error call node ------------------------------------
    # The backend derives FAILED from the job's call node holding an ErrorValue (there is no status column): a reject path that records the job's
    # end without having a call hash -- neither reused (`if job.call_hash`) nor freshly recorded -- shows a task that raised as DONE.
    r9 = ctx.rule("C12.9", "every path of the reject finaliser to record_job_end establishes job.call_hash (reused or recorded with the ErrorValue)", floor=1)
    rj9 = m.func("Scheduler._reject_job_main_thread")
    jv9 = rj9.args.args[1].arg
    cfg9 = CFG(rj9)
    estab9 = set()
    for n in cfg9.nodes:
        if n.kind == "test" and isinstance(n.ast, ast.expr) and src(n.ast) == f"{jv9}.call_hash":
            estab9 |= set(cfg9.edge_nodes(n, "T"))
        if n.kind == "stmt" and isinstance(n.ast, ast.Assign) and any(src(t) == f"{jv9}.call_hash" for t in n.ast.targets) and isinstance(n.ast.value, ast.Call) and last_attr(n.ast.value) == "record_call_node":
            estab9.add(n)
    ends9 = [cfg9.node_of(c) for c in calls_in(rj9, shallow=True) if call_name(c) == "self.backend.record_job_end"]
    if not ends9 or not estab9:
        raise AnalysisError("reject finaliser: record_job_end / call-hash establishing statements not found", "Scheduler._reject_job_main_thread")
    r9.check(
        cfg9.must_pass(cfg9.entry, estab9, targets=ends9),
        f"{m.rel}:Scheduler._reject_job_main_thread:error-node-before-job-end",
        "a rejected job can have its end recorded without a call node (no `if job.call_hash` reuse and no record_call_node on the path): the backend reports a job as FAILED only through "
        "its call node's ErrorValue, so a task that raised is recorded as DONE and its ancestors' records no longer show where the failure came from",
        m.rel,
        rj9.lineno,
    )

    # ---- C12.10 a remembered failure is not replayed once the failing code has changed ----------------------------
    # catch() persists `recover(error)` through scheduler.set_cache under the eval hash of its own arguments.  Expression arguments hash by task
    # *name* and argument values, so the key is the same after the failing task has been edited: a later execution replays the remembered
    # failure and the repaired task never runs.  Either the recover arm is not persisted, or its key / validity covers the code that failed
    # (a task hash, the failed call's call hash or subtree task set).
    r10 = ctx.rule("C12.10", "catch does not persist the recover arm under a key that ignores the code of the failed call", floor=1)
    cfn = m.funcs.get("catch")
    orc = m.funcs.get("catch.on_recover")
    if cfn is None:
        raise AnalysisError("catch not found", "catch")
    persists = orc is not None and any(last_attr(c) == "set_cache" for c in calls_in(orc))
    code_aware = False
    if persists:
        keyvars = set()
        for c in calls_in(orc):
            if last_attr(c) == "set_cache" and c.args and isinstance(c.args[0], ast.Name):
                keyvars.add(c.args[0].id)
        work = set(keyvars)
        seen10 = set()
        while work:
            v = work.pop()
            if v in seen10:
                continue
            seen10.add(v)
            for a in ast.walk(cfn):
                if isinstance(a, ast.Assign) and any(v in {n.id for n in ast.walk(t) if isinstance(n, ast.Name)} for t in a.targets):
                    t10 = src(a.value)
                    if any(tok in t10 for tok in ("task_hash", ".task.hash", "call_hash", "subtree", "task_hashes")):
                        code_aware = True
                    work |= {n.id for n in ast.walk(a.value) if isinstance(n, ast.Name)} - seen10
    r10.check(
        (not persists) or code_aware,
        f"{m.rel}:catch.on_recover:persists-recovery-by-expression-hash",
        "catch.on_recover stores recover(error) in the backend cache under hash_args_eval(catch, (expr, ...)): the expression hash names tasks but not their code, so after the failing "
        "task is fixed a later execution replays the remembered failure (main(x) = catch(flaky(x), ValueError, recover): run, fix flaky, run again -> still the recovery, flaky never runs)",
        m.rel,
        (orc or cfn).lineno,
    )

    # ---- C12.11 (the obligations of C09.6: what an execution leaves in the scheduler's work containers -- among them the promises of forked
    # threads, which may be rejected -- is dropped before the next execution starts) ----
    from ..report import BorrowCtx as _BorrowCtx11
    from . import C09 as _borrowed_C09

    _borrowed_C09.run(_BorrowCtx11(ctx, {"C09.6": "C12.11"}))
