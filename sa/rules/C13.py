"""C13 -- promises settle once and notify every callback exactly once (structural clauses).

The guards that make single settlement and single notification hold on every
path of promise.py, and that no other module bypasses them.
"""

from __future__ import annotations

import ast

from ..cfg import CFG, facts_at
from ..core import AnalysisError, FuncNode, assigned_targets, call_name, calls_in, last_attr, src

EXPLANATION = (
    "C13.1 do_resolve/do_reject: every write of _value/_error/is_pending/is_fulfilled/is_rejected is dominated by the false outcome of "
    "`not self.is_pending` (the early-return guard) and precedes the single _notify() call; C13.2 the state fields and the callback lists are "
    "written only inside class Promise (repo-wide, by attribute name and receiver); C13.3 _notify iterates a local alias of the old list after "
    "rebinding the attribute to a fresh list (re-entrant then() during notification is neither lost nor notified twice) and clears the other "
    "list; C13.4 then() appends exactly one resolver and one rejector on every path, calls _notify() after the appends, adopts promises "
    "returned by callbacks and turns exceptions into rejections; C13.5 Promise.all stores results by input index, counts each callback once, "
    "completes at the input length, rejects through do_reject (first wins by C13.1), and has the empty-input case; wait_promises likewise."
)

PM = "redun/promise.py"
STATE = {"_value", "_error", "is_pending", "is_fulfilled", "is_rejected"}
LISTS = {"_resolvers", "_rejectors"}


def run(ctx):
    repo = ctx.repo
    m = repo.mod(PM)

    r1 = ctx.rule("C13.1", "settlement writes are behind the is_pending guard and precede notification", floor=10)
    for q, val, flag_true in (("Promise.do_resolve", "_value", "is_fulfilled"), ("Promise.do_reject", "_error", "is_rejected")):
        fn = m.func(q)
        cfg = CFG(fn)
        writes = [n for n in cfg.nodes if n.kind == "stmt" and isinstance(n.ast, ast.Assign) and any(isinstance(t, ast.Attribute) and t.attr in STATE for t in n.ast.targets)]
        notify = [cfg.node_of(c) for c in calls_in(fn, shallow=True) if call_name(c) == "self._notify"]
        if len(notify) != 1:
            r1.violation(f"{m.rel}:{q}:notify-count", f"{q} calls _notify() {len(notify)} times (expected exactly once)", m.rel, fn.lineno)
            continue
        fields = set()
        for w in writes:
            fld = [t.attr for t in w.ast.targets if isinstance(t, ast.Attribute)][0]
            fields.add(fld)
            guarded = ("self.is_pending", True) in facts_at(cfg, w)
            before = cfg.dominates(w, notify[0])
            r1.check(guarded and before, f"{m.rel}:{q}:write {fld}", f"`{src(w.ast)}` is not behind the `if not self.is_pending: return` guard or does not precede _notify(): a second settlement could overwrite the first / callbacks could observe an unsettled promise", m.rel, w.lineno)
        r1.check(fields == {val, "is_pending", "is_fulfilled", "is_rejected"}, f"{m.rel}:{q}:fields", f"{q} writes {sorted(fields)}", m.rel, fn.lineno)
        vals = {t.attr: src(w.ast.value) for w in writes for t in w.ast.targets if isinstance(t, ast.Attribute)}
        other = "is_rejected" if flag_true == "is_fulfilled" else "is_fulfilled"
        r1.check(vals.get("is_pending") == "False" and vals.get(flag_true) == "True" and vals.get(other) == "False", f"{m.rel}:{q}:flags", f"flags set to {vals}", m.rel, fn.lineno)
        guard_ret = [n for n in cfg.nodes if n.kind == "stmt" and isinstance(n.ast, ast.Return) and ("self.is_pending", False) in facts_at(cfg, n)]
        r1.check(bool(guard_ret), f"{m.rel}:{q}:early-return", "no early return for an already settled promise", m.rel, fn.lineno)

    # no other method settles: outside do_resolve/do_reject the state fields are written only as initial values, i.e. in __init__ before the executor runs
    pcls = m.cls("Promise")
    ninit = 0
    for st in pcls.body:
        if not isinstance(st, (ast.FunctionDef, ast.AsyncFunctionDef)) or st.name in ("do_resolve", "do_reject"):
            continue
        cfgm = CFG(st)
        user_calls = [cfgm.node_of(c) for c in calls_in(st, shallow=True) if isinstance(c.func, ast.Name) and c.func.id in {a.arg for a in st.args.args}]
        for n in cfgm.nodes:
            if n.kind == "stmt" and isinstance(n.ast, (ast.Assign, ast.AnnAssign)) and any(isinstance(t, ast.Attribute) and t.attr in STATE and src(t.value) == "self" for t in assigned_targets(n.ast)):
                ninit += 1
                fld = [t.attr for t in assigned_targets(n.ast) if isinstance(t, ast.Attribute)][0]
                after_user = any(cfgm.can_reach(u, n) for u in user_calls)
                r1.check(
                    st.name == "__init__" and not after_user,
                    f"{m.rel}:Promise.{st.name}:write {fld}",
                    f"`{src(n.ast)}` in Promise.{st.name} (line {n.lineno}) writes the settlement state outside do_resolve/do_reject"
                    + (" after the executor callable has run" if after_user else "")
                    + ": it bypasses the `if not self.is_pending: return` guard, so an executor that settles the promise and then raises gets its first settlement overwritten (and listeners are not notified)",
                    m.rel,
                    n.lineno,
                )
    if ninit < 3:
        raise AnalysisError(f"only {ninit} initial state writes found in Promise.__init__", "Promise.__init__")

    r2 = ctx.rule("C13.2", "promise state and callback lists are written only inside class Promise", floor=9)
    nw = 0
    for mod in repo.modules.values():
        for n in ast.walk(mod.tree):
            tgts = []
            if isinstance(n, (ast.Assign, ast.AugAssign, ast.AnnAssign)):
                tgts = [t for t in assigned_targets(n) if isinstance(t, ast.Attribute) and t.attr in (STATE | LISTS) - {"_value", "_error"} | ({"_value", "_error"} if mod.rel == PM else set())]
            elif isinstance(n, ast.Call) and isinstance(n.func, ast.Attribute) and isinstance(n.func.value, ast.Attribute) and n.func.value.attr in LISTS and n.func.attr in ("append", "clear", "extend", "pop", "remove", "insert"):
                tgts = [n.func.value]
            for t in tgts:
                owner = mod.enclosing_class(n)
                # other classes may have their own `is_pending`-like attributes only if the receiver is `self` of a non-Promise class
                if mod.rel != PM and src(t.value) == "self" and owner is not None:
                    continue
                nw += 1
                inside = mod.rel == PM and owner is not None and owner.name == "Promise" and src(t.value) == "self"
                r2.check(inside, f"{mod.rel}:{mod.enclosing_qual(n)}:{src(t)}", f"promise state written outside class Promise: `{src(n)[:70]}`", mod.rel, n.lineno)
    if nw < 9:
        raise AnalysisError(f"only {nw} promise state writes recognised", "Promise")

    r3 = ctx.rule("C13.3", "_notify swaps the callback list before iterating it", floor=2)
    nf = m.func("Promise._notify")
    ncfg = CFG(nf)
    loops = [n for n in ncfg.nodes if n.kind == "test" and isinstance(n.ast, ast.For) and any(isinstance(c, ast.Call) and src(c.func) == src(n.ast.target) for b in n.ast.body for c in ast.walk(b))]
    if not loops:
        raise AnalysisError("_notify: no loop invoking callbacks found", "Promise._notify")
    for lp in loops:
        it = lp.ast.iter
        its = src(it)
        if its in ("self._resolvers", "self._rejectors") or (isinstance(it, ast.Call) and any(a in its for a in ("self._resolvers", "self._rejectors"))):
            r3.violation(f"{m.rel}:Promise._notify:iterates {its}", f"_notify iterates `{its}` (the live attribute, or a copy of it that is not detached first): a then() issued from inside a callback re-enters _notify and callbacks run twice or are lost", m.rel, lp.lineno)
            continue
        if not isinstance(it, ast.Name):
            raise AnalysisError(f"_notify: loop iterable `{its}` not understood", "Promise._notify")
        adefs = []
        for n in ncfg.nodes:
            if n.kind != "stmt" or not isinstance(n.ast, (ast.Assign, ast.AnnAssign)) or n.ast.value is None:
                continue
            tg = n.ast.targets[0] if isinstance(n.ast, ast.Assign) else n.ast.target
            pairs = [(tg, n.ast.value)]
            if isinstance(tg, ast.Tuple) and isinstance(n.ast.value, ast.Tuple) and len(tg.elts) == len(n.ast.value.elts):
                pairs = list(zip(tg.elts, n.ast.value.elts))  # `callbacks, outcome = self._resolvers, self._value`
            for t_, v_ in pairs:
                if src(t_) == its and src(v_) in ("self._resolvers", "self._rejectors"):
                    adefs.append((n, src(v_)))
        if not adefs:
            raise AnalysisError(f"_notify: definition of `{its}` from a callback list not found", "Promise._notify")
        for d, attr in adefs:
            rebinds = [n for n in ncfg.nodes if n.kind == "stmt" and isinstance(n.ast, ast.Assign) and src(n.ast.targets[0]) == attr and src(n.ast.value) in ("[]", "list()")]
            ok = bool(rebinds) and ncfg.must_pass(d, rebinds, targets=[lp])
            r3.check(ok, f"{m.rel}:Promise._notify:{attr}", f"`{its} = {attr}` is iterated while `{attr}` still refers to the same list (it is not rebound to a fresh list between the alias and the loop on every path): a then() issued from inside a callback re-enters _notify, so callbacks run twice or are lost", m.rel, lp.lineno)
        # the other list is discarded, not kept for a later (impossible) outcome
    t_nf = src(nf)
    r3.check(("self._rejectors.clear()" in t_nf or "self._rejectors = []" in t_nf) and ("self._resolvers.clear()" in t_nf or "self._resolvers = []" in t_nf), f"{m.rel}:Promise._notify:discard-other", "the callbacks of the outcome that did not happen are not discarded", m.rel, nf.lineno)
    g = [n for n in nf.body if isinstance(n, ast.If)]
    r3.check(bool(g) and src(g[0].test) == "self.is_pending" and any(isinstance(b, ast.Return) for b in g[0].body), f"{m.rel}:Promise._notify:pending-guard", "_notify does not return immediately for a pending promise", m.rel, nf.lineno)

    r4 = ctx.rule("C13.4", "then(): one resolver + one rejector on every path, late registration notified, adoption and exception capture", floor=5)
    th = m.func("Promise.then")
    cfg = CFG(th)
    for lst in ("_resolvers", "_rejectors"):
        apps = [cfg.node_of(c) for c in calls_in(th, shallow=True) if call_name(c) == f"self.{lst}.append"]
        # exactly one append on every path: every path from entry passes one, and no append reaches another append
        ok = bool(apps) and cfg.must_pass(cfg.entry, apps) and not any(cfg.can_reach(a, b) for a in apps for b in apps if a is not b)
        r4.check(ok, f"{m.rel}:Promise.then:{lst}", f"then() does not append exactly one callback to {lst} on every path", m.rel, th.lineno)
    nt = [cfg.node_of(c) for c in calls_in(th, shallow=True) if call_name(c) == "self._notify"]
    apps_all = [cfg.node_of(c) for c in calls_in(th, shallow=True) if last_attr(c) == "append"]
    ok = len(nt) == 1 and all(cfg.can_reach(a, nt[0]) and not cfg.can_reach(nt[0], a) for a in apps_all) and cfg.must_pass(cfg.entry, nt)
    r4.check(ok, f"{m.rel}:Promise.then:notify-after-append", "then() does not call _notify() after registering (a callback added after settlement would never run)", m.rel, th.lineno)
    rets = [r for r in ast.walk(th) if isinstance(r, ast.Return) and m.enclosing_func(r) is th]
    r4.check(len(rets) == 1 and src(rets[0].value) == "promise", f"{m.rel}:Promise.then:return", "then() does not return the chained promise", m.rel, th.lineno)
    wr = m.funcs.get("Promise.then.wrap_callback.wrapper")
    if wr is None:
        raise AnalysisError("Promise.then.wrap_callback.wrapper not found", "Promise.then")
    t = src(wr)
    ok = "result2.then(promise.do_resolve, promise.do_reject)" in t and "promise.do_resolve(result2)" in t and "isinstance(result2, Promise)" in t
    r4.check(ok, f"{m.rel}:Promise.then:adoption", "a promise returned from a callback is not adopted by the chained promise", m.rel, wr.lineno)
    tr = [n for n in ast.walk(wr) if isinstance(n, ast.Try)]
    ok = len(tr) == 1 and any(src(h.type) == "Exception" and "promise.do_reject(error)" in " ".join(src(b) for b in h.body) for h in tr[0].handlers) and any("func(result_or_error)" in src(b) for b in tr[0].body)
    r4.check(ok, f"{m.rel}:Promise.then:exception-capture", "an exception raised by a callback does not reject the chained promise", m.rel, wr.lineno)
    # the user's callback is invoked on every path through the wrapper: "exactly once" per settlement is the caller's side (C13.3), "at all" is here
    wcfg = CFG(wr)
    fparam = m.funcs["Promise.then.wrap_callback"].args.args[0].arg
    invokes = [wcfg.node_of(c) for c in calls_in(wr, shallow=True) if isinstance(c.func, ast.Name) and c.func.id == fparam]
    ok = bool(invokes) and wcfg.must_pass(wcfg.entry, invokes)
    r4.check(
        ok,
        f"{m.rel}:Promise.then:wrapper-always-invokes",
        f"the wrapper built by then() can return without calling `{fparam}(...)`: a callback registered with then()/catch() is then skipped for some settlements (e.g. when the chained promise was settled "
        "directly first), although every registered callback must run exactly once",
        m.rel,
        wr.lineno,
    )
    ct = m.func("Promise.catch")
    r4.check(any(isinstance(r, ast.Return) and src(r.value) == "self.then(None, rejector)" for r in ast.walk(ct)), f"{m.rel}:Promise.catch", "catch(h) is not then(None, h)", m.rel, ct.lineno)

    r5 = ctx.rule("C13.5", "Promise.all / wait_promises: index-ordered results, one count per callback, completion at input length, empty case", floor=6)
    al = m.func("Promise.all")
    t = src(al)
    thn = m.funcs.get("Promise.all.then")
    ok = thn is not None and "results[i] = result" in src(thn) and src(thn).count("num_done += 1") == 1 and "num_done == len(results)" in src(thn) and "promise.do_resolve(" in src(thn)
    r5.check(ok, f"{m.rel}:Promise.all.then", "results are not stored at the input index / counted once / completed at the input length", m.rel, al.lineno)
    fl = m.funcs.get("Promise.all.fail")
    r5.check(fl is not None and "promise.do_reject(error)" in src(fl), f"{m.rel}:Promise.all.fail", "a rejected input does not reject the combined promise", m.rel, al.lineno)
    ok = "results = [None] * len(subpromises)" in t and any(isinstance(n, ast.For) and src(n.iter) == "enumerate(subpromises)" and "subpromise.then(make_then(i), fail)" in src(n) for n in ast.walk(al))
    r5.check(ok, f"{m.rel}:Promise.all:registration", "not every input promise is registered with (then(i), fail)", m.rel, al.lineno)
    ok = any(isinstance(n, ast.If) and src(n.test) == "len(results) == 0" and "promise.do_resolve(" in src(n) for n in ast.walk(al))
    r5.check(ok, f"{m.rel}:Promise.all:empty", "the empty-input case is not resolved immediately", m.rel, al.lineno)
    wp = m.func("wait_promises")
    dn = m.funcs.get("wait_promises.done")
    ok = dn is not None and src(dn).count("num_done += 1") == 1 and "num_done == len(subpromises)" in src(dn) and "promise.do_resolve(subpromises)" in src(dn)
    r5.check(ok, f"{m.rel}:wait_promises.done", "settled inputs are not counted once each up to the input length", m.rel, wp.lineno)
    ok = "subpromise.then(done, done)" in src(wp) and any(isinstance(n, ast.If) and src(n.test) == "len(subpromises) == 0" for n in ast.walk(wp))
    r5.check(ok, f"{m.rel}:wait_promises:registration", "inputs are not registered for both outcomes or the empty case is missing", m.rel, wp.lineno)

    # ---- C13.6 registration order under re-entrant registration -----------------------------
    # then() on an already settled promise calls _notify() at once.  If that happens from inside a callback that the outer _notify() is running,
    # the new callback is delivered by the nested call -- before the callbacks that were registered earlier and are still waiting in the outer
    # loop.  Order is kept only if the nested call defers to the running one (a re-entrancy flag tested on entry) or the loop drains the live
    # list in FIFO order itself.
    r6 = ctx.rule("C13.6", "callbacks registered during notification are delivered after the ones registered before them", floor=1)
    flags = set()
    for n in ast.walk(nf):
        if isinstance(n, ast.Assign) and isinstance(n.targets[0], ast.Attribute) and src(n.targets[0].value) == "self" and src(n.value) == "True":
            flags.add(n.targets[0].attr)
    guarded = any(isinstance(n, ast.If) and any(f"self.{f}" in src(n.test) for f in flags) and any(isinstance(b, ast.Return) for b in n.body) for n in nf.body)
    drains = any(isinstance(n, ast.While) and ("_resolvers" in src(n) or "_rejectors" in src(n)) for n in ast.walk(nf))
    nested_notify = any(call_name(c) == "self._notify" for c in calls_in(th, shallow=True))
    r6.check(
        (guarded and bool(flags)) or drains or not nested_notify,
        f"{m.rel}:Promise._notify:reentrant-order",
        "then() notifies immediately on a settled promise and _notify has no re-entrancy guard: p.then(a); p.then(b); p.do_resolve(1) with `a` calling p.then(c) runs a, c, b -- "
        "c overtakes b although b was registered first",
        m.rel,
        nf.lineno,
    )

    # ---- C13.7 whether a callback was given is an identity test -------------------------------------------------
    # `if resolver:` asks for the callable's truth value: a callable object with __bool__/__len__ that is falsy (an empty callable container, a
    # Mock configured falsy) is treated as "no callback given" and silently replaced by the pass-through -- a registered callback that never runs.
    r7 = ctx.rule("C13.7", "then() decides `callback given?` with `is (not) None`, not with the callable's truth value", floor=2)
    th = m.func("Promise.then")
    params7 = [a.arg for a in th.args.args[1:]]
    n7 = 0
    for t in ast.walk(th):
        if isinstance(t, (ast.If, ast.IfExp)):
            names = {n.id for n in ast.walk(t.test) if isinstance(n, ast.Name)} & set(params7)
            if not names:
                continue
            n7 += 1
            ident = isinstance(t.test, ast.Compare) and len(t.test.ops) == 1 and isinstance(t.test.ops[0], (ast.Is, ast.IsNot)) and isinstance(t.test.comparators[0], ast.Constant) and t.test.comparators[0].value is None
            r7.check(
                ident,
                f"{m.rel}:Promise.then:callback-given:{sorted(names)[0]}",
                f"`{src(t.test)}` tests the truth value of the callback: a callable whose bool() is False is not registered (the pass-through is registered instead) and never runs",
                m.rel,
                t.lineno,
            )
    if n7 < 2:
        raise AnalysisError(f"Promise.then: only {n7} callback-given tests found", "Promise.then")
