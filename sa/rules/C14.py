"""C14 -- the canonical structure encoding behind every hash is injective (premises of a prefix-code argument).

Argument (sa/rules/C14.md): every encoding starts with a tag byte from pairwise-distinct classes {i}, {l}, {d}, digits;
integer bodies are str(int) terminated by 'e' (alphabet -0-9 cannot contain 'e'); buffers are <decimal length>:<payload>
with the length computed on the final bytes; containers are tag + self-delimiting items + 'e' (no item starts with 'e');
mapping items are emitted in sorted key order.  A self-delimiting prefix code over distinct tags is injective by
structural induction.  The checker discharges the premises on the source.
"""

from __future__ import annotations

import ast

from ..core import AnalysisError, FuncNode, call_name, calls_in, const_str, last_attr, src
from ..tables import if_chain

EXPLANATION = (
    "C14.1 tag constants are pairwise distinct single bytes, none a digit; _TYPES_STR is exactly the ten digit bytes; C14.2 every encoder writes "
    "its tag first and (containers, ints) _TYPE_END last; _encode_int writes str(integer); _encode_buffer converts str to bytes before computing "
    "the length and writes length, separator, payload in this order; C14.3 the dispatch tests int-and-not-bool, (str, bytes), Mapping, concrete (list, tuple) "
    "in this order and raises TypeError otherwise; C14.4 mappings are emitted as sorted(mapping.items()) with keys through _encode_buffer; "
    "C14.5 the decoder table keys equal the encoder tags plus digits plus END, each decoder asserts its tag, and hash_struct feeds its argument "
    "to bencode unchanged."
)

BC = "redun/bcoding.py"


def _writes(fn) -> list[str]:
    """Arguments of f.write(...) calls and nested encoder calls, in source order (top-level statements and loop bodies)."""
    out = []
    for n in ast.walk(fn):
        if isinstance(n, ast.Call) and (call_name(n) == "f.write" or (call_name(n) or "").startswith("_encode_") or call_name(n) == "bencode"):
            out.append((n.lineno, n.col_offset, src(n)))
    return [t for _, _, t in sorted(out)]


def run(ctx):
    repo = ctx.repo
    m = repo.mod(BC)
    consts = m.module_consts()

    r1 = ctx.rule("C14.1", "tag bytes are distinct, single, non-digit; string tags are the ten digits", floor=6)
    tags = {}
    for name in ("_TYPE_INT", "_TYPE_LIST", "_TYPE_DICT", "_TYPE_END", "_TYPE_SEP"):
        v = consts.get(name)
        ok = isinstance(v, ast.Constant) and isinstance(v.value, bytes) and len(v.value) == 1 and not v.value.isdigit()
        r1.check(ok, f"{m.rel}:{name}", f"{name} is not a single non-digit byte: {src(v)}", m.rel, 0)
        if ok:
            tags[name] = v.value
    r1.check(len(set(tags.values())) == len(tags) == 5, f"{m.rel}:tags-distinct", f"tag bytes are not pairwise distinct: {tags}", m.rel, 0)
    ts = consts.get("_TYPES_STR")
    ok = isinstance(ts, ast.ListComp) and src(ts.generators[0].iter) == "digits" and src(ts.elt) == f"{src(ts.generators[0].target)}.encode()" and m.imports.get("digits") == "string.digits"
    r1.check(ok, f"{m.rel}:_TYPES_STR", "_TYPES_STR is not [d.encode() for d in string.digits]", m.rel, 0)
    # the integer body alphabet cannot contain the END byte, and '-' is not a tag
    r1.check(tags.get("_TYPE_END", b"e") not in b"-0123456789" and b"-" not in tags.values(), f"{m.rel}:int-alphabet", "END byte or '-' collides with the integer alphabet / a tag", m.rel, 0)

    r2 = ctx.rule("C14.2", "encoders: tag first, END last, length after conversion", floor=4)
    ei = _writes(m.func("_encode_int"))
    r2.check(ei == ["f.write(_TYPE_INT)", "f.write(str(integer).encode())", "f.write(_TYPE_END)"] or (len(ei) == 3 and ei[0] == "f.write(_TYPE_INT)" and ei[2] == "f.write(_TYPE_END)" and "str(" in ei[1]), f"{m.rel}:_encode_int", f"_encode_int writes {ei}", m.rel, 0)
    eb = m.func("_encode_buffer")
    p = eb.args.args[0].arg
    wb = _writes(eb)
    conv = [n for n in ast.walk(eb) if isinstance(n, ast.Assign) and src(n.targets[0]) == p and src(n.value) == f"{p}.encode()"]
    lenw = [n for n in ast.walk(eb) if isinstance(n, ast.Call) and call_name(n) == "f.write" and f"len({p})" in src(n)]
    ok = len(wb) == 3 and f"len({p})" in wb[0] and wb[1] == "f.write(_TYPE_SEP)" and wb[2] == f"f.write({p})" and conv and lenw and conv[0].lineno < lenw[0].lineno
    r2.check(bool(ok), f"{m.rel}:_encode_buffer", f"_encode_buffer does not write <len of final bytes> <sep> <payload> (writes {wb}, conversion before length: {bool(conv and lenw and conv[0].lineno < lenw[0].lineno)})", m.rel, eb.lineno)
    isstr = [n for n in ast.walk(eb) if isinstance(n, ast.If) and src(n.test) == f"isinstance({p}, str)"]
    r2.check(bool(isstr), f"{m.rel}:_encode_buffer:str-only-conversion", "only str is converted; anything that is not bytes-like fails in len()/write()", m.rel, eb.lineno)
    el = _writes(m.func("_encode_iterable"))
    r2.check(len(el) == 3 and el[0] == "f.write(_TYPE_LIST)" and el[1].startswith("bencode(") and el[2] == "f.write(_TYPE_END)", f"{m.rel}:_encode_iterable", f"_encode_iterable writes {el}", m.rel, 0)
    lp = [n for n in ast.walk(m.func("_encode_iterable")) if isinstance(n, ast.For)]
    r2.check(len(lp) == 1 and src(lp[0].iter) == m.func("_encode_iterable").args.args[0].arg and [src(b) for b in lp[0].body] == [f"bencode({src(lp[0].target)}, f)"], f"{m.rel}:_encode_iterable:every-item", "not every item is encoded in iteration order", m.rel, 0)

    r3 = ctx.rule("C14.3", "dispatch order and rejection of non-encodable values", floor=5)
    bf = m.func("_bencode_to_file")
    dp = bf.args.args[0].arg
    arms = if_chain(bf)
    tests = [src(t) if t is not None else None for t, _ in arms]
    want = [f"isinstance({dp}, int) and (not isinstance({dp}, bool))", f"isinstance({dp}, (str, bytes))", f"isinstance({dp}, Mapping)", "<sequence>", None]
    norm = [t.replace("not isinstance", "(not isinstance").replace("bool)", "bool))") if t and "(not" not in t and "not isinstance" in t else t for t in tests]
    # the sequence arm: only concrete ordered sequence types.  An abstract test (Iterable, Sequence, Collection) also admits sets, generators,
    # bytearrays, ranges and dict views, which would be encoded like the list of their items (for a set: in an order that varies between processes)
    seq_ok = False
    if len(arms) >= 4 and arms[3][0] is not None:
        t3 = arms[3][0]
        if isinstance(t3, ast.Call) and call_name(t3) == "isinstance" and len(t3.args) == 2 and src(t3.args[0]) == dp:
            tys = [src(e) for e in t3.args[1].elts] if isinstance(t3.args[1], ast.Tuple) else [src(t3.args[1])]
            seq_ok = bool(tys) and set(tys) <= {"list", "tuple"}
            r3.check(
                seq_ok,
                f"{m.rel}:_bencode_to_file:sequence-arm",
                f"the list arm accepts `{src(t3.args[1])}`: values that are not lists/tuples (sets, generators, bytearray, range, dict views) are encoded like the list of their items instead of being "
                "rejected, so bencode(bytearray(b'ab')) == bencode([97, 98]) and a set is encoded in iteration order",
                m.rel,
                t3.lineno,
            )
        norm[3] = "<sequence>"
    r3.check(norm == want, f"{m.rel}:_bencode_to_file:order", f"dispatch tests are {tests}, expected int-and-not-bool, (str, bytes), Mapping, (list, tuple), else", m.rel, bf.lineno)
    callees = [[call_name(c) for b in body for c in calls_in(b)] for _, body in arms]
    exp = ["_encode_int", "_encode_buffer", "_encode_mapping", "_encode_iterable"]
    for i, e in enumerate(exp):
        r3.check(i < len(callees) and callees[i][:1] == [e], f"{m.rel}:_bencode_to_file:arm{i}", f"arm {i} calls {callees[i] if i < len(callees) else None}, expected {e}", m.rel, bf.lineno)
    last = arms[-1][1] if arms and arms[-1][0] is None else []
    r3.check(any(isinstance(b, ast.Raise) and "TypeError" in src(b) for b in last), f"{m.rel}:_bencode_to_file:else-raises", "non-encodable values (bool, None, float, ...) are not rejected with TypeError", m.rel, bf.lineno)

    r4 = ctx.rule("C14.4", "mapping items emitted in sorted key order, keys as buffers", floor=2)
    em = m.func("_encode_mapping")
    mp = em.args.args[0].arg
    lp = [n for n in ast.walk(em) if isinstance(n, ast.For)]
    ok = len(lp) == 1 and src(lp[0].iter) == f"sorted({mp}.items())"
    r4.check(ok, f"{m.rel}:_encode_mapping:sorted", "mapping items are not iterated as sorted(mapping.items()): key order would change the encoding", m.rel, em.lineno)
    if lp:
        k, v = [src(e) for e in lp[0].target.elts]
        r4.check([src(b) for b in lp[0].body] == [f"_encode_buffer({k}, f)", f"bencode({v}, f)"], f"{m.rel}:_encode_mapping:items", "items are not encoded as buffer key followed by value", m.rel, em.lineno)
    wm = _writes(em)
    r4.check(wm[:1] == ["f.write(_TYPE_DICT)"] and wm[-1:] == ["f.write(_TYPE_END)"], f"{m.rel}:_encode_mapping:delimiters", f"mapping is not delimited by DICT ... END ({wm})", m.rel, em.lineno)

    r5 = ctx.rule("C14.5", "decoder table agrees with the encoder tags; hashing uses the encoder unchanged", floor=4)
    tb = consts.get("TYPES")
    keys = [src(k) for k in tb.keys] if isinstance(tb, ast.Dict) else []
    vals = {src(k): src(v) for k, v in zip(tb.keys, tb.values)} if isinstance(tb, ast.Dict) else {}
    r5.check(sorted(keys) == ["_TYPE_DICT", "_TYPE_END", "_TYPE_INT", "_TYPE_LIST"] and vals.get("_TYPE_END") == "None", f"{m.rel}:TYPES", f"decoder table keys {keys}", m.rel, 0)
    upd = [n for n in ast.walk(m.tree) if isinstance(n, ast.Call) and call_name(n) == "TYPES.update"]
    ok = len(upd) == 1 and isinstance(upd[0].args[0], ast.DictComp) and src(upd[0].args[0].generators[0].iter) == "_TYPES_STR" and src(upd[0].args[0].value) == "_decode_buffer"
    r5.check(ok, f"{m.rel}:TYPES.update", "digits are not mapped to _decode_buffer", m.rel, 0)
    for dn, tag in (("_decode_int", "_TYPE_INT"), ("_decode_list", "_TYPE_LIST"), ("_decode_dict", "_TYPE_DICT")):
        fn = m.func(dn)
        r5.check(f"assert_btype(f.read(1), {tag})" in src(fn), f"{m.rel}:{dn}:tag", f"{dn} does not consume and check its tag byte", m.rel, fn.lineno)
    hm = repo.mod("redun/hashing.py")
    hs = hm.func("hash_struct")
    ok = any(call_name(c) == "bencode" and len(c.args) == 1 and src(c.args[0]) == hs.args.args[0].arg for c in calls_in(hs)) and hm.imports.get("bencode") == "redun.bcoding.bencode"
    r5.check(ok, f"{hm.rel}:hash_struct", "hash_struct does not hash bencode(struct) of its argument unchanged", hm.rel, hs.lineno)
    db = m.func("_decode_buffer")
    r5.check("int(_readuntil(f, _TYPE_SEP))" in src(db) and "f.read(strlen)" in src(db), f"{m.rel}:_decode_buffer", "buffer decoding does not read <len> up to the separator and then exactly len bytes", m.rel, db.lineno)
