"""C15 -- cache keys separate every distinct call and only those (structural clauses).

Tag distinctness of all hash pre-images (exhaustive), flow of every argument
into the evaluation key unless removed by the declared filter, keyword-order
independence by construction, and kind-aware binding of positional arguments to
parameter names.  Hash inequality itself is not decided.
"""

from __future__ import annotations

import ast
from collections import defaultdict

from ..core import AnalysisError, FuncNode, call_name, calls_in, const_str, dotted, last_attr, names_in, src

EXPLANATION = (
    "C15.1 every hash_struct/hash_tag_bytes site in the repository has a pre-image that starts with a constant tag (string constant or a "
    "class constant resolved for every class inheriting the method); two different owners share a tag only with distinct constant "
    "second-level discriminators or by the frozen same-kind table; variants inside one function differ by length or a constant; "
    "C15.2 in hash_args_eval every positional and keyword argument reaches hash_eval unless keep_arg (config_args membership, JobInfo) "
    "rejects it, and task.hash is the first key component; C15.3 kwargs are hashed as a mapping, positionals as a list; "
    "C15.4 every positional pairing of signature parameters with the argument tuple in hashing code is parameter-kind aware "
    "(stops at *args / keyword-only); C15.5 defaults are merged under explicit kwargs before execution."
)

TASK = "redun/task.py"
HASHING = "redun/hashing.py"
SCHED = "redun/scheduler.py"

# untagged pre-images that are inner digests, never record ids (one line of reason each)
UNTAGGED_OK = {
    ("redun/expression.py", "TaskExpression._calc_hash"): "export_options digest nested inside the tagged TaskExpression pre-image",
    ("redun/expression.py", "SchedulerExpression._calc_hash"): "export_options digest nested inside the tagged SchedulerExpression pre-image",
}
# owners that legitimately produce the same record kind
SAME_KIND = {
    ("File", "s3"): {"S3FileSystem.get_hash", "S3FileSystem.iter_file_hashes"},
}


def _head(a: ast.AST):
    """(list elements of the leading list display) or None."""
    while isinstance(a, ast.BinOp) and isinstance(a.op, ast.Add):
        a = a.left
    if isinstance(a, ast.List) and a.elts:
        return a.elts
    return None


def run(ctx):
    repo = ctx.repo

    # ---- C15.1 tag table -----------------------------------------------------
    r1 = ctx.rule("C15.1", "every hash pre-image starts with a constant tag; tags are not shared between record kinds", floor=30)
    records = []  # (tag, discr, mod.rel, qual, classname, nelts)
    nsites = 0
    for mod, c in repo.all_calls(lambda c: call_name(c) in ("hash_struct", "hash_tag_bytes")):
        if mod.rel == HASHING and mod.enclosing_qual(c) in ("hash_struct", "hash_tag_bytes"):
            continue
        nsites += 1
        q = mod.enclosing_qual(c)
        construct = f"{mod.rel}:{q}:preimage"
        if call_name(c) == "hash_tag_bytes":
            tag = const_str(c.args[0]) if c.args else None
            r1.check(tag is not None, construct, "hash_tag_bytes without a constant tag", mod.rel, c.lineno)
            if tag:
                records.append((tag, None, mod.rel, q, None, 1, c.lineno, ((tag,), True)))
            continue
        elts = _head(c.args[0]) if c.args else None
        if elts is None:
            ok = (mod.rel, q) in UNTAGGED_OK
            r1.check(ok, construct + ":untagged", f"untagged hash pre-image `{src(c.args[0])[:60]}`: its digest can coincide with another record kind's", mod.rel, c.lineno, note=UNTAGGED_OK.get((mod.rel, q), ""))
            continue
        head = elts[0]
        shape = (tuple(const_str(e) for e in elts), isinstance(c.args[0], ast.BinOp))
        discr = const_str(elts[1]) if len(elts) > 1 else None
        n = len(elts) if not isinstance(c.args[0], ast.BinOp) else None
        tag = const_str(head)
        if tag is not None:
            records.append((tag, discr, mod.rel, q, None, n, c.lineno, shape))
            r1.good(construct + f":{tag}")
            continue
        d = dotted(head) or ""
        if d in ("self.type_basename", "self.type_name"):
            cls = mod.enclosing_class(c)
            fn = mod.enclosing_func(c)
            tags = []
            for sm, sc in repo.subclasses(cls):
                res = repo.resolve_method(sm, sc, fn.name)
                if res and res[2] is fn:
                    t = const_str(repo.class_attr(sm, sc, d.split(".")[1]))
                    if t is None:
                        r1.violation(f"{sm.rel}:{sc.name}:{d}", f"class {sc.name} inherits {q} but has no constant {d}", sm.rel, sc.lineno)
                    else:
                        tags.append((t, sc.name))
                        records.append((t, discr, mod.rel, q, sc.name, n, c.lineno, ((t,) + shape[0][1:], shape[1])))
            r1.check(bool(tags), construct, f"class-constant tag {d} could not be resolved", mod.rel, c.lineno, note=",".join(t for t, _ in tags))
            continue
        r1.violation(construct, f"pre-image does not start with a constant tag: `{src(head)}`", mod.rel, c.lineno)
    if nsites < 30:
        raise AnalysisError(f"only {nsites} hash_struct/hash_tag_bytes sites found (expected >= 30)", "hash_struct")
    groups = defaultdict(list)
    for rec in records:
        groups[rec[0]].append(rec)

    def distinguishable(a, b) -> bool:
        sa_, sb_ = a[7], b[7]
        if sa_ is None or sb_ is None:
            return False
        (ca, open_a), (cb, open_b) = sa_, sb_
        for x, y in zip(ca, cb):
            if x is not None and y is not None and x != y:
                return True
        return (not open_a and not open_b) and len(ca) != len(cb)

    for tag, recs in sorted(groups.items()):
        owners = defaultdict(list)
        for rec in recs:
            owners[(rec[2], rec[3])].append(rec)
        for (rel, q), rs in owners.items():
            classes = sorted({r[4] for r in rs if r[4]})
            if len(classes) > 1:
                definers = [cn for cn in classes if _defines(repo, cn, "type_basename") or _defines(repo, cn, "type_name")]
                r1.check(len(definers) <= 1, f"{rel}:{q}:tag {tag}:classes", f"classes {classes} all hash with tag {tag!r} through {q}", rel, rs[0][6])
            # variants inside one function (same class)
            same = [r for r in rs if r[4] == rs[0][4]]
            for i in range(len(same)):
                for j in range(i + 1, len(same)):
                    r1.check(distinguishable(same[i], same[j]), f"{rel}:{q}:variants of {tag}:{i},{j}", f"two pre-images of {q} with tag {tag!r} are not distinguished by length or a constant", rel, same[j][6])
        ol = sorted(owners)
        for i in range(len(ol)):
            for j in range(i + 1, len(ol)):
                a, b = owners[ol[i]], owners[ol[j]]
                same_kind = any({ol[i][1], ol[j][1]} <= names for (t, d), names in SAME_KIND.items() if t == tag)
                if tag == "Value" and {ol[i][1], ol[j][1]} == {"Value.get_hash", "ProxyValue.get_hash"}:
                    same_kind = True  # ProxyValue.get_hash is Value.get_hash's twin for proxied builtins (same record kind)
                ok = same_kind or all(distinguishable(x, y) for x in a for y in b)
                r1.check(ok, f"tag {tag}:{ol[i][1]}<>{ol[j][1]}", f"tag {tag!r} is shared by {ol[i][1]} and {ol[j][1]} without a distinguishing constant", ol[j][0], b[0][6])
    ctx.extra["tag_table"] = {t: sorted({f"{r[3]}" + (f"[{r[4]}]" if r[4] else "") for r in rs}) for t, rs in groups.items()}

    # ---- C15.2 flow completeness ----------------------------------------------
    tm = repo.mod(TASK)
    hm = repo.mod(HASHING)
    r2 = ctx.rule("C15.2", "every argument reaches the key unless keep_arg rejects it; keep_arg tests only config_args and JobInfo; task hash leads", floor=6)
    hae = tm.func("hash_args_eval")
    params = [a.arg for a in hae.args.args]
    if params[:4] != ["type_registry", "task", "args", "kwargs"]:
        raise AnalysisError(f"hash_args_eval signature changed: {params}", "hash_args_eval")
    rets = [n for n in ast.walk(hae) if isinstance(n, ast.Return) and tm.enclosing_func(n) is hae]
    ok = len(rets) == 1 and isinstance(rets[0].value, ast.Call) and call_name(rets[0].value) == "hash_eval" and len(rets[0].value.args) == 4 and src(rets[0].value.args[1]) == "task.hash"
    r2.check(ok, f"{tm.rel}:hash_args_eval:return", "hash_args_eval does not return hash_eval(registry, task.hash, <args>, <kwargs>)", tm.rel, hae.lineno)
    if ok:
        av, kv = rets[0].value.args[2], rets[0].value.args[3]
        # kwargs flow
        kdefs = [n for n in ast.walk(hae) if isinstance(n, ast.Assign) and src(n.targets[0]) == src(kv)]
        kok = False
        for d in kdefs:
            v = d.value
            if isinstance(v, ast.DictComp) and src(v.generators[0].iter) == "kwargs.items()":
                ifs = v.generators[0].ifs
                kn, vn = [e.id for e in v.generators[0].target.elts]
                kok = src(v.key) == kn and src(v.value) == vn and all(isinstance(i, ast.Call) and call_name(i) == "keep_arg" for i in ifs) and len(ifs) <= 1
                # the filter must be asked about the keyword's own name and value: a keyword argument binds to the parameter of that name
                for i in ifs:
                    if isinstance(i, ast.Call) and call_name(i) == "keep_arg":
                        r2.check(
                            len(i.args) == 2 and src(i.args[0]) == kn and src(i.args[1]) == vn,
                            f"{tm.rel}:hash_args_eval:kwargs-filter-name",
                            f"keyword arguments are filtered by `{src(i)}` instead of keep_arg({kn}, {vn}): the config-args test is applied to a different name than the parameter the keyword binds to, "
                            "so a real parameter can drop out of the key (two calls differing only in it share a cache entry) or a declared config arg can enter it",
                            tm.rel,
                            i.lineno,
                        )
        r2.check(kok or src(kv) == "kwargs", f"{tm.rel}:hash_args_eval:kwargs-flow", "keyword arguments do not all reach the key (filtered by something other than keep_arg, or renamed)", tm.rel, hae.lineno)
        # positional flow: every comprehension/extension feeding <args2> ranges over args and filters only through keep_arg / config test
        feeders = []
        for n in ast.walk(hae):
            if isinstance(n, ast.Assign) and src(n.targets[0]) == src(av):
                feeders.append(n.value)
            if isinstance(n, ast.Call) and call_name(n) in (f"{src(av)}.extend", f"{src(av)}.append") and n.args:
                feeders.append(n.args[0])
        pok = bool(feeders)
        for f in feeders:
            if isinstance(f, (ast.ListComp, ast.GeneratorExp)):
                g = f.generators[0]
                if "args" not in names_in(g.iter):
                    pok = False
                for cond in g.ifs:
                    t = src(cond)
                    if not ((isinstance(cond, ast.Call) and call_name(cond) == "keep_arg") or t.endswith("not in config_args") or "keep_" in t):
                        pok = False
            elif src(f) != "args":
                pok = False
        r2.check(pok, f"{tm.rel}:hash_args_eval:args-flow", "positional arguments are filtered by something other than keep_arg/config_args or do not derive from `args`", tm.rel, hae.lineno)
    keep = tm.funcs.get("hash_args_eval.keep_arg")
    kok = False
    if keep is not None:
        kr = [n for n in ast.walk(keep) if isinstance(n, ast.Return)]
        if len(kr) == 1 and isinstance(kr[0].value, ast.BoolOp) and isinstance(kr[0].value.op, ast.And):
            atoms = sorted(src(v) for v in kr[0].value.values)
            pn, vn = [a.arg for a in keep.args.args][:2]
            kok = atoms == sorted([f"{pn} not in config_args", f"not isinstance({vn}, JobInfo)"])
    r2.check(kok, f"{tm.rel}:hash_args_eval.keep_arg", "keep_arg is not `name not in config_args and not isinstance(value, JobInfo)`", tm.rel, hae.lineno)
    cdef = [n for n in ast.walk(hae) if isinstance(n, (ast.Assign, ast.AnnAssign)) and src(n.targets[0] if isinstance(n, ast.Assign) else n.target) == "config_args"]
    r2.check(len(cdef) == 1 and isinstance(cdef[0].value, ast.Call) and call_name(cdef[0].value) == "task.get_task_option" and const_str(cdef[0].value.args[0]) == "config_args", f"{tm.rel}:hash_args_eval:config_args", "config_args is not the task's declared `config_args` option", tm.rel, hae.lineno)
    he = hm.func("hash_eval")
    ok = False
    for n in ast.walk(he):
        if isinstance(n, ast.Return) and isinstance(n.value, ast.Tuple):
            c0 = n.value.elts[0]
            if isinstance(c0, ast.Call) and call_name(c0) == "hash_struct" and src(c0.args[0]) == "['Eval', task_hash, args_hash]":
                defs = [a for a in ast.walk(he) if isinstance(a, ast.Assign) and src(a.targets[0]) == "args_hash"]
                ok = len(defs) == 1 and src(defs[0].value) == "hash_arguments(type_registry, args, kwargs)" and src(n.value.elts[1]) == "args_hash"
    r2.check(ok, f"{hm.rel}:hash_eval", "hash_eval is not hash_struct(['Eval', task_hash, hash_arguments(registry, args, kwargs)])", hm.rel, he.lineno)
    ha = hm.func("hash_arguments")
    t = src(ha)
    ok = "hash_positional_args(type_registry, args)" in t and "hash_kwargs(type_registry, kwargs)" in t
    r2.check(ok, f"{hm.rel}:hash_arguments", "hash_arguments does not hash both args and kwargs", hm.rel, ha.lineno)

    # ---- C15.3 mapping vs list -------------------------------------------------
    r3 = ctx.rule("C15.3", "kwargs hashed as a mapping (sorted by the encoder), positionals as an ordered list", floor=2)
    hk = hm.func("hash_kwargs")
    kr = [n for n in ast.walk(hk) if isinstance(n, ast.Return)]
    ok = len(kr) == 1 and isinstance(kr[0].value, ast.DictComp) and src(kr[0].value.generators[0].iter) == "kwargs.items()" and not kr[0].value.generators[0].ifs and "get_hash" in src(kr[0].value.value)
    r3.check(ok, f"{hm.rel}:hash_kwargs", "hash_kwargs does not return {key: registry.get_hash(value)} for every keyword", hm.rel, hk.lineno)
    hp = hm.func("hash_positional_args")
    pr = [n for n in ast.walk(hp) if isinstance(n, ast.Return)]
    ok = len(pr) == 1 and isinstance(pr[0].value, ast.ListComp) and src(pr[0].value.generators[0].iter) == "args" and not pr[0].value.generators[0].ifs and "get_hash" in src(pr[0].value.elt)
    r3.check(ok, f"{hm.rel}:hash_positional_args", "hash_positional_args does not return [registry.get_hash(arg) for every arg in order]", hm.rel, hp.lineno)

    # ---- C15.4 positional binding is kind-aware ---------------------------------
    r4 = ctx.rule("C15.4", "positional pairing of signature parameters with args stops at *args / keyword-only parameters", floor=2)
    sm = repo.mod(SCHED)
    for mod, q in ((tm, "hash_args_eval"), (sm, "get_arg_defaults")):
        fn = mod.func(q)
        sites = 0
        for n in ast.walk(fn):
            # zip(<params>, args)
            if isinstance(n, ast.Call) and call_name(n) == "zip" and len(n.args) == 2 and "args" in names_in(n.args[1]):
                sites += 1
                p = n.args[0]
                aware = _kind_aware_iterable(fn, p)
                r4.check(aware, f"{mod.rel}:{q}:zip({src(p)}, {src(n.args[1])})", f"`zip({src(p)}, {src(n.args[1])})` pairs positional values with every parameter name in order, including the variadic and keyword-only ones: a variadic value is taken for a keyword-only (e.g. config) parameter", mod.rel, n.lineno)
            # for i, param in enumerate(params): if i < len(args)
            if isinstance(n, (ast.For, ast.comprehension)) and isinstance(n.iter, ast.Call) and call_name(n.iter) == "enumerate" and "parameters" in src(n.iter):
                idx = n.target.elts[0].id if isinstance(n.target, ast.Tuple) else None
                pv = n.target.elts[1].id if isinstance(n.target, ast.Tuple) else None
                body = n.body if isinstance(n, ast.For) else []
                for t in ast.walk(ast.Module(body=body, type_ignores=[])):
                    if isinstance(t, ast.If):
                        conj = t.test.values if isinstance(t.test, ast.BoolOp) and isinstance(t.test.op, ast.And) else [t.test]
                        cmp_ = [a for a in conj if isinstance(a, ast.Compare) and src(a.left) == idx and "len(args)" in src(a)]
                        if cmp_:
                            sites += 1
                            aware = any(f"{pv}.kind" in src(a) for a in conj) or _dominated_by_kind_test(fn, t, pv)
                            r4.check(aware, f"{mod.rel}:{q}:{src(cmp_[0])}", f"parameter index is compared with len(args) (`{src(t.test)}`) without consulting the parameter kind: with *args a keyword-only parameter is taken as given positionally and its default is dropped from the key", mod.rel, t.lineno)
            if isinstance(n, ast.Call) and last_attr(n) in ("bind", "bind_partial"):
                sites += 1
                r4.good(f"{mod.rel}:{q}:sig.bind")
        if sites == 0:
            raise AnalysisError(f"{q}: no positional binding site recognised (unknown idiom)", f"{mod.rel}:{q}")

    # every other count/position comparison between the argument tuple and the parameters must be kind-aware too
    for mod, q in ((tm, "hash_args_eval"), (sm, "get_arg_defaults")):
        fn = mod.func(q)
        for n in ast.walk(fn):
            if isinstance(n, ast.Compare) and "len(args)" in src(n) and ("parameters" in src(n) or "len(kwargs)" in src(n)):
                par = mod.parent.get(n)
                conj = par.values if isinstance(par, ast.BoolOp) and isinstance(par.op, ast.And) else [n]
                aware = any(".kind" in src(a) for a in conj)
                r4.check(aware, f"{mod.rel}:{q}:{src(n)}", f"`{src(n)}` compares the number of given arguments with the number of parameters without consulting parameter kinds: with *args/**kwargs surplus values are counted although the variadic parameter absorbs them", mod.rel, n.lineno)
    gad = sm.func("get_arg_defaults")
    rets = [r for r in ast.walk(gad) if isinstance(r, ast.Return)]
    loops = [n for n in ast.walk(gad) if isinstance(n, ast.For) and "parameters" in src(n.iter)]
    ok = len(rets) == 1 and len(loops) == 1 and isinstance(rets[0].value, ast.Name) and rets[0].lineno > loops[0].end_lineno
    r4.check(ok, f"{sm.rel}:get_arg_defaults:single-exit", "get_arg_defaults can return before every parameter was examined (fast path): the default of an unbound defaulted parameter is then missing from the evaluated arguments, so passing it explicitly changes the key", sm.rel, gad.lineno)

    # ---- C15.5 defaults merged under explicit kwargs -------------------------------
    r5 = ctx.rule("C15.5", "default arguments are merged under explicit keyword arguments before the job is keyed", floor=1)
    ea = sm.func("Scheduler._evaluate_apply")
    ok = False
    for c in calls_in(ea):
        if call_name(c) == "self._exec_job" and len(c.args) == 2 and isinstance(c.args[1], ast.Tuple) and len(c.args[1].elts) == 2:
            d = c.args[1].elts[1]
            if isinstance(d, ast.Dict) and all(k is None for k in d.keys) and len(d.values) == 2:
                first, second = src(d.values[0]), src(d.values[1])
                ok = "default" in first and second == "kwargs"
    r5.check(ok, f"{sm.rel}:Scheduler._evaluate_apply:defaults-merge", "evaluated arguments are not {**default_kwargs, **kwargs} (explicit keywords must win, defaults must be present)", sm.rel, ea.lineno)
    used = any(call_name(c) == "get_arg_defaults" for c in calls_in(ea))
    r5.check(used, f"{sm.rel}:Scheduler._evaluate_apply:get_arg_defaults", "defaults are no longer computed with get_arg_defaults", sm.rel, ea.lineno)
    # defaults are injected as *keyword* arguments, which a positional-only parameter does not accept
    from ..cfg import CFG as _CFG, facts_at as _facts_at

    gcfg = _CFG(gad)
    stores = [n for n in gcfg.nodes if n.kind == "stmt" and isinstance(n.ast, ast.Assign) and isinstance(n.ast.targets[0], ast.Subscript) and ".name" in src(n.ast.targets[0].slice)]
    if not stores:
        raise AnalysisError("get_arg_defaults: `defaults[param.name] = ...` not found", "get_arg_defaults")
    for st_ in stores:
        fs = _facts_at(gcfg, st_)
        excluded = any(("POSITIONAL_ONLY" in f and ".kind" in f and "==" in f and not t) for f, t in fs) or any(("POSITIONAL_ONLY" not in f and ".kind in" in f and t) for f, t in fs)
        r5.check(
            excluded,
            f"{sm.rel}:get_arg_defaults:positional-only",
            f"`{src(st_.ast)}` can run for a positional-only parameter: its default is then passed by keyword and the call fails with "
            "`got some positional-only arguments passed as keyword arguments` (def p(a, b=2, /): p(1) cannot be evaluated)",
            sm.rel,
            st_.lineno,
        )
    # ---- C15.6 a record's hash method never hands out another record's digest --------------------
    # C15.1 looks at the hash_struct call sites; a `_calc_hash` that *returns* some other object's hash on one of its paths has no call site of
    # its own there, yet the value it returns carries the other record kind's tag (PartialTask -> "Task").
    r6 = ctx.rule("C15.6", "every return of a task/expression _calc_hash is a pre-image tagged for its own record kind", floor=8)
    RETURN_EXCEPTIONS = {("redun/task.py", "Task._calc_hash", "self.compat[0]"): "compat=[...] pins the hash to one the user supplies (documented escape hatch)"}
    nret = 0
    for rel in ("redun/task.py", "redun/expression.py"):
        mod = repo.mod(rel)
        for q, fn in mod.funcs.items():
            if q.split(".")[-1] != "_calc_hash" or q.count(".") != 1:
                continue
            cname = q.split(".")[0]
            for r in ast.walk(fn):
                if not (isinstance(r, ast.Return) and mod.enclosing_func(r) is fn and r.value is not None):
                    continue
                nret += 1
                v = r.value
                if (rel, q, src(v)) in RETURN_EXCEPTIONS:
                    r6.good(f"{rel}:{q}:return:{src(v)}", RETURN_EXCEPTIONS[(rel, q, src(v))])
                    continue
                tagged = False
                if isinstance(v, ast.Call) and call_name(v) == "hash_struct" and v.args:
                    elts = _head(v.args[0])
                    tagged = bool(elts) and const_str(elts[0]) is not None
                if isinstance(v, ast.Call) and src(v.func) == "super()._calc_hash":
                    tagged = True
                r6.check(
                    tagged,
                    f"{rel}:{q}:return@{'tagged' if tagged else src(v)[:40]}",
                    f"{q} returns `{src(v)[:60]}` (line {r.lineno}), which is not a pre-image built here with the {cname} tag: on that path a {cname} has exactly the hash of another record "
                    "(e.g. an empty partial hashes as its task), so two values the callee can tell apart share an argument hash and an evaluation key, and a cached result of one kind is replayed for the other",
                    rel,
                    r.lineno,
                )
    if nret < 8:
        raise AnalysisError(f"only {nret} returns found in task/expression _calc_hash methods", "_calc_hash")
    # ---- C15.7 every use of hash_args_eval keeps its two results apart and keys by all of the call's arguments -----
    r7 = ctx.rule("C15.7", "hash_args_eval results are unpacked as (eval_hash, args_hash) and scheduler tasks key their own cache by all of their arguments", floor=3)
    for construct, ok, msg, rel_, line in eval_key_obligations(repo):
        r7.check(ok, construct, msg, rel_, line)


def eval_key_obligations(repo):
    """hash_args_eval returns (eval_hash, args_hash): the evaluation key `Eval(task hash, args hash)` and the bare args hash.  Swapping them at a call
    site keys a cache by a pre-image without the task hash.  A scheduler task that keeps a cache entry of its own (catch) must compute the key from
    *all* its own arguments -- dropping some (e.g. the error classes) lets a call with other arguments hit the entry."""
    out = []
    n = 0
    for mod, c in repo.all_calls(lambda c: call_name(c) == "hash_args_eval"):
        if mod.rel.startswith("redun/tests"):
            continue
        fn = mod.enclosing_func(c)
        q = mod.enclosing_qual(c)
        par = mod.parent.get(c)
        if isinstance(par, ast.Assign) and isinstance(par.targets[0], ast.Tuple) and len(par.targets[0].elts) == 2:
            n += 1
            a, b = (src(e) for e in par.targets[0].elts)
            ok = "eval" in a and "args" in b and "eval" not in b
            out.append((f"{mod.rel}:{q}:hash_args_eval:unpack", ok, f"`{src(par.targets[0])} = hash_args_eval(...)`: the function returns (eval_hash, args_hash); unpacked in the other order the name `{a}` holds the bare "
                        "argument hash, so whatever is cached or looked up under it is keyed without the task hash (a new version of the task still hits the old entry)", mod.rel, par.lineno))
        # scheduler tasks: the argument tuple covers every own parameter after the (scheduler, parent_job, sexpr) triple
        from .. import core as _core

        if fn is not None and any((d.split(".")[-1] == "scheduler_task") for d in _core.decorators(fn)) and len(c.args) >= 3:
            own = [a.arg for a in fn.args.args[3:]] + ([fn.args.vararg.arg] if fn.args.vararg else []) + ([fn.args.kwarg.arg] if fn.args.kwarg else [])
            arg = c.args[2]
            names = {x.id for x in ast.walk(arg) if isinstance(x, ast.Name)}
            # follow one level of local re-binding of those names (catch_args = (expr,) + catch_args)
            grew = True
            while grew:
                grew = False
                for a in ast.walk(fn):
                    if isinstance(a, ast.Assign) and isinstance(a.targets[0], ast.Name) and a.targets[0].id in names and a.lineno < c.lineno:
                        sliced = {id(x.value) for x in ast.walk(a.value) if isinstance(x, ast.Subscript)}  # `p[1::2]` carries only part of p
                        more = {x.id for x in ast.walk(a.value) if isinstance(x, ast.Name) and id(x) not in sliced} - names
                        if more:
                            names |= more
                            grew = True
            missing = [p for p in own if p not in names]
            n += 1
            out.append((f"{mod.rel}:{q}:hash_args_eval:all-arguments", not missing, f"{q} computes its own cache key from `{src(arg)[:60]}`, which does not cover its parameter(s) {missing}: two calls that differ only there "
                        "(e.g. catch(expr, ValueError, recover) and catch(expr, KeyError, recover)) share the entry, so the second replays what the first cached (a handled error's recover expression) instead of evaluating", mod.rel, c.lineno))
    if n < 3:
        raise AnalysisError(f"only {n} hash_args_eval obligations found", "hash_args_eval")
    return out


def _defines(repo, cname: str, attr: str) -> bool:
    for m, c in repo.class_index.get(cname, []):
        for st in c.body:
            if isinstance(st, ast.Assign) and any(isinstance(t, ast.Name) and t.id == attr for t in st.targets):
                return True
    return False


def _kind_aware_iterable(fn, p: ast.AST) -> bool:
    """Is the parameter iterable filtered on parameter kind?"""
    t = src(p)
    if ".kind" in t:
        return True
    if isinstance(p, ast.Name):
        # a local list: every statement growing it must be under a test reading `.kind`, or built by a comprehension filtered on kind
        grows = []
        for n in ast.walk(fn):
            if isinstance(n, ast.Assign) and any(isinstance(x, ast.Name) and x.id == p.id for x in n.targets):
                grows.append(("assign", n))
            if isinstance(n, ast.Call) and call_name(n) in (f"{p.id}.append", f"{p.id}.extend"):
                grows.append(("grow", n))
        if not grows:
            return False
        ok_any = False
        for kind, n in grows:
            if kind == "assign":
                v = n.value
                if isinstance(v, (ast.List,)) and not v.elts:
                    continue
                if ".kind" in src(v):
                    ok_any = True
                    continue
                return False
            # grow: must be nested in an If whose test reads .kind
            if _under_kind_test(fn, n):
                ok_any = True
            else:
                return False
        return ok_any
    return False


def _under_kind_test(fn, node) -> bool:
    for n in ast.walk(fn):
        if isinstance(n, ast.If) and ".kind" in src(n.test):
            for b in n.body:
                if any(x is node for x in ast.walk(b)):
                    return True
    return False


def _dominated_by_kind_test(fn, ifnode, pv) -> bool:
    # `if param.kind ...: continue/break` earlier in the same loop body, or the If nested under a kind test
    for n in ast.walk(fn):
        if isinstance(n, ast.If) and n is not ifnode and f"{pv}.kind" in src(n.test):
            if any(x is ifnode for b in n.body for x in ast.walk(b)):
                return True
            if any(isinstance(b, (ast.Continue, ast.Break)) for b in n.body) and n.lineno < ifnode.lineno:
                return True
    return False
