"""C16 -- value hashes depend only on the value (structural clauses).

Whether hashing of unordered containers is canonicalised structurally, at the top
level and when nested; no process-dependent quantity enters a hash; one pickling
entry point with a constant protocol.
"""

from __future__ import annotations

import ast

from ..core import AnalysisError, FuncNode, call_name, calls_in, const_str, kwarg, last_attr, src

EXPLANATION = (
    "C16.1 every builtin unordered container type (set, frozenset) has a registered ProxyValue subclass whose get_hash serialises "
    "sorted(instance); C16.2 the default container hash (ProxyValue.get_hash) must canonicalise nested unordered containers (recursion "
    "through the registry or a pickler with a set reducer) rather than pickle the container opaquely; C16.3 no hash()/id() value flows "
    "into a get_hash/_calc_hash of the Value hierarchy, raw pickle.dump(s) is reachable only through redun.utils.pickle_dump(s) with the "
    "constant PICKLE_PROTOCOL; C16.4 for every Value class, the resolved get_hash either ignores its pre-serialised `data` argument or falls "
    "back, when it is None, to exactly the expression its resolved serialize() returns, so the shortcut backends use (get_hash(data=serialize())) "
    "cannot change the hash; "
    "C16.5 the sort that canonicalises a set/frozenset uses a key that is total and process-independent (e.g. the elements' registry hashes), not the elements' own `<`."
)

VALUE = "redun/value.py"
UTILS = "redun/utils.py"
UNORDERED = ["set", "frozenset"]


def run(ctx):
    repo = ctx.repo
    vm = repo.mod(VALUE)
    proxy = vm.cls("ProxyValue")

    r1 = ctx.rule("C16.1", "each builtin unordered type has a sorting ProxyValue", floor=2)
    r1b = ctx.rule("C16.5", "the canonical element order of a set is total and process-independent", floor=0)
    proxies = {}
    for m, c in repo.subclasses(proxy, strict=True):
        for st in c.body:
            if isinstance(st, (ast.Assign, ast.AnnAssign)):
                tg = st.targets[0] if isinstance(st, ast.Assign) else st.target
                if isinstance(tg, ast.Name) and tg.id == "type" and st.value is not None:
                    proxies[src(st.value)] = (m, c)
    for t in UNORDERED:
        if t not in proxies:
            r1.violation(
                f"{vm.rel}:ProxyValue:no-proxy-for-{t}",
                f"no ProxyValue subclass is registered for builtin `{t}`: its hash is the pickle of the container in iteration order, which depends on "
                "the interpreter's hash randomisation (PYTHONHASHSEED) and on insertion order",
                vm.rel,
                proxy.lineno,
            )
            continue
        m, c = proxies[t]
        res = repo.resolve_method(m, c, "get_hash")
        ok = False
        if res and res[1] is c:
            fn = res[2]
            for call in calls_in(fn):
                if call_name(call) == "sorted" and call.args and src(call.args[0]) == "self.instance":
                    ok = True
        r1.check(ok, f"{m.rel}:{c.name}.get_hash:sorted", f"the proxy for `{t}` does not serialise sorted(self.instance)", m.rel, c.lineno)
        # the order must come from a total, process-independent key: the elements' own `<` is only a partial order for sets/frozensets
        # (sorted() then returns an order that depends on the iteration order) and is undefined between unrelated types
        if ok:
            sc = next(call for call in calls_in(res[2]) if call_name(call) == "sorted" and call.args and src(call.args[0]) == "self.instance")
            key = kwarg(sc, "key")
            canonical_key = key is not None and any(w in src(key) for w in ("get_hash", "hash_", "pickle_dumps", "repr"))
            r1b.check(
                canonical_key,
                f"{m.rel}:{c.name}.get_hash:sort-key",
                f"`{src(sc)}` orders the elements by their own `<`: for elements that are themselves sets/frozensets this is the subset partial order, so the sorted order -- and the hash -- "
                "depends on the iteration order (PYTHONHASHSEED / insertion order); for elements of unrelated types (e.g. {1, 'a'}) it raises TypeError",
                m.rel,
                sc.lineno,
            )

    r2 = ctx.rule("C16.2", "default container hash canonicalises nested unordered containers", floor=1)
    gh = vm.func("ProxyValue.get_hash")
    t = src(gh)
    canonical = any(
        (call_name(c) or "").split(".")[-1] in ("iter_nested_value", "map_nested_value", "canonical_pickle_dumps", "hash_nested")
        or (last_attr(c) == "get_hash" and "registry" in src(c))
        for c in calls_in(gh)
    )
    opaque = any(call_name(c) == "pickle_dumps" and c.args and src(c.args[0]) == "self.instance" for c in calls_in(gh))
    r2.check(
        canonical or not opaque,
        f"{vm.rel}:ProxyValue.get_hash:opaque-pickle",
        "ProxyValue.get_hash hashes pickle_dumps(self.instance): a set or frozenset nested inside a list/tuple/dict/dataclass is pickled in "
        "iteration order, so the container's hash depends on PYTHONHASHSEED and insertion order",
        vm.rel,
        gh.lineno,
    )

    r3 = ctx.rule("C16.3", "no hash()/id() in value hashes; single pickling entry point with constant protocol", floor=4)
    vbase = vm.cls("Value")
    nm = 0
    for m, c in repo.subclasses(vbase):
        for st in c.body:
            if isinstance(st, FuncNode) and st.name in ("get_hash", "_calc_hash"):
                nm += 1
                bad = [src(x)[:40] for x in calls_in(st) if call_name(x) in ("hash", "id", "object.__hash__") or last_attr(x) == "__hash__"]
                r3.check(not bad, f"{m.rel}:{c.name}.{st.name}:process-dependent", f"process-dependent value enters the hash: {bad}", m.rel, st.lineno)
    if nm < 10:
        raise AnalysisError(f"only {nm} get_hash/_calc_hash methods found in the Value hierarchy", "Value")
    um = repo.mod(UTILS)
    consts = um.module_consts()
    pp = consts.get("PICKLE_PROTOCOL")
    r3.check(isinstance(pp, ast.Constant) and isinstance(pp.value, int), f"{um.rel}:PICKLE_PROTOCOL", "PICKLE_PROTOCOL is not an integer constant", um.rel, 0)
    aliases = {"pickle.dumps", "pickle.dump"}
    for mod in repo.modules.values():
        local = set(aliases)
        for name, origin in mod.imports.items():
            if origin in ("pickle.dumps", "pickle.dump"):
                local.add(name)
        for c in calls_in(mod.tree):
            if call_name(c) in local:
                q = mod.enclosing_qual(c)
                pk = kwarg(c, "protocol")
                ok = mod.rel == UTILS and q in ("pickle_dump", "pickle_dumps") and pk is not None and src(pk) == "PICKLE_PROTOCOL"
                r3.check(ok, f"{mod.rel}:{q}:raw-pickle", f"raw pickle call outside redun.utils.pickle_dump(s) or without protocol=PICKLE_PROTOCOL: {src(c)[:60]}", mod.rel, c.lineno)

    # ---- C16.4 -----------------------------------------------------------
    r4 = ctx.rule("C16.4", "get_hash(data=serialize()) is get_hash(): the pre-serialised shortcut is the identity for every Value class", floor=6)
    seen = 0
    for m, c in [(vm, vbase)] + list(repo.subclasses(vbase, strict=True)):
        gres = repo.resolve_method(m, c, "get_hash")
        sres = repo.resolve_method(m, c, "serialize")
        if gres is None or sres is None:
            continue
        gm, gowner, gfn = gres
        sm, sowner, sfn = sres
        if len(gfn.args.args) < 2:
            continue
        dparam = gfn.args.args[1].arg
        loads = [n for n in ast.walk(gfn) if isinstance(n, ast.Name) and n.id == dparam and isinstance(n.ctx, ast.Load)]
        construct = f"{m.rel}:{c.name}.get_hash[{gowner.name}]<->serialize[{sowner.name}]"
        seen += 1
        if not loads:
            r4.good(construct, "hash ignores the pre-serialised data")
            continue
        # fallback `if data is None: data = E`
        fallback = None
        for n in ast.walk(gfn):
            if isinstance(n, ast.If) and src(n.test) in (f"{dparam} is None", f"not {dparam}"):
                for st in n.body:
                    if isinstance(st, ast.Assign) and src(st.targets[0]) == dparam:
                        fallback = st.value
        srets = [n.value for n in ast.walk(sfn) if isinstance(n, ast.Return) and n.value is not None]
        if fallback is None:
            r4.violation(construct, f"{gowner.name}.get_hash uses `{dparam}` without a `{dparam} is None` fallback: the hash is not a function of the value alone", gm.rel, gfn.lineno)
            continue
        same = len(srets) == 1 and ast.dump(srets[0]) == ast.dump(fallback)
        r4.check(
            same,
            construct,
            f"{gowner.name}.get_hash hashes the caller-supplied `{dparam}` (backends pass serialize()) but falls back to `{src(fallback)}`, while "
            f"{c.name} serialises with {sowner.name}.serialize -> `{src(srets[0]) if len(srets) == 1 else '<several returns>'}`: the same value gets a different hash "
            "depending on whether the backend or the type registry computed it (and, for unordered containers, on iteration order)",
            gm.rel,
            gfn.lineno,
        )
    if seen < 10:
        raise AnalysisError(f"only {seen} Value classes with get_hash/serialize found", "Value")

    # ---- C16.6 hashes are functions of the hashed value alone ------------------------------------------
    r6 = ctx.rule("C16.6", "no hash function reads module-level mutable state (memo tables)", floor=10)
    from ..flow import hash_purity_obligations

    for construct, ok, msg, rel_, line in hash_purity_obligations(repo):
        r6.check(ok, construct, msg, rel_, line)

    # ---- C16.7 pickled state of Value classes holds no raw unordered attribute ----------------------------
    # A Value nested in a list/tuple/dict argument is hashed through pickle_dumps(container) -> __getstate__; a set placed in the
    # state is pickled in iteration order, so the container's hash follows PYTHONHASHSEED.
    r7 = ctx.rule("C16.7", "__getstate__ of a Value class hands no set-typed attribute to pickle in iteration order", floor=2)

    def set_typed(e) -> bool:
        if isinstance(e, (ast.Set, ast.SetComp)):
            return True
        if isinstance(e, ast.Call) and call_name(e) in ("set", "frozenset"):
            return True
        if isinstance(e, ast.BoolOp):
            return any(set_typed(v) for v in e.values)
        if isinstance(e, ast.BinOp) and isinstance(e.op, (ast.BitOr, ast.BitAnd, ast.Sub)):
            return set_typed(e.left) or set_typed(e.right)
        return False

    def set_annotation(a) -> bool:
        t = src(a)
        return t.split("[")[0].strip("\"'") in ("set", "Set", "frozenset", "FrozenSet", "typing.Set")

    n_states = 0
    for m, c in repo.subclasses(vbase):
        set_attrs: set[str] = set()

        def raw(v) -> bool:
            # the empty set has one iteration order
            if isinstance(v, ast.Call) and call_name(v) in ("set", "frozenset") and not v.args and not v.keywords:
                return False
            if isinstance(v, ast.IfExp):
                return raw(v.body) or raw(v.orelse)
            if isinstance(v, ast.BoolOp):
                return any(raw(x) for x in v.values)
            if isinstance(v, ast.Attribute) and src(v.value) == "self" and v.attr in set_attrs:
                return True
            return set_typed(v)

        gs = next((st for st in c.body if isinstance(st, FuncNode) and st.name == "__getstate__"), None)
        if gs is None:
            continue
        n_states += 1
        for mm, cc in repo.mro(m, c):
            for n in ast.walk(cc):
                if isinstance(n, ast.AnnAssign) and isinstance(n.target, ast.Attribute) and src(n.target.value) == "self":
                    if set_annotation(n.annotation) or (n.value is not None and set_typed(n.value)):
                        set_attrs.add(n.target.attr)
                elif isinstance(n, ast.Assign) and set_typed(n.value):
                    for t in n.targets:
                        if isinstance(t, ast.Attribute) and src(t.value) == "self":
                            set_attrs.add(t.attr)
        for d in ast.walk(gs):
            vals = []
            if isinstance(d, ast.Dict):
                vals = [(k, v) for k, v in zip(d.keys, d.values) if k is not None]
            elif isinstance(d, ast.Call) and last_attr(d) == "update":
                vals = [(ast.Constant(kw.arg), kw.value) for kw in d.keywords if kw.arg]
            for k, v in vals:
                if raw(v):
                    r7.check(
                        False,
                        f"{m.rel}:{c.name}.__getstate__:{const_str(k) or src(k)}:raw-set",
                        f"state entry {src(k)} is the set `{src(v)}`: when a {c.name} is nested inside a container argument the container is hashed "
                        "through pickle_dumps, which writes the set in iteration order, so the hash changes with PYTHONHASHSEED; store sorted(...) "
                        "and rebuild the set in __setstate__",
                        m.rel,
                        v.lineno,
                    )
                else:
                    r7.check(True, f"{m.rel}:{c.name}.__getstate__:{const_str(k) or src(k)}", "", m.rel, v.lineno)
    if n_states < 8:
        raise AnalysisError(f"only {n_states} __getstate__ methods of Value classes found", "__getstate__")

    # ---- C16.8 values are not rebuilt in set-iteration order before they are hashed ------------------------
    # Every task argument and result passes through the nested-value mappers before it is hashed.  A `for` over a set expression whose body
    # inserts into an ordered structure (a __dict__, a dict, a list) makes the rebuilt value's pickle -- and hash -- follow PYTHONHASHSEED.
    r8 = ctx.rule("C16.8", "the nested-value mappers do not iterate a set expression with an order-sensitive effect", floor=2)
    um = repo.mod(UTILS)

    def set_expr(e) -> bool:
        if set_typed(e):
            return True
        if isinstance(e, ast.BinOp) and isinstance(e.op, (ast.Sub, ast.BitOr, ast.BitAnd, ast.BitXor)):
            return any(set_expr(x) or (isinstance(x, ast.Call) and last_attr(x) == "keys") for x in (e.left, e.right))
        if isinstance(e, ast.Call) and last_attr(e) in ("difference", "union", "intersection", "symmetric_difference"):
            return True
        return False

    n8 = 0
    for q, fn in um.funcs.items():
        if "nested" not in q.split(".")[-1] or not isinstance(fn, FuncNode):
            continue
        n8 += 1
        set_names = set()
        for n in ast.walk(fn):
            if isinstance(n, ast.Assign) and set_expr(n.value):
                set_names |= {t.id for t in n.targets if isinstance(t, ast.Name)}
        offenders = []
        for n in ast.walk(fn):
            its = []
            if isinstance(n, ast.For):
                its = [n.iter]
            elif isinstance(n, (ast.ListComp, ast.DictComp, ast.GeneratorExp)):
                its = [g.iter for g in n.generators]
            for it in its:
                if set_expr(it) or (isinstance(it, ast.Name) and it.id in set_names):
                    offenders.append(it)
        r8.check(
            not offenders,
            f"{um.rel}:{q}:set-ordered-rebuild",
            (f"`for .. in {src(offenders[0])}` (line {offenders[0].lineno}) visits a set in iteration order while rebuilding the value: what it inserts (e.g. extra "
             "__dict__ items of a dataclass) lands in PYTHONHASHSEED-dependent order, the rebuilt value pickles differently and its hash differs between processes; iterate the "
             "original mapping (or sorted(...)) instead") if offenders else "",
            um.rel,
            offenders[0].lineno if offenders else fn.lineno,
        )
    if n8 < 2:
        raise AnalysisError(f"only {n8} nested-value functions found in {um.rel}", "map_nested_value")
