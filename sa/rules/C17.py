"""C17 -- task hashes track code identity (structural clauses).

Which fields enter the task hash, that every clone forwards them, that no hashed
field is mutated without rehashing, wrapper/partial composition, and that the
decorator-trimming pattern recognises every definition form.
"""

from __future__ import annotations

import ast
import re

from ..cfg import CFG
from ..core import AnalysisError, FuncNode, assigned_targets, call_name, calls_in, const_str, kwarg, last_attr, names_in, src

EXPLANATION = (
    "C17.1 transitive read-set of Task._calc_hash (through the fullname property) contains name, namespace, source, version, "
    "_hash_includes, _task_options_override, compat and excludes _task_options_base; hash_includes are consumed through "
    "sorted(); every returned pre-image carries fullname; C17.2 every clone constructor call inside Task (options, export_options) forwards "
    "each hashed constructor field from self; C17.3 any assignment to a hashed field of a task object outside __init__/__setstate__ is "
    "followed on all paths by recompute_hash() on that object before the function returns or re-registers it; C17.4 wraps_task puts the "
    "hidden inner task into hash_includes; PartialTask hashes the inner task's _calc_hash and its bound arguments; C17.5 the pattern that "
    "trims decorator lines from task source recognises both `def` and `async def` headers (constant evaluation of the regex literal)."
)

TASK = "redun/task.py"
UTILS = "redun/utils.py"
HASHED = ["name", "namespace", "source", "version", "_hash_includes", "_task_options_override", "compat"]
# `_export_options` (which overrides are exported to child jobs) was in this table until the third review of the unchanged tree: the property
# excludes definition-time options only, and C18 requires exported options to be part of a call's identity (see C18.9, DESIGN section 22).
NOT_HASHED = ["_task_options_base"]
CTOR_FIELD = {"name": "name", "namespace": "namespace", "version": "version", "compat": "compat", "source": "source", "hash_includes": "_hash_includes"}


def self_reads(fn) -> set[str]:
    return {n.attr for n in ast.walk(fn) if isinstance(n, ast.Attribute) and isinstance(n.value, ast.Name) and n.value.id == "self" and isinstance(n.ctx, ast.Load)}


def run(ctx):
    repo = ctx.repo
    m = repo.mod(TASK)
    cls = m.cls("Task")
    methods = {st.name: st for st in cls.body if isinstance(st, FuncNode)}
    ch = m.func("Task._calc_hash")

    # ---- C17.1 ----------------------------------------------------------------
    r1 = ctx.rule("C17.1", "hashed-field set of Task._calc_hash", floor=9)
    reads = set()
    work = [ch]
    seen = set()
    while work:
        f = work.pop()
        if id(f) in seen:
            continue
        seen.add(id(f))
        for a in self_reads(f):
            reads.add(a)
            if a in methods and a != "_calc_hash":
                work.append(methods[a])  # property / helper on self
    for f in HASHED:
        r1.check(f in reads, f"{m.rel}:Task._calc_hash:reads {f}", f"Task._calc_hash no longer depends on `{f}`: changing it does not change the task hash", m.rel, ch.lineno)
    for f in NOT_HASHED:
        r1.check(f not in reads, f"{m.rel}:Task._calc_hash:ignores {f}", f"Task._calc_hash reads `{f}`: definition-time options must not affect the hash", m.rel, ch.lineno)
    # the hashed fields reach the pre-image whole: no keys-only iteration of the override mapping, no table lookups / slices on the way
    from ..flow import lossy_uses

    for f, is_map in (("_task_options_override", True), ("source", False), ("version", False), ("name", False), ("namespace", False)):
        for line, what in lossy_uses(m, ch, f, mapping_valued=is_map):
            r1.violation(
                f"{m.rel}:Task._calc_hash:{f}:lossy",
                f"`self.{f}` reaches the task hash through a value-losing step: {what}; two tasks that differ only in what is lost there (e.g. the *values* of call-time option overrides) get the same hash",
                m.rel,
                line,
            )
    sorted_ok = any(isinstance(c, ast.Call) and call_name(c) == "sorted" and "self._hash_includes" in src(c) for c in calls_in(ch))
    r1.check(sorted_ok, f"{m.rel}:Task._calc_hash:sorted(hash_includes)", "hash_includes are not canonicalised with sorted(): their order would affect the hash", m.rel, ch.lineno)
    # per-return flow of fullname + the variable parts
    var_fields: dict[str, set[str]] = {}
    # (target names, flowing expression): assignments, augmented assignments and in-place growth of a local list (`v.append(E)`, `v.extend(E)`)
    flows_into: list[tuple[list, ast.AST]] = []
    for n in ast.walk(ch):
        if isinstance(n, ast.Assign):
            flows_into.append(([t for t in n.targets if isinstance(t, ast.Name)], n.value))
        elif isinstance(n, ast.AugAssign) and isinstance(n.target, ast.Name):
            flows_into.append(([n.target], n.value))
        elif isinstance(n, ast.Call) and isinstance(n.func, ast.Attribute) and n.func.attr in ("append", "extend", "insert", "add", "update") and isinstance(n.func.value, ast.Name) and n.args:
            flows_into.append(([n.func.value], n.args[-1]))
    changed = True
    while changed:
        changed = False
        for tgts, val in flows_into:
            fr = self_reads(val)
            for v in names_in(val):
                fr |= var_fields.get(v, set())
            for t in tgts:
                if not fr <= var_fields.get(t.id, set()):
                    var_fields[t.id] = var_fields.get(t.id, set()) | fr
                    changed = True
    nret = 0
    for n in ast.walk(ch):
        if isinstance(n, ast.Return) and isinstance(n.value, ast.Call) and call_name(n.value) == "hash_struct":
            nret += 1
            flows = self_reads(n.value)
            for nm in names_in(n.value):
                flows |= var_fields.get(nm, set())
            need = {"fullname", "_hash_includes", "_task_options_override"}
            r1.check(need <= flows, f"{m.rel}:Task._calc_hash:return@{'version' if 'version' in src(n.value) else 'source'}", f"returned pre-image lacks {sorted(need - flows)}", m.rel, n.lineno)
    if nret < 2:
        raise AnalysisError("Task._calc_hash: expected source and version pre-images", "Task._calc_hash")

    # ---- C17.2 clone completeness ------------------------------------------------
    r2 = ctx.rule("C17.2", "clones forward every hashed constructor field", floor=2)
    init = m.func("Task.__init__")
    init_params = {a.arg for a in init.args.args}
    for name, fn in methods.items():
        for c in calls_in(fn):
            if src(c.func) in ("self.__class__", "Task", "type(self)") and name not in ("__init__",):
                kws = {k.arg: k.value for k in c.keywords if k.arg}
                missing = []
                for param, field in CTOR_FIELD.items():
                    if param not in init_params:
                        continue
                    v = kws.get(param)
                    if v is None or src(v) != f"self.{field}":
                        missing.append(param)
                ov = kws.get("task_options_override")
                ov_ok = ov is not None
                if ov_ok and isinstance(ov, ast.Name):
                    defs = [a for a in ast.walk(fn) if isinstance(a, ast.Assign) and src(a.targets[0]) == ov.id]
                    ov_ok = any("**self._task_options_override" in src(a.value) for a in defs)
                if not ov_ok:
                    missing.append("task_options_override(merged over self's)")
                # the overrides handed to the clone must not depend on definition-time options (which are not hashed)
                if ov is not None:
                    tainted = _flows_from(fn, ov, "_task_options_base")
                    r2.check(
                        not tainted,
                        f"{m.rel}:Task.{name}:override-independent-of-base",
                        f"the call-time overrides passed to the clone in Task.{name}() are computed from self._task_options_base ({tainted}): the hashed overrides, and so the "
                        "task hash, then depend on definition-time options, and restating a definition-time value no longer changes the hash",
                        m.rel,
                        c.lineno,
                    )
                r2.check(
                    not missing,
                    f"{m.rel}:Task.{name}:clone",
                    f"Task.{name}() builds a clone that does not carry over {missing} from self: the clone's hash no longer reflects them",
                    m.rel,
                    c.lineno,
                )

    # ---- C17.3 write discipline -----------------------------------------------------
    r3 = ctx.rule("C17.3", "mutation of a hashed task field is followed by recompute_hash() on every path", floor=1)
    hashed_attrs = set(HASHED)
    sites = 0
    for mod in repo.modules.values():
        for q, fn in mod.funcs.items():
            if mod.rel == TASK and q in ("Task.__init__", "Task.__setstate__", "PartialTask.__setstate__", "PartialTask.__init__"):
                continue
            for n in ast.walk(fn):
                if mod.enclosing_func(n) is not fn:
                    continue
                if isinstance(n, (ast.Assign, ast.AugAssign)):
                    for t in assigned_targets(n):
                        if isinstance(t, ast.Attribute) and t.attr in hashed_attrs and isinstance(t.value, ast.Name):
                            recv = t.value.id
                            ecls = mod.enclosing_class(n)
                            self_task = recv == "self" and ecls is not None and any(cc is cls for _, cc in repo.mro(mod, ecls))
                            if not (self_task or _is_task_receiver(mod, fn, recv)):
                                continue
                            sites += 1
                            cfg = CFG(fn)
                            node = cfg.node_of(n)
                            rehash = [cfg.node_of(c) for c in calls_in(fn, shallow=True) if call_name(c) == f"{recv}.recompute_hash"]
                            # uses of the stale object: re-registration or return
                            ok = bool(rehash) and cfg.must_pass(node, rehash, targets=[cfg.exit] + [cfg.node_of(c) for c in calls_in(fn, shallow=True) if last_attr(c) == "add" and c.args and src(c.args[0]) == recv])
                            r3.check(
                                ok,
                                f"{mod.rel}:{q}:{recv}.{t.attr}=",
                                f"`{src(n)}` changes a field that enters the task hash but `{recv}.recompute_hash()` does not follow on every path: "
                                f"{recv}.hash stays the hash of the old identity (is_valid() is False, registry counts use the stale hash)",
                                mod.rel,
                                n.lineno,
                            )
    if sites == 0:
        ctx.assume("no function mutates a hashed task field outside constructors")
        r3.good("repo:no-mutation-sites")

    # ---- C17.4 wrappers and partials ---------------------------------------------------
    r4 = ctx.rule("C17.4", "wraps_task includes the hidden inner task in hash_includes; PartialTask hashes inner task + bound args", floor=2)
    wt = m.func("wraps_task")
    ok = False
    for c in calls_in(wt):
        if call_name(c) == "task":
            hi = kwarg(c, "hash_includes")
            if hi is not None:
                names = names_in(hi)
                for nm in names:
                    defs = [a for a in ast.walk(wt) if isinstance(a, ast.Assign) and src(a.targets[0]) == nm]
                    if any("hidden_inner_task" in src(a.value) for a in defs):
                        ok = True
                if "hidden_inner_task" in names:
                    ok = True
    r4.check(ok, f"{m.rel}:wraps_task:hash_includes", "the wrapper task's hash_includes do not contain the hidden inner task: changing the wrapped task would not change the wrapper's hash", m.rel, wt.lineno)
    pc = m.func("PartialTask._calc_hash")
    t = src(pc)
    ok = "self.task._calc_hash()" in t and "self.args" in t and "self.kwargs" in t and "hash_arguments" in t
    r4.check(ok, f"{m.rel}:PartialTask._calc_hash", "a partial task's hash does not combine the inner task's hash with its bound arguments", m.rel, pc.lineno)

    # ---- C17.5 decorator trimming ---------------------------------------------------------
    r5 = ctx.rule("C17.5", "decorator-trimming pattern matches `def` and `async def` headers", floor=1)
    um = repo.mod(UTILS)
    gfs = um.func("get_func_source")
    pats = [const_str(c.args[0]) for c in calls_in(gfs) if call_name(c) in ("re.match", "re.search") and c.args and const_str(c.args[0])]
    if not pats:
        raise AnalysisError("get_func_source: trimming regex not found", "get_func_source")
    for p in pats:
        rx = re.compile(p)
        heads = {"def f(x):": True, "    def f(x):": True, "async def f(x):": True, "    async def f(x):": True, "\tdef f(x):": True, "\t\tasync def f(x):": True, "async  def f(x):": True, "@task(cache=False)": False, "    return default": False, "    undefined = 1": False}
        wrong = [h for h, want in heads.items() if bool(rx.match(h)) != want]
        r5.check(
            not wrong,
            f"{um.rel}:get_func_source:pattern",
            f"pattern {p!r} misclassifies header line(s) {wrong}: for such a function the decorator lines stay in (or an inner def replaces) the hashed "
            "source, so definition-time options change the task hash",
            um.rel,
            gfs.lineno,
        )

    # the source that enters the hash is read at the time of the call: every return of get_func_source derives from `inspect.getsource(func)` of this
    # very call (through line splitting/joining); a value taken from a module-level memo, or a caching decorator, answers with the text that was
    # current when some *equal-looking* function (same code object, same wrapper) was first seen
    tainted = set()
    changed = True
    while changed:
        changed = False
        for a in ast.walk(gfs):
            tgt, val = None, None
            if isinstance(a, ast.Assign):
                tgt, val = a.targets[0], a.value
            elif isinstance(a, (ast.For, ast.comprehension)):
                tgt, val = a.target, a.iter
            if tgt is None:
                continue
            if "inspect.getsource(" in src(val) or any(isinstance(x, ast.Name) and x.id in tainted for x in ast.walk(val)):
                for x in ([tgt] if isinstance(tgt, ast.Name) else list(tgt.elts) if isinstance(tgt, (ast.Tuple, ast.List)) else []):
                    if isinstance(x, ast.Name) and x.id not in tainted:
                        tainted.add(x.id)
                        changed = True
    params = {a.arg for a in gfs.args.args}
    locals_ = set()
    for a in ast.walk(gfs):
        if isinstance(a, (ast.Assign, ast.For, ast.comprehension)):
            tg = a.targets[0] if isinstance(a, ast.Assign) else a.target
            locals_ |= {t.id for t in ([tg] if isinstance(tg, ast.Name) else list(tg.elts) if isinstance(tg, (ast.Tuple, ast.List)) else []) if isinstance(t, ast.Name)}
    import builtins as _b

    nret5 = 0
    for r in ast.walk(gfs):
        if isinstance(r, ast.Return) and r.value is not None:
            nret5 += 1
            names = {x.id for x in ast.walk(r.value) if isinstance(x, ast.Name)}
            foreign = sorted(n for n in names if n not in tainted and n not in params and n not in locals_ and not hasattr(_b, n) and n not in ("inspect", "re"))
            from_source = bool(names & tainted) or "inspect.getsource(" in src(r.value)
            r5.check(
                from_source and not foreign,
                f"{um.rel}:get_func_source:return-from-getsource",
                f"get_func_source returns `{src(r.value)[:60]}` (line {r.lineno}), which is not derived from inspect.getsource(func) of this call"
                + (f" but from the module-level {foreign}" if foreign else "")
                + ": a memo keyed by anything coarser than the source text (the code object, the wrapper function) keeps returning the first text seen, so editing a task body leaves task.source and task.hash unchanged",
                um.rel,
                r.lineno,
            )
    r5.check(not gfs.decorator_list, f"{um.rel}:get_func_source:undecorated", f"get_func_source is wrapped by {[src(d) for d in gfs.decorator_list]}: a cache in front of the source lookup serves stale text", um.rel, gfs.lineno)
    if nret5 == 0:
        raise AnalysisError("get_func_source has no return", "get_func_source")

    _c17_6(ctx, repo)
    _c17_7(ctx, repo)
    # ---- C17.8 every call-time override reaches the override dict the hash covers ---------------------------
    # The hash covers `_task_options_override` only.  An options()/export_options() that filters its update (e.g. drops a key whose value equals
    # the definition-time option) or returns `self` makes `t.options(memory=4).hash == t.hash` for @task(memory=4): a call-time override
    # that does not change the hash, and a hash that depends on definition-time options.
    tm8 = repo.mod(TASK)
    r8 = ctx.rule("C17.8", "options()/export_options() merge the whole update into the overrides of a new task", floor=2)
    for q in ("Task.options", "Task.export_options"):
        fn8 = tm8.func(q)
        kw8 = fn8.args.kwarg.arg if fn8.args.kwarg else None
        if kw8 is None:
            raise AnalysisError(f"{q} no longer takes **updates", q)
        rebound = [n for n in ast.walk(fn8) if isinstance(n, (ast.Assign, ast.AugAssign, ast.AnnAssign)) and any(isinstance(t, ast.Name) and t.id == kw8 for t in assigned_targets(n))]
        rebound += [n for n in ast.walk(fn8) if isinstance(n, ast.Call) and isinstance(n.func, ast.Attribute) and isinstance(n.func.value, ast.Name) and n.func.value.id == kw8 and n.func.attr in ("pop", "popitem", "clear")]
        rebound += [n for n in ast.walk(fn8) if isinstance(n, ast.Delete) and any(isinstance(t, ast.Subscript) and src(t.value) == kw8 for t in n.targets)]
        returns_self = [n for n in ast.walk(fn8) if isinstance(n, ast.Return) and n.value is not None and src(n.value) == "self"]
        merged = False
        for c in calls_in(fn8):
            v = kwarg(c, "task_options_override")
            if v is None:
                continue
            d = v
            if isinstance(v, ast.Name):
                defs = [a.value for a in ast.walk(fn8) if isinstance(a, ast.Assign) and any(isinstance(t, ast.Name) and t.id == v.id for t in a.targets)]
                d = defs[-1] if defs else None
            if isinstance(d, ast.Dict) and d.keys and d.keys[-1] is None and src(d.values[-1]) == kw8 and any(k is None and src(x) == "self._task_options_override" for k, x in zip(d.keys, d.values)):
                merged = True
        bad = rebound or returns_self or not merged
        why = (f"the update `{kw8}` is rewritten before it is merged (line {rebound[0].lineno})" if rebound else "it can return `self`" if returns_self else "the new task's task_options_override is not {**self._task_options_override, **" + kw8 + "}")
        r8.check(
            not bad,
            f"{tm8.rel}:{q}:update-reaches-overrides",
            f"{q}: {why}: a call-time override equal to a definition-time option would leave the hash unchanged (t.options(memory=4).hash == t.hash for @task(memory=4)), and the hash "
            "of t.options(k=v) would depend on definition-time options",
            tm8.rel,
            fn8.lineno,
        )


def _is_task_receiver(mod, fn, recv: str) -> bool:
    """Receiver is a Task object: annotated parameter, or assigned from a registry lookup / named *task*."""
    for a in fn.args.args + fn.args.kwonlyargs:
        if a.arg == recv and a.annotation is not None and "Task" in src(a.annotation):
            return True
    if mod.rel == TASK and "task" in recv.lower():
        return True
    for n in ast.walk(fn):
        if isinstance(n, ast.Assign) and any(isinstance(t, ast.Name) and t.id == recv for t in n.targets):
            t = src(n.value)
            if "_tasks" in t or "task_registry" in t or "get_task_registry" in t:
                return True
    return False


def _flows_from(fn, expr, attr: str):
    """Does self.<attr> flow (through local assignments, loops and mutations of locals) into `expr`? Returns a description or None."""
    tainted: dict[str, str] = {}
    changed = True
    while changed:
        changed = False
        for n in ast.walk(fn):
            srcs = []
            tgt = []
            if isinstance(n, ast.Assign):
                srcs, tgt = [n.value], [t for t in n.targets]
            elif isinstance(n, ast.AugAssign):
                srcs, tgt = [n.value], [n.target]
            elif isinstance(n, (ast.For, ast.comprehension)):
                srcs, tgt = [n.iter], [n.target]
            elif isinstance(n, ast.If):
                # control dependence: names assigned/mutated under a test that reads the attribute
                if _reads(n.test, attr, tainted):
                    for b in n.body + n.orelse:
                        for a in ast.walk(b):
                            if isinstance(a, ast.Assign):
                                tgt += a.targets
                            elif isinstance(a, ast.Call) and isinstance(a.func, ast.Attribute) and a.func.attr in ("pop", "update", "append", "add", "remove", "clear", "setdefault") and isinstance(a.func.value, ast.Name):
                                tgt.append(a.func.value)
                            elif isinstance(a, ast.Delete):
                                tgt += [t.value if isinstance(t, ast.Subscript) else t for t in a.targets]
                    srcs = [n.test]
            elif isinstance(n, (ast.DictComp, ast.ListComp, ast.SetComp, ast.GeneratorExp)):
                continue
            if not srcs:
                continue
            why = None
            for sx in srcs:
                w = _reads(sx, attr, tainted)
                if w:
                    why = w
            if why:
                for t in tgt:
                    for nm in ast.walk(t):
                        if isinstance(nm, ast.Name) and nm.id not in tainted:
                            tainted[nm.id] = why
                            changed = True
    return _reads(expr, attr, tainted)


def _reads(node, attr: str, tainted: dict):
    for n in ast.walk(node):
        if isinstance(n, ast.Attribute) and n.attr == attr:
            return f"reads self.{attr}"
        if isinstance(n, ast.Name) and n.id in tainted:
            return f"via `{n.id}`, which {tainted[n.id]}"
    return None


def _c17_6(ctx, repo):
    """C17.6: Task.__init__ computes the hash after _validate() has rewritten the hashed option dicts."""
    from ..cfg import CFG

    m = repo.mod(TASK)
    r6 = ctx.rule("C17.6", "the constructor hashes the task after _validate() has normalised the hashed option dicts", floor=1)
    init = m.func("Task.__init__")
    val = m.func("Task._validate")
    rewrites = any(isinstance(n, ast.Call) and isinstance(n.func, ast.Attribute) and n.func.attr == "pop" for n in ast.walk(val)) or any(
        isinstance(n, ast.Assign) and isinstance(n.targets[0], ast.Subscript) and "options" in src(n.targets[0].value) for n in ast.walk(val)
    )
    if not rewrites:
        r6.good(f"{m.rel}:Task._validate:no-rewrite", "_validate no longer rewrites option dicts")
        return
    cfg = CFG(init)
    vals = [cfg.node_of(c) for c in calls_in(init, shallow=True) if call_name(c) == "self._validate"]
    hashes = [cfg.node_of(c) for c in calls_in(init, shallow=True) if call_name(c) == "self.recompute_hash"]
    if not vals or not hashes:
        raise AnalysisError("Task.__init__: _validate()/recompute_hash() calls not found", "Task.__init__")
    ok = all(cfg.must_pass(v, hashes) for v in vals)
    r6.check(
        ok,
        f"{m.rel}:Task.__init__:validate-then-hash",
        "Task.__init__ calls recompute_hash() before _validate(), which rewrites the hashed override dict (cache -> cache_scope, strings -> enums): the stored hash is the hash of the un-normalised options, so "
        "`f.options(cache=False).is_valid()` is False right after construction (and after unpickling) and a task that returns such a task value is re-executed on every run",
        m.rel,
        init.lineno,
    )


def _c17_7(ctx, repo):
    """C17.7: validity of an unpickled task value reflects the registered task's version."""
    m = repo.mod(TASK)
    r7 = ctx.rule("C17.7", "an unpickled versioned task is validated against the version of the registered task", floor=1)
    ss = m.func("Task.__setstate__")
    iv = m.func("Task.is_valid")
    from_state = any(isinstance(a, ast.Assign) and src(a.targets[0]) == "self.version" and "state[" in src(a.value) for a in ast.walk(ss))
    from_registry = any(isinstance(a, ast.Assign) and src(a.targets[0]) == "self.version" and "_task." in src(a.value) for a in ast.walk(ss))
    compares = any(isinstance(c, ast.Compare) and ".version" in src(c) and "self.version" in src(c) for c in ast.walk(iv))
    r7.check(
        (not from_state) or from_registry or compares,
        f"{m.rel}:Task.is_valid:version-vs-registry",
        "Task.__setstate__ restores `version` from the pickled state and Task.is_valid re-hashes with it: for a versioned task the re-computed hash uses pickled data only, so a task value pickled at "
        "version='1' stays is_valid() after the registered task is bumped to '2' (or removed) -- a cached result containing it is replayed although the task it names has changed",
        m.rel,
        iv.lineno,
    )
