"""C18 -- expression identity matches the call it denotes.

Identity-field completeness of every expression hash (each identity field flows
into every returned pre-image, or is provably empty on that return), own-class
type tag, and writer/reader agreement of the pickle state.
"""

from __future__ import annotations

import ast

from ..cfg import CFG, facts_at
from ..core import AnalysisError, FuncNode, assigned_targets, call_name, calls_in, const_str, dotted, names_in, src

EXPLANATION = (
    "C18.1 for every concrete Expression subclass, identity fields = attributes assigned in its __init__ chain minus the declared "
    "bookkeeping set {_hash,_upstreams,call_hash,_length}; the resolved _calc_hash is analysed per return: every identity field "
    "flows (def-use through locals) into the returned hash_struct pre-image, or the return is dominated by the fact that the field is "
    "falsy (single empty value); the pre-image starts with the class's own name; C18.2 __getstate__ keys equal the keys read by "
    "__setstate__ through the super() chain, cover the identity fields, and __setstate__ resets every bookkeeping field."
)

EXPR = "redun/expression.py"
BOOKKEEPING = {"_hash", "_upstreams", "call_hash", "_length"}


def self_fields_assigned(fn) -> list[str]:
    out = []
    for n in ast.walk(fn):
        if isinstance(n, (ast.Assign, ast.AnnAssign, ast.AugAssign)):
            for t in assigned_targets(n):
                if isinstance(t, ast.Attribute) and isinstance(t.value, ast.Name) and t.value.id == "self":
                    if t.attr not in out:
                        out.append(t.attr)
    return out


def self_fields_read(node) -> set[str]:
    return {n.attr for n in ast.walk(node) if isinstance(n, ast.Attribute) and isinstance(n.value, ast.Name) and n.value.id == "self" and isinstance(n.ctx, ast.Load)}


def run(ctx):
    repo = ctx.repo
    m = repo.mod(EXPR)
    base = m.cls("Expression")
    classes = [(mm, c) for mm, c in repo.subclasses(base) if mm.rel == EXPR or True]
    r1 = ctx.rule("C18.1", "every identity field reaches every returned hash pre-image (or is empty there); own-class tag", floor=8)
    r2 = ctx.rule("C18.2", "pickle state: getstate keys == setstate keys, identity covered, bookkeeping reset", floor=6)
    concrete = 0
    for mm, c in classes:
        res = repo.resolve_method(mm, c, "_calc_hash")
        if res is None:
            continue
        hm, howner, hfn = res
        if any(isinstance(n, ast.Raise) for n in hfn.body):
            continue  # abstract
        concrete += 1
        # identity fields from the __init__ chain
        fields: list[str] = []
        for cm, cc in repo.mro(mm, c):
            for st in cc.body:
                if isinstance(st, FuncNode) and st.name == "__init__":
                    for f in self_fields_assigned(st):
                        if f not in fields:
                            fields.append(f)
        identity = [f for f in fields if f not in BOOKKEEPING]
        if not identity:
            raise AnalysisError(f"{c.name}: no identity fields found", c.name)
        cfg = CFG(hfn)
        # local def-use: var -> fields read (transitively)
        var_fields: dict[str, set[str]] = {}
        changed = True
        assigns = [n for n in ast.walk(hfn) if isinstance(n, ast.Assign)]
        while changed:
            changed = False
            for a in assigns:
                fr = self_fields_read(a.value)
                for v in names_in(a.value):
                    fr |= var_fields.get(v, set())
                for t in a.targets:
                    if isinstance(t, ast.Name):
                        if not fr <= var_fields.get(t.id, set()):
                            var_fields[t.id] = var_fields.get(t.id, set()) | fr
                            changed = True
        rets = [n for n in cfg.nodes if n.kind == "stmt" and isinstance(n.ast, ast.Return)]
        for rn in rets:
            v = rn.ast.value
            flows = self_fields_read(v)
            for nm in names_in(v):
                flows |= var_fields.get(nm, set())
            facts = facts_at(cfg, rn)
            for f in identity:
                construct = f"{hm.rel}:{c.name}._calc_hash[{howner.name}]:{f}"
                if f in flows:
                    r1.good(construct)
                elif (f"self.{f}", False) in facts:
                    r1.good(construct, "omitted only where the field is empty")
                else:
                    r1.violation(
                        construct,
                        f"identity field `{f}` of {c.name} (set in its constructor) does not reach the hash returned at line {rn.lineno} "
                        f"of {howner.name}._calc_hash: two {c.name}s that differ only in `{f}` get the same hash and are merged",
                        hm.rel,
                        rn.lineno,
                    )
            # ... and whole: no table lookup, string folding, slicing or keys-only iteration between the field and the pre-image
            from ..flow import lossy_uses

            for f in identity:
                is_map = any(isinstance(n, (ast.Assign, ast.AnnAssign)) and src(n.targets[0] if isinstance(n, ast.Assign) else n.target) == f"self.{f}" and n.value is not None and any(isinstance(x, ast.Dict) or (isinstance(x, ast.Call) and (call_name(x) or "") == "dict") for x in ast.walk(n.value)) for _, cc in repo.mro(mm, c) for st in cc.body if isinstance(st, FuncNode) and st.name in ("__init__", "__setstate__") for n in ast.walk(st))
                for line, what in lossy_uses(hm, hfn, f, mapping_valued=is_map):
                    r1.violation(
                        f"{hm.rel}:{c.name}._calc_hash[{howner.name}]:{f}:lossy",
                        f"identity field `{f}` of {c.name} reaches the hash through a value-losing step: {what}; two {c.name}s that differ only in what is lost there get the same hash and are merged",
                        hm.rel,
                        line,
                    )
            # the field must reach the pre-image unfiltered: no comprehension filter / helper that drops entries
            for f in identity:
                for node in ast.walk(hfn):
                    if isinstance(node, ast.Attribute) and node.attr == f and isinstance(node.value, ast.Name) and node.value.id == "self" and isinstance(node.ctx, ast.Load):
                        par = hm.parent.get(node)
                        if isinstance(par, ast.Call) and node in par.args:
                            callee = call_name(par) or ""
                            helper = hm.funcs.get(callee)
                            if helper is not None:
                                # keys-only uses of a mapping-valued field: sorted(d) / list(d) / set(d) / d.keys() drop the values
                                hp = helper.args.args[par.args.index(node)].arg if par.args.index(node) < len(helper.args.args) else None
                                for hr in [x for x in ast.walk(helper) if isinstance(x, ast.Return) and x.value is not None]:
                                    occ = [x for x in ast.walk(hr.value) if isinstance(x, ast.Name) and x.id == hp]
                                    if not occ:
                                        continue
                                    lossy = []
                                    for o in occ:
                                        po = hm.parent.get(o)
                                        if isinstance(po, ast.Call) and o in po.args and isinstance(po.func, ast.Name) and po.func.id in ("sorted", "list", "set", "tuple", "frozenset", "len"):
                                            lossy.append(src(po)[:40])
                                        elif isinstance(po, ast.Attribute) and po.attr == "keys":
                                            lossy.append(src(po)[:40])
                                    r1.check(
                                        len(lossy) < len(occ),
                                        f"{hm.rel}:{c.name}._calc_hash[{howner.name}]:{f}:keys-only",
                                        f"`self.{f}` is hashed through `{callee}`, whose `return {src(hr.value)[:70]}` uses the mapping only through {lossy}: iterating a dict yields its keys, so the option "
                                        f"*values* no longer reach the hash and two {c.name}s that differ only in a value of `{f}` are merged",
                                        hm.rel,
                                        hr.lineno,
                                    )
                                filt = [n for n in ast.walk(helper) if isinstance(n, (ast.DictComp, ast.ListComp, ast.SetComp, ast.GeneratorExp)) and any(g.ifs for g in n.generators)] + [n for n in ast.walk(helper) if isinstance(n, ast.Call) and isinstance(n.func, ast.Attribute) and n.func.attr in ("pop", "discard", "remove")]
                                r1.check(
                                    not filt,
                                    f"{hm.rel}:{c.name}._calc_hash[{howner.name}]:{f}:unfiltered",
                                    f"`self.{f}` is passed through `{callee}`, which drops entries ({src(filt[0])[:60] if filt else ''}) before hashing: two {c.name}s whose `{f}` differ only in dropped entries get the same hash",
                                    hm.rel,
                                    node.lineno,
                                )
                        comp = par
                        while comp is not None and comp is not hfn and not isinstance(comp, ast.stmt):
                            if isinstance(comp, (ast.DictComp, ast.ListComp, ast.SetComp, ast.GeneratorExp)) and any(g.ifs for g in comp.generators):
                                r1.violation(f"{hm.rel}:{c.name}._calc_hash[{howner.name}]:{f}:filtered", f"`self.{f}` is filtered by a comprehension condition before hashing", hm.rel, node.lineno)
                            comp = hm.parent.get(comp)
            # tag
            tag = None
            if isinstance(v, ast.Call) and call_name(v) == "hash_struct" and v.args and isinstance(v.args[0], ast.List) and v.args[0].elts:
                tag = const_str(v.args[0].elts[0])
            r1.check(tag == c.name, f"{hm.rel}:{c.name}._calc_hash:tag", f"pre-image tag is {tag!r}, expected the class's own name {c.name!r}", hm.rel, rn.lineno)

        # ---- pickle state ---------------------------------------------------
        gs_keys: set[str] = set()
        ss_keys: set[str] = set()
        ss_assigned: set[str] = set()
        for cm, cc in repo.mro(mm, c):
            for st in cc.body:
                if isinstance(st, FuncNode) and st.name == "__getstate__":
                    for n in ast.walk(st):
                        if isinstance(n, ast.Dict):
                            for k in n.keys:
                                if k is not None and const_str(k):
                                    gs_keys.add(const_str(k))
                if isinstance(st, FuncNode) and st.name == "__setstate__":
                    sp = st.args.args[1].arg
                    for n in ast.walk(st):
                        if isinstance(n, ast.Subscript) and src(n.value) == sp and const_str(n.slice):
                            ss_keys.add(const_str(n.slice))
                        if isinstance(n, ast.Call) and call_name(n) == f"{sp}.get" and n.args and const_str(n.args[0]):
                            ss_keys.add(const_str(n.args[0]))
                    ss_assigned |= set(self_fields_assigned(st))
            if cc is base:
                break
        r2.check(gs_keys == ss_keys, f"{mm.rel}:{c.name}:state-keys", f"__getstate__ writes {sorted(gs_keys)} but __setstate__ reads {sorted(ss_keys)}", mm.rel, c.lineno)
        missing = [f for f in identity if f not in ss_assigned]
        r2.check(not missing, f"{mm.rel}:{c.name}:state-identity", f"__setstate__ does not restore identity field(s) {missing}", mm.rel, c.lineno)
        bk = [f for f in fields if f in BOOKKEEPING]
        notreset = [f for f in bk if f not in ss_assigned]
        r2.check(not notreset, f"{mm.rel}:{c.name}:state-bookkeeping", f"__setstate__ does not reset bookkeeping field(s) {notreset}", mm.rel, c.lineno)
    if concrete < 4:
        raise AnalysisError(f"only {concrete} concrete Expression classes found (expected >= 4)", "Expression")

    # bookkeeping resets to neutral values
    r3 = ctx.rule("C18.3", "deserialisation clears per-run bookkeeping (_hash None, call_hash None, _upstreams rebuilt from the new args)", floor=3)
    bs = m.func("Expression.__setstate__")
    t = {src(n.targets[0]): src(n.value) for n in ast.walk(bs) if isinstance(n, ast.Assign)}
    r3.check(t.get("self._hash") == "None", f"{m.rel}:Expression.__setstate__:_hash", "the cached hash is not cleared on deserialisation", m.rel, bs.lineno)
    for cn in ("TaskExpression", "SimpleExpression"):
        fn = m.func(f"{cn}.__setstate__")
        t = {}
        for n in ast.walk(fn):
            if isinstance(n, ast.Assign):
                t[src(n.targets[0])] = src(n.value)
        ok = t.get("self._upstreams") == "[self.args, self.kwargs]" and any(isinstance(c, ast.Call) and src(c.func) == "super().__setstate__" for c in calls_in(fn))
        if cn == "TaskExpression":
            ok = ok and t.get("self.call_hash") == "None"
        r3.check(ok, f"{m.rel}:{cn}.__setstate__:bookkeeping", f"{cn}.__setstate__ does not rebuild _upstreams from the restored args / clear call_hash / call super", m.rel, fn.lineno)

    # ---- C18.4 option dicts shared between expressions are never rewritten in place -------------
    # Task.__call__ hands the task's _task_options_override dict to every TaskExpression by reference and Task.options() copies it shallowly;
    # update_context() builds the new override with merge_dicts([previous, ...]).  If merge_dicts wrote into its operands, a later derived task
    # would change the options -- hence the hash -- of expressions that already exist (and whose hash may already be cached).
    r4 = ctx.rule("C18.4", "merge_dicts (used to build call-time option overrides) does not write into its operands", floor=1)
    from ..flow import merge_purity_obligations

    for construct, ok, msg, rel_, line in merge_purity_obligations(repo):
        r4.check(ok, construct, msg, rel_, line)

    # ---- C18.5 every way of calling a task hands the exported option names to the expression ------
    # TaskExpression / SchedulerExpression hash `export_options`.  Task.__call__ passes them; a sibling __call__ that does not makes
    # `t.export_options(k=v)(..)` indistinguishable from `t.options(k=v)(..)`.
    r5 = ctx.rule("C18.5", "every Task.__call__ variant passes task_options and export_options to the expression it builds", floor=2)
    tm5 = repo.mod("redun/task.py")
    ncall5 = 0
    for cm5, c5 in repo.subclasses(tm5.cls("Task")):
        callm = next((st for st in c5.body if isinstance(st, ast.FunctionDef) and st.name == "__call__"), None)
        if callm is None:
            continue
        for c in calls_in(callm):
            cn = (call_name(c) or "").split(".")[-1]
            if cn.endswith("Expression") and any(k.arg == "task_options" for k in c.keywords):
                ncall5 += 1
                r5.check(
                    any(k.arg == "export_options" and src(k.value) == "self._export_options" for k in c.keywords),
                    f"{cm5.rel}:{c5.name}.__call__:{cn}:export_options",
                    f"{c5.name}.__call__ builds a {cn} with task_options but without export_options=self._export_options: `{c5.name.lower()}.export_options(k=v)(...)` gets an empty exported-name set and "
                    "the same hash as `.options(k=v)(...)`, so the two calls are merged when reached from the same job",
                    cm5.rel,
                    c.lineno,
                )
    if ncall5 < 2:
        raise AnalysisError(f"only {ncall5} expression constructions found in Task.__call__ variants", "Task.__call__")

    # ---- C18.6 unpickling a partial keeps the class of the task it wraps ------------------------
    r6 = ctx.rule("C18.6", "PartialTask.__setstate__ does not rebuild the wrapped task as a hard-coded base class", floor=1)
    ps6 = tm5.func("PartialTask.__setstate__")
    news6 = [c for c in calls_in(ps6) if isinstance(c.func, ast.Attribute) and c.func.attr == "__new__"]
    if not news6:
        raise AnalysisError("PartialTask.__setstate__: construction of the inner task not found", "PartialTask.__setstate__")
    for c in news6:
        hard = isinstance(c.func.value, ast.Name) and c.func.value.id in tm5.classes
        r6.check(
            not hard,
            f"{tm5.rel}:PartialTask.__setstate__:inner-class",
            f"`{src(c)}` rebuilds the wrapped task as a plain {src(c.func.value)} whatever it was: after a pickle round trip `cond.partial(True)(1, 2)` builds a TaskExpression instead of a "
            "SchedulerExpression -- a different expression kind with a different hash (and it fails when run)",
            tm5.rel,
            c.lineno,
        )

    # ---- C18.7 hashes are functions of the hashed value alone ------------------------------------------
    r7 = ctx.rule("C18.7", "no hash function reads module-level mutable state (memo tables)", floor=10)
    from ..flow import hash_purity_obligations

    for construct, ok, msg, rel_, line in hash_purity_obligations(repo):
        r7.check(ok, construct, msg, rel_, line)

    # ---- C18.8 expression hashes are not served from ==-keyed memos ---------------------------------------
    r8 = ctx.rule("C18.8", "no hash function (or a same-module helper it calls) is memoised by a cache keyed with ==", floor=10)
    from ..flow import memoised_callee_obligations

    for construct, ok, msg, rel_, line in memoised_callee_obligations(
        repo,
        ("redun/value.py", "redun/task.py", "redun/expression.py", "redun/hashing.py", "redun/scheduler.py"),
        lambda leaf: leaf in ("get_hash", "_calc_hash") or leaf.startswith("hash_"),
    ):
        r8.check(ok, construct, msg, rel_, line)

    # ---- C18.9 every hash of a call or task value covers the exported option names ---------------------------------
    # TaskExpression/SchedulerExpression hash `_export_options`; a Task passed as an *argument* is hashed by Task._calc_hash.  If that hash leaves
    # the exported names out, g(f.options(executor="a"), 1) and g(f.export_options(executor="a"), 1) are one expression although the second
    # exports the option to child jobs.
    r9 = ctx.rule("C18.9", "every _calc_hash of a class that carries _export_options reads it", floor=3)
    for rel9, cname in (("redun/task.py", "Task"), ("redun/expression.py", "TaskExpression"), ("redun/expression.py", "SchedulerExpression")):
        mod9 = repo.mod(rel9)
        fn9 = mod9.funcs.get(f"{cname}._calc_hash")
        if fn9 is None:
            raise AnalysisError(f"{cname}._calc_hash not found", f"{cname}._calc_hash")
        # a read that contributes a value (not one that only steers a branch)
        def _in_test(a) -> bool:
            cur = a
            while cur is not None and not isinstance(cur, ast.stmt):
                par = mod9.parent.get(cur)
                if isinstance(par, (ast.If, ast.IfExp, ast.While)) and par.test is cur:
                    return True
                cur = par
            return False

        reads = any(isinstance(a, ast.Attribute) and a.attr == "_export_options" and src(a.value) == "self" and not _in_test(a) for a in ast.walk(fn9))
        r9.check(
            reads,
            f"{rel9}:{cname}._calc_hash:covers-export-options",
            f"{cname}._calc_hash does not read self._export_options: two values that differ only in which overrides are exported to child jobs (t.options(executor='a') vs "
            "t.export_options(executor='a')) hash the same, so calls taking them as arguments are merged into one expression",
            rel9,
            fn9.lineno,
        )

    # ---- C18.10 (the obligations of C27.5: a derived task does not share its exported-option set with the task it was derived from) ----
    from ..report import BorrowCtx as _BorrowCtx10
    from . import C27 as _borrowed_C27

    _borrowed_C27.run(_BorrowCtx10(ctx, {"C27.5": "C18.10"}))
