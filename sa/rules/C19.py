"""C19 -- nested values are traversed and rebuilt faithfully (dispatch-table agreement).

The leaf iterator and the mapper are read as decision lists over an abstract
domain of value kinds and must agree on which kinds are containers and on each
container's children; rebuilding uses the value's own type.
"""

from __future__ import annotations

import ast

from ..core import AnalysisError, FuncNode, call_name, calls_in, last_attr, src
from ..tables import if_chain

EXPLANATION = (
    "C19.1 iter_nested_value_children and map_nested_value are evaluated as decision lists on the abstract kinds {list, tuple, namedtuple, set, "
    "dict, dataclass, frozenset, list-subclass, dict-subclass, other}: both classify the same kinds as containers (exhaustive), dict children are "
    "keys and values in both, dataclass children are all fields() in both (init fields through the constructor and non-init fields through setattr); "
    "C19.2 rebuild uses list/set/dict displays, tuple(...), and the value's own type for namedtuples and dataclasses; every recursive call passes the "
    "same func; C19.3 iter_nested_value pushes every child and yields exactly the leaves; Scheduler.evaluate maps and iterates the same structure."
)

UTILS = "redun/utils.py"
KINDS = {
    # kind: (exact type name or None, isinstance-of set, has _fields, is dataclass)
    "list": ("list", {"list"}, False, False),
    "tuple": ("tuple", {"tuple"}, False, False),
    "namedtuple": (None, {"tuple"}, True, False),
    "set": ("set", {"set"}, False, False),
    "dict": ("dict", {"dict"}, False, False),
    "dataclass": (None, set(), False, True),
    "frozenset": ("frozenset", {"frozenset"}, False, False),
    "list-subclass": (None, {"list"}, False, False),
    "dict-subclass": (None, {"dict"}, False, False),
    "other": (None, set(), False, False),
}


def _eval(test: ast.AST, kind: str, tvar: str, vvar: str) -> bool:
    exact, inst, fields, isdc = KINDS[kind]
    if isinstance(test, ast.BoolOp):
        vals = [_eval(v, kind, tvar, vvar) for v in test.values]
        return all(vals) if isinstance(test.op, ast.And) else any(vals)
    if isinstance(test, ast.UnaryOp) and isinstance(test.op, ast.Not):
        return not _eval(test.operand, kind, tvar, vvar)
    if isinstance(test, ast.Compare) and len(test.ops) == 1 and src(test.left) == tvar:
        right = test.comparators[0]
        names = [src(e) for e in right.elts] if isinstance(right, (ast.Tuple, ast.List, ast.Set)) else [src(right)]
        if isinstance(test.ops[0], (ast.Is, ast.Eq, ast.In)):
            return exact in names
        if isinstance(test.ops[0], (ast.IsNot, ast.NotEq, ast.NotIn)):
            return exact not in names
    if isinstance(test, ast.Call):
        d = call_name(test)
        if d == "isinstance" and src(test.args[0]) == vvar:
            c = test.args[1]
            names = [src(e) for e in c.elts] if isinstance(c, ast.Tuple) else [src(c)]
            return bool(inst & set(names))
        if d == "hasattr" and src(test.args[0]) == vvar and src(test.args[1]) == "'_fields'":
            return fields
        if d in ("dataclasses.is_dataclass", "is_dataclass"):
            return isdc
    raise AnalysisError(f"nested-value dispatch test not understood: {src(test)}", "redun/utils.py")


def run(ctx):
    repo = ctx.repo
    m = repo.mod(UTILS)
    it = m.func("iter_nested_value_children")
    mp = m.func("map_nested_value")

    def tvar_of(fn):
        for n in fn.body:
            if isinstance(n, ast.Assign) and isinstance(n.value, ast.Call) and call_name(n.value) == "type":
                return src(n.targets[0]), src(n.value.args[0])
        raise AnalysisError(f"{fn.name}: `value_type = type(value)` not found", fn.name)

    it_t, it_v = tvar_of(it)
    mp_t, mp_v = tvar_of(mp)
    it_arms, mp_arms = if_chain(it), if_chain(mp)

    def arm(arms, kind, t, v):
        for i, (test, body) in enumerate(arms):
            if test is None or _eval(test, kind, t, v):
                return i, body
        raise AnalysisError("no arm taken")

    r1 = ctx.rule("C19.1", "iterator and mapper agree on containers and on their children for every abstract kind", floor=10)
    table = {}
    for kind in KINDS:
        ii, ib = arm(it_arms, kind, it_t, it_v)
        mi, mb = arm(mp_arms, kind, mp_t, mp_v)
        ibt = " ; ".join(src(b) for b in ib)
        mbt = " ; ".join(src(b) for b in mb)
        it_leaf = "yield (True," in ibt
        mp_leaf = any(isinstance(b, ast.Return) and isinstance(b.value, ast.Call) and src(b.value.func) == mp.args.args[0].arg for b in mb)
        table[kind] = {"iter": "leaf" if it_leaf else "container", "map": "leaf" if mp_leaf else "container"}
        r1.check(it_leaf == mp_leaf, f"{m.rel}:nested:{kind}:container-agreement", f"a {kind} is a {'leaf' if it_leaf else 'container'} for iter_nested_value but a {'leaf' if mp_leaf else 'container'} for map_nested_value: expressions inside it are found but not replaced (or the reverse)", m.rel, it.lineno)
        if not it_leaf and not mp_leaf:
            if kind == "dict":
                ok = f"{it_v}.keys()" in ibt and f"{it_v}.values()" in ibt and "map_nested_value(func, key)" in mbt and "map_nested_value(func, val)" in mbt
                r1.check(ok, f"{m.rel}:nested:dict:children", "dict keys and values are not both visited and both mapped", m.rel, it.lineno)
            elif kind == "dataclass":
                ok = f"dataclasses.fields({it_v})" in ibt and "if field.init" in mbt and "if not field.init" in mbt and mbt.count(f"dataclasses.fields({mp_v})") >= 2 and "setattr(" in mbt
                flt = [n for b in ib for n in ast.walk(b) if isinstance(n, ast.For) and (isinstance(n.body[0], ast.If) if n.body else False)]
                r1.check(ok and not flt, f"{m.rel}:nested:dataclass:children", "dataclass fields are not all visited by the iterator and all (init through the constructor, non-init through setattr) rebuilt by the mapper", m.rel, it.lineno)
            else:
                ok = f"in {it_v}" in ibt and f"in {mp_v}" in mbt
                r1.check(ok, f"{m.rel}:nested:{kind}:children", "items are not iterated directly in both traversals", m.rel, it.lineno)
    ctx.extra["kind_table"] = table
    ctx.extra["exhaustive"] = True

    r2 = ctx.rule("C19.2", "rebuild preserves the container type; recursion passes the same function", floor=6)
    shapes = {}
    for kind in ("list", "tuple", "namedtuple", "set", "dict", "dataclass"):
        _, mb = arm(mp_arms, kind, mp_t, mp_v)
        ret = next((b for b in mb if isinstance(b, ast.Return)), None)
        v = ret.value if ret is not None else None
        if kind == "list":
            ok = isinstance(v, ast.ListComp)
        elif kind == "tuple":
            ok = isinstance(v, ast.Call) and call_name(v) == "tuple"
        elif kind == "namedtuple":
            ok = isinstance(v, ast.Call) and src(v.func) == mp_t and any(isinstance(a, ast.Starred) for a in v.args)
        elif kind == "set":
            ok = isinstance(v, ast.SetComp)
        elif kind == "dict":
            ok = isinstance(v, ast.DictComp)
        else:
            mbt = " ; ".join(src(b) for b in mb)
            ok = f"{mp_t}(**" in mbt and isinstance(v, ast.Name)
        r2.check(bool(ok), f"{m.rel}:map_nested_value:{kind}:rebuild", f"a {kind} is not rebuilt as a {kind} ({src(v)[:50] if v is not None else None})", m.rel, mp.lineno)
    f0 = mp.args.args[0].arg
    rec = [c for c in calls_in(mp) if call_name(c) == "map_nested_value"]
    r2.check(len(rec) >= 7 and all(c.args and src(c.args[0]) == f0 for c in rec), f"{m.rel}:map_nested_value:recursion", "a recursive call does not pass the mapped function unchanged", m.rel, mp.lineno)

    r3 = ctx.rule("C19.3", "leaf iterator visits every child; evaluate maps and iterates one structure", floor=2)
    inv = m.func("iter_nested_value")
    t = src(inv)
    ok = "stack.extend(iter_nested_value_children(value))" in t and "if is_leaf:" in t and "yield value" in t
    r3.check(ok, f"{m.rel}:iter_nested_value", "iter_nested_value does not push every child and yield exactly the leaves", m.rel, inv.lineno)
    sm = repo.mod("redun/scheduler.py")
    ev = sm.func("Scheduler.evaluate")
    te = src(ev)
    ok = "pending_expr = map_nested_value(eval_term, expr)" in te and "iter_nested_value(pending_expr)" in te and "map_nested_value(resolve_term, pending_expr)" in te
    r3.check(ok, f"{sm.rel}:Scheduler.evaluate", "evaluate does not start, collect and resolve the promises of one and the same mapped structure", sm.rel, ev.lineno)
