"""C19 -- nested values are traversed and rebuilt faithfully (dispatch-table agreement).

The leaf iterator and the mapper are read as decision lists over an abstract
domain of value kinds and must agree on which kinds are containers and on each
container's children; rebuilding uses the value's own type.
"""

from __future__ import annotations

import ast

from ..core import AnalysisError, FuncNode, call_name, calls_in, last_attr, src
from ..tables import if_chain

EXPLANATION = (
    "C19.1 iter_nested_value_children and map_nested_value are evaluated as decision lists on the abstract kinds {list, tuple, namedtuple, set, "
    "dict, dataclass, frozenset, list-subclass, dict-subclass, other}: both classify the same kinds as containers (exhaustive), dict children are "
    "keys and values in both, dataclass children are all fields() in both (init fields through the constructor and non-init fields through setattr); "
    "C19.2 rebuild uses list/set/dict displays, tuple(...), and the value's own type for namedtuples and dataclasses; every recursive call passes the "
    "same func; C19.3 iter_nested_value pushes every child and yields exactly the leaves; Scheduler.evaluate maps and iterates the same structure."
)

UTILS = "redun/utils.py"
KINDS = {
    # kind: (exact type name or None, isinstance-of set, has _fields, is dataclass)
    "list": ("list", {"list"}, False, False),
    "tuple": ("tuple", {"tuple"}, False, False),
    "namedtuple": (None, {"tuple"}, True, False),
    "set": ("set", {"set"}, False, False),
    "dict": ("dict", {"dict"}, False, False),
    "dataclass": (None, set(), False, True),
    "frozenset": ("frozenset", {"frozenset"}, False, False),
    "list-subclass": (None, {"list"}, False, False),
    "dict-subclass": (None, {"dict"}, False, False),
    "other": (None, set(), False, False),
}


def _eval(test: ast.AST, kind: str, tvar: str, vvar: str) -> bool:
    exact, inst, fields, isdc = KINDS[kind]
    if isinstance(test, ast.BoolOp):
        vals = [_eval(v, kind, tvar, vvar) for v in test.values]
        return all(vals) if isinstance(test.op, ast.And) else any(vals)
    if isinstance(test, ast.UnaryOp) and isinstance(test.op, ast.Not):
        return not _eval(test.operand, kind, tvar, vvar)
    if isinstance(test, ast.Compare) and len(test.ops) == 1 and src(test.left) == tvar:
        right = test.comparators[0]
        names = [src(e) for e in right.elts] if isinstance(right, (ast.Tuple, ast.List, ast.Set)) else [src(right)]
        if isinstance(test.ops[0], (ast.Is, ast.Eq, ast.In)):
            return exact in names
        if isinstance(test.ops[0], (ast.IsNot, ast.NotEq, ast.NotIn)):
            return exact not in names
    if isinstance(test, ast.Call):
        d = call_name(test)
        if d == "isinstance" and src(test.args[0]) == vvar:
            c = test.args[1]
            names = [src(e) for e in c.elts] if isinstance(c, ast.Tuple) else [src(c)]
            return bool(inst & set(names))
        if d == "hasattr" and src(test.args[0]) == vvar and src(test.args[1]) == "'_fields'":
            return fields
        if d in ("dataclasses.is_dataclass", "is_dataclass"):
            return isdc
    raise AnalysisError(f"nested-value dispatch test not understood: {src(test)}", "redun/utils.py")


def run(ctx):
    repo = ctx.repo
    m = repo.mod(UTILS)
    it = m.func("iter_nested_value_children")
    mp = m.func("map_nested_value")

    def tvar_of(fn):
        for n in fn.body:
            if isinstance(n, ast.Assign) and isinstance(n.value, ast.Call) and call_name(n.value) == "type":
                return src(n.targets[0]), src(n.value.args[0])
        raise AnalysisError(f"{fn.name}: `value_type = type(value)` not found", fn.name)

    it_t, it_v = tvar_of(it)
    mp_t, mp_v = tvar_of(mp)
    it_arms, mp_arms = if_chain(it), if_chain(mp)

    def arm(arms, kind, t, v):
        for i, (test, body) in enumerate(arms):
            if test is None or _eval(test, kind, t, v):
                return i, body
        raise AnalysisError("no arm taken")

    r1 = ctx.rule("C19.1", "iterator and mapper agree on containers and on their children for every abstract kind", floor=10)
    table = {}
    for kind in KINDS:
        ii, ib = arm(it_arms, kind, it_t, it_v)
        mi, mb = arm(mp_arms, kind, mp_t, mp_v)
        ibt = " ; ".join(src(b) for b in ib)
        mbt = " ; ".join(src(b) for b in mb)
        it_leaf = "yield (True," in ibt
        mp_leaf = any(isinstance(b, ast.Return) and isinstance(b.value, ast.Call) and src(b.value.func) == mp.args.args[0].arg for b in mb)
        table[kind] = {"iter": "leaf" if it_leaf else "container", "map": "leaf" if mp_leaf else "container"}
        r1.check(it_leaf == mp_leaf, f"{m.rel}:nested:{kind}:container-agreement", f"a {kind} is a {'leaf' if it_leaf else 'container'} for iter_nested_value but a {'leaf' if mp_leaf else 'container'} for map_nested_value: expressions inside it are found but not replaced (or the reverse)", m.rel, it.lineno)
        if not it_leaf and not mp_leaf:
            f0 = mp.args.args[0].arg

            def rec(node, argsrc):
                """node is exactly map_nested_value(func, <argsrc>) (unconditional recursion on that child)."""
                return isinstance(node, ast.Call) and call_name(node) == "map_nested_value" and len(node.args) == 2 and src(node.args[0]) == f0 and src(node.args[1]) == argsrc and not node.keywords

            def comp_ok(comp, iter_src):
                if not isinstance(comp, (ast.ListComp, ast.SetComp, ast.GeneratorExp)) or len(comp.generators) != 1:
                    return False
                g = comp.generators[0]
                return src(g.iter) == iter_src and not g.ifs and rec(comp.elt, src(g.target))

            ret = next((b for b in mb if isinstance(b, ast.Return)), None)
            v = ret.value if ret is not None else None
            # iterator side: every child is yielded as a non-leaf, without filter
            def yields_all(body, iter_src):
                for st in body:
                    if isinstance(st, ast.For) and src(st.iter) == iter_src and len(st.body) == 1 and isinstance(st.body[0], ast.Expr) and isinstance(st.body[0].value, ast.Yield):
                        y = st.body[0].value.value
                        if isinstance(y, ast.Tuple) and src(y.elts[0]) == "False" and src(y.elts[1]) == src(st.target):
                            return True
                return False

            if kind == "dict":
                ok_it = yields_all(ib, f"{it_v}.keys()") and yields_all(ib, f"{it_v}.values()")
                ok_mp = isinstance(v, ast.DictComp) and len(v.generators) == 1 and src(v.generators[0].iter) == f"{mp_v}.items()" and not v.generators[0].ifs
                if ok_mp:
                    kt, vt = [src(e) for e in v.generators[0].target.elts]
                    ok_mp = rec(v.key, kt) and rec(v.value, vt)
                r1.check(ok_it and ok_mp, f"{m.rel}:nested:dict:children", "dict keys and values are not all yielded by the iterator and each mapped by an unconditional recursive call (a key/value kind that the iterator descends into would reach func as a whole)", m.rel, mp.lineno)
            elif kind == "dataclass":
                ok_it = False
                for st in ib:
                    if isinstance(st, ast.For) and src(st.iter) == f"dataclasses.fields({it_v})" and len(st.body) == 1 and isinstance(st.body[0], ast.Expr) and isinstance(st.body[0].value, ast.Yield):
                        y = st.body[0].value.value
                        ok_it = isinstance(y, ast.Tuple) and src(y.elts[0]) == "False" and src(y.elts[1]) == f"getattr({it_v}, {src(st.target)}.name)"
                ok_init = ok_non = False
                for n in ast.walk(ast.Module(body=mb, type_ignores=[])):
                    if isinstance(n, ast.DictComp) and len(n.generators) == 1 and src(n.generators[0].iter) == f"dataclasses.fields({mp_v})":
                        g = n.generators[0]
                        fv = src(g.target)
                        ok_init = [src(i) for i in g.ifs] == [f"{fv}.init"] and src(n.key) == f"{fv}.name" and rec(n.value, f"getattr({mp_v}, {fv}.name)")
                    if isinstance(n, ast.For) and src(n.iter) == f"dataclasses.fields({mp_v})" and len(n.body) == 1 and isinstance(n.body[0], ast.If):
                        fv = src(n.target)
                        iff = n.body[0]
                        if src(iff.test) == f"not {fv}.init" and len(iff.body) == 1 and isinstance(iff.body[0], ast.Expr) and isinstance(iff.body[0].value, ast.Call):
                            c = iff.body[0].value
                            if call_name(c) in ("setattr", "object.__setattr__") and len(c.args) == 3 and src(c.args[1]) == f"{fv}.name" and rec(c.args[2], f"getattr({mp_v}, {fv}.name)"):
                                ok_non = True
                r1.check(ok_it and ok_init and ok_non, f"{m.rel}:nested:dataclass:children", "dataclass fields are not all yielded by the iterator and all rebuilt by unconditional recursion (init fields through the constructor, non-init fields through setattr)", m.rel, mp.lineno)
            else:
                ok_it = yields_all(ib, it_v)
                if kind in ("list", "set", "list-subclass"):
                    ok_mp = comp_ok(v, mp_v)
                elif kind == "tuple":
                    ok_mp = isinstance(v, ast.Call) and call_name(v) == "tuple" and len(v.args) == 1 and comp_ok(v.args[0], mp_v)
                elif kind == "namedtuple":
                    ok_mp = isinstance(v, ast.Call) and src(v.func) == mp_t and len(v.args) == 1 and isinstance(v.args[0], ast.Starred) and comp_ok(v.args[0].value, mp_v)
                else:
                    ok_mp = False
                r1.check(ok_it and ok_mp, f"{m.rel}:nested:{kind}:children", f"items of a {kind} are not all yielded by the iterator and each mapped by an unconditional recursive call", m.rel, mp.lineno)
    ctx.extra["kind_table"] = table
    ctx.extra["exhaustive"] = True

    r2 = ctx.rule("C19.2", "rebuild preserves the container type; recursion passes the same function", floor=6)
    shapes = {}
    for kind in ("list", "tuple", "namedtuple", "set", "dict", "dataclass"):
        _, mb = arm(mp_arms, kind, mp_t, mp_v)
        ret = next((b for b in mb if isinstance(b, ast.Return)), None)
        v = ret.value if ret is not None else None
        if kind == "list":
            ok = isinstance(v, ast.ListComp)
        elif kind == "tuple":
            ok = isinstance(v, ast.Call) and call_name(v) == "tuple"
        elif kind == "namedtuple":
            ok = isinstance(v, ast.Call) and src(v.func) == mp_t and any(isinstance(a, ast.Starred) for a in v.args)
        elif kind == "set":
            ok = isinstance(v, ast.SetComp)
        elif kind == "dict":
            ok = isinstance(v, ast.DictComp)
        else:
            mbt = " ; ".join(src(b) for b in mb)
            ok = f"{mp_t}(**" in mbt and isinstance(v, ast.Name)
        r2.check(bool(ok), f"{m.rel}:map_nested_value:{kind}:rebuild", f"a {kind} is not rebuilt as a {kind} ({src(v)[:50] if v is not None else None})", m.rel, mp.lineno)
    f0 = mp.args.args[0].arg
    rec = [c for c in calls_in(mp) if call_name(c) == "map_nested_value"]
    r2.check(len(rec) >= 7 and all(c.args and src(c.args[0]) == f0 for c in rec), f"{m.rel}:map_nested_value:recursion", "a recursive call does not pass the mapped function unchanged", m.rel, mp.lineno)

    r4 = ctx.rule("C19.4", "dataclass rebuild works for frozen and slotted dataclasses (which the iterator traverses)", floor=2)
    _, dcb = arm(mp_arms, "dataclass", mp_t, mp_v)
    plain = [c for b in dcb for c in ast.walk(b) if isinstance(c, ast.Call) and call_name(c) == "setattr"]
    r4.check(not plain, f"{m.rel}:map_nested_value:dataclass:frozen-safe", "non-init fields are restored with plain setattr(): a frozen dataclass with a non-init field raises FrozenInstanceError in map_nested_value although iter_nested_value traverses it", m.rel, mp.lineno)
    dict_uses = [n for b in dcb for n in ast.walk(b) if isinstance(n, ast.Attribute) and n.attr == "__dict__"]
    guarded = True
    if dict_uses:
        guarded = any(isinstance(n, ast.If) and "hasattr(" in src(n.test) and "__dict__" in src(n.test) and all(any(u is x for x in ast.walk(n)) for u in dict_uses) for b in dcb for n in ast.walk(b))
    r4.check(guarded, f"{m.rel}:map_nested_value:dataclass:slots-safe", "the rebuild reads __dict__ unconditionally: a dataclass with __slots__ raises AttributeError in map_nested_value although iter_nested_value traverses it", m.rel, mp.lineno)

    r3 = ctx.rule("C19.3", "leaf iterator visits every child; evaluate maps and iterates one structure", floor=2)
    inv = m.func("iter_nested_value")
    t = src(inv)
    ok = "stack.extend(iter_nested_value_children(value))" in t and "if is_leaf:" in t and "yield value" in t
    r3.check(ok, f"{m.rel}:iter_nested_value", "iter_nested_value does not push every child and yield exactly the leaves", m.rel, inv.lineno)
    sm = repo.mod("redun/scheduler.py")
    ev = sm.func("Scheduler.evaluate")
    te = src(ev)
    ok = "pending_expr = map_nested_value(eval_term, expr)" in te and "iter_nested_value(pending_expr)" in te and "map_nested_value(resolve_term, pending_expr)" in te
    r3.check(ok, f"{sm.rel}:Scheduler.evaluate", "evaluate does not start, collect and resolve the promises of one and the same mapped structure", sm.rel, ev.lineno)

    # ---- C19.5 whatever a lazy operator returns is evaluated again, whatever its type ----------------
    # `call`, getattr/getitem on user objects and user __call__s can return *containers of expressions* (plan.jobs() -> [task(1), task(2)]).
    # The SimpleExpression arm of _evaluate_apply must hand the operator's result to self.evaluate() on every path; a shortcut that re-evaluates
    # only when the result is itself an Expression lets a job resolve to a value that still contains unevaluated expressions.
    r5 = ctx.rule("C19.5", "the result of a lazy operator is passed to Scheduler.evaluate on every path", floor=1)
    ea = sm.func("Scheduler._evaluate_apply")
    arm = next((n for n in ast.walk(ea) if isinstance(n, ast.If) and "isinstance(expr, SimpleExpression)" in src(n.test)), None)
    if arm is None:
        raise AnalysisError("_evaluate_apply: SimpleExpression arm not found", "Scheduler._evaluate_apply")
    callbacks = []
    for c in ast.walk(ast.Module(body=arm.body, type_ignores=[])):
        if isinstance(c, ast.Call) and isinstance(c.func, ast.Attribute) and c.func.attr == "then" and "args_promise" in src(c.func.value) and c.args:
            cb = c.args[0]
            if isinstance(cb, ast.Lambda):
                callbacks.append(("lambda", cb, [cb.body]))
            elif isinstance(cb, ast.Name):
                fn = next((f for f in ast.walk(arm) if isinstance(f, ast.FunctionDef) and f.name == cb.id), None)
                if fn is not None:
                    callbacks.append((cb.id, fn, [r.value for r in ast.walk(fn) if isinstance(r, ast.Return) and r.value is not None]))
    if not callbacks:
        raise AnalysisError("_evaluate_apply: the continuation applied to the evaluated operands was not found", "Scheduler._evaluate_apply")
    for name, node, rets in callbacks:
        bad = [src(v) for v in rets if not (isinstance(v, ast.Call) and call_name(v) == "self.evaluate")]
        r5.check(
            bool(rets) and not bad,
            f"{sm.rel}:Scheduler._evaluate_apply:SimpleExpression:result-evaluated",
            f"the continuation of a lazy operation returns `{bad[0][:60] if bad else ''}` without passing it to self.evaluate(): when the operator returns a container of expressions (a lazy call of "
            "a plain callable returning [task(1), task(2)]) the enclosing job resolves to a value that still holds TaskExpression leaves",
            sm.rel,
            node.lineno,
        )
