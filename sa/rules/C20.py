"""C20 -- recorded call graphs are a consistent Merkle record of the run (structural clauses).

Rows are built from the same quantities that are hashed, by the one hash
function, and tags go to matching entity ids.  Database contents after a run
are not observed.
"""

from __future__ import annotations

import ast
import re

from ..core import AnalysisError, arg_or_kw, call_name, calls_in, kwarg, last_attr, src

EXPLANATION = (
    "C20.1 row/hash agreement: in record_call_node the arguments of hash_call_node and the CallNode(...) keywords bind the same parameters "
    "(task_hash, args_hash, result_hash->value_hash, call_hash), CallEdge rows enumerate child_call_hashes in order; the non-provenance arm of the "
    "resolve finaliser uses the same hash_call_node on (task.hash, args_hash, result hash, child hashes); hash_call_node = hash_struct(['CallNode', "
    "task, args, result, sorted(children)]); C20.2 the 'CallNode' tag occurs at exactly one hash site; C20.3 sibling finalisers pass the same "
    "expressions for the call-node fields and both filter children on child_job.call_hash; C20.4 at every record_tags call site the (entity type, "
    "entity id) pair is consistent (Job<->job.id, Execution<->execution id, Task<->task.hash, Value<->a record_value result, CallNode<->a call hash; "
    "pass-through sites forward both unchanged); C20.5 record_job_start writes parent_id from job.parent_job.id and sets the execution's root job only "
    "for a parentless job; record_value keys the row by the hash of the serialized data it stores."
)

SCHED = "redun/scheduler.py"
DB = "redun/backends/db/__init__.py"


def run(ctx):
    repo = ctx.repo
    m = repo.mod(SCHED)
    db = repo.mod(DB)
    hm = repo.mod("redun/hashing.py")

    r1 = ctx.rule("C20.1", "call node rows are built from the hashed quantities by the one hash function", floor=5)
    rc = db.func("RedunBackendDb.record_call_node")
    hc = [c for c in calls_in(rc) if call_name(c) == "hash_call_node"]
    ok = len(hc) == 1 and [src(a) for a in hc[0].args] == ["task_hash", "args_hash", "result_hash", "child_call_hashes"]
    r1.check(ok, f"{db.rel}:RedunBackendDb.record_call_node:hash", "call_hash is not hash_call_node(task_hash, args_hash, result_hash, child_call_hashes) of the method's own parameters", db.rel, rc.lineno)
    cn = [c for c in calls_in(rc) if call_name(c) == "CallNode"]
    kws = {k.arg: src(k.value) for k in cn[0].keywords} if cn else {}
    ok = kws == {"call_hash": "call_hash", "task_name": "task_name", "task_hash": "task_hash", "args_hash": "args_hash", "value_hash": "result_hash"}
    r1.check(ok, f"{db.rel}:RedunBackendDb.record_call_node:row", f"the CallNode row is not built from the hashed parameters ({kws})", db.rel, rc.lineno)
    ce = [c for c in calls_in(rc) if call_name(c) == "CallEdge"]
    # the edges are built from the hashed child list: the sequence enumerated for the edges is child_call_hashes itself or a filtered copy of it
    # (`[h for h in child_call_hashes if ...]`), never another source
    ok = len(ce) == 1 and {k.arg: src(k.value) for k in ce[0].keywords} == {"parent_id": "call_hash", "child_id": "child_call_hash", "call_order": "i"}
    if ok:
        lp = db.parent.get(ce[0])
        while lp is not None and not isinstance(lp, ast.For):
            lp = db.parent.get(lp)
        # `for i, h in enumerate(seq)` or `for h in seq` with an explicit counter
        seq = None
        if lp is not None:
            seq = lp.iter.args[0] if isinstance(lp.iter, ast.Call) and call_name(lp.iter) == "enumerate" and lp.iter.args else lp.iter
        from_children = seq is not None and src(seq) == "child_call_hashes"
        if seq is not None and isinstance(seq, ast.Name) and not from_children:
            defs = [a for a in ast.walk(rc) if isinstance(a, ast.Assign) and src(a.targets[0]) == seq.id]
            from_children = len(defs) == 1 and isinstance(defs[0].value, ast.ListComp) and src(defs[0].value.generators[0].iter) == "child_call_hashes" and src(defs[0].value.elt) == src(defs[0].value.generators[0].target)
        ok = from_children
    r1.check(ok, f"{db.rel}:RedunBackendDb.record_call_node:edges", "child edges do not enumerate child_call_hashes with the parent's call_hash", db.rel, rc.lineno)
    hf = hm.func("hash_call_node")
    ok = any(isinstance(r, ast.Return) and src(r.value) == "hash_struct(['CallNode', task_hash, args_hash, result_hash, sorted(child_call_hashes)])" for r in ast.walk(hf))
    r1.check(ok, f"{hm.rel}:hash_call_node", "hash_call_node is not the hash of ['CallNode', task, args, result, sorted(children)]", hm.rel, hf.lineno)
    rs = m.func("Scheduler._resolve_job_main_thread")
    jv = rs.args.args[1].arg
    hc2 = [c for c in calls_in(rs, shallow=True) if call_name(c) == "hash_call_node"]
    ok = len(hc2) == 1 and [src(a) for a in hc2[0].args] == [f"{jv}.task.hash", f"{jv}.args_hash", "result_hash", "child_call_hashes"]
    r1.check(ok, f"{m.rel}:Scheduler._resolve_job_main_thread:no-prov-hash", "without provenance the call hash is not computed with the same function over the same four quantities", m.rel, rs.lineno)
    rv = [c for c in calls_in(rs, shallow=True) if call_name(c) == "self.backend.record_value"]
    ok = any(isinstance(n, ast.Assign) and src(n.targets[0]) == "result_hash" and src(n.value) == "self.backend.record_value(result)" for n in ast.walk(rs))
    # or handed over directly: record_call_node(..., result_hash=self.backend.record_value(result), ...)
    ok = ok or any(call_name(c) == "self.backend.record_call_node" and kwarg(c, "result_hash") is not None and src(kwarg(c, "result_hash")) == "self.backend.record_value(result)" for c in calls_in(rs, shallow=True))
    r1.check(ok, f"{m.rel}:Scheduler._resolve_job_main_thread:result_hash", "the result hash given to record_call_node is not the hash under which the result value was recorded", m.rel, rs.lineno)

    r2 = ctx.rule("C20.2", "the CallNode tag occurs at exactly one hash site", floor=1)
    sites = [(mod.rel, mod.enclosing_qual(c)) for mod, c in repo.all_calls(lambda c: call_name(c) == "hash_struct" and c.args and isinstance(c.args[0], ast.List) and c.args[0].elts and src(c.args[0].elts[0]) == "'CallNode'")]
    r2.check(sites == [("redun/hashing.py", "hash_call_node")], f"{hm.rel}:tag CallNode:sites", f"'CallNode' pre-images at {sites}", hm.rel, 0)

    r3 = ctx.rule("C20.3", "sibling finalisers record the call node from the same job fields", floor=2)
    rj = m.func("Scheduler._reject_job_main_thread")
    kw_by = {}
    for fn in (rs, rj):
        v = fn.args.args[1].arg
        for c in calls_in(fn, shallow=True):
            if call_name(c) == "self.backend.record_call_node":
                kw_by[fn.name] = {k.arg: src(k.value).replace(v + ".", "JOB.") for k in c.keywords}
    a, b = kw_by.get(rs.name, {}), kw_by.get(rj.name, {})
    same = [k for k in ("task_name", "task_hash", "args_hash", "expr_args", "eval_args", "child_call_hashes", "subtree_tasks")]
    diff = [k for k in same if a.get(k) != b.get(k)]
    r3.check(bool(a) and bool(b) and not diff, f"{m.rel}:finalisers:record_call_node-kwargs", f"resolve and reject finalisers differ in {diff}: {[(a.get(k), b.get(k)) for k in diff]}", m.rel, rj.lineno)
    want = {"task_name": "JOB.task.fullname", "task_hash": "JOB.task.hash", "args_hash": "JOB.args_hash", "eval_args": "JOB.eval_args"}
    r3.check(all(a.get(k) == v for k, v in want.items()), f"{m.rel}:Scheduler._resolve_job_main_thread:record_call_node-fields", f"record_call_node is not given the job's own task/args fields ({a})", m.rel, rs.lineno)
    for fn in (rs, rj):
        v = fn.args.args[1].arg
        lc = [n for n in ast.walk(fn) if isinstance(n, ast.ListComp) and f"{v}.child_jobs" in src(n)]
        ok = bool(lc) and all(any("child_job.call_hash" == src(i) for i in g.ifs) for n in lc for g in n.generators) and all("child_job.call_hash" in src(n.elt) for n in lc)
        r3.check(ok, f"{m.rel}:Scheduler.{fn.name}:children", "child call hashes are not the call hashes of the finished child jobs in child order", m.rel, fn.lineno)

    r6 = ctx.rule("C20.6", "a job that already carries a call hash (cached / deduplicated) is never given a second call node", floor=2)
    from ..cfg import CFG, facts_at

    for fn in (rs, rj):
        v = fn.args.args[1].arg
        cfg = CFG(fn)
        for c in calls_in(fn, shallow=True):
            if call_name(c) in ("self.backend.record_call_node", "hash_call_node"):
                facts = facts_at(cfg, cfg.node_of(c))
                ok = (f"{v}.call_hash", False) in facts
                r6.check(
                    ok,
                    f"{m.rel}:Scheduler.{fn.name}:{call_name(c)}:only-without-call_hash",
                    f"{fn.name} computes/records a call node for a job even when it already has a call_hash (a job collapsed onto an equivalent job, or served from "
                    "the cache): the call gets a second call node built from the duplicate's empty child list, which is not among its parent's child edges",
                    m.rel,
                    c.lineno,
                )

    r7 = ctx.rule("C20.7", "a collapsed job takes the twin's call hash after the twin has settled", floor=2)
    col = m.func("Job.collapse")
    other = col.args.args[1].arg
    cbs = [st for st in col.body if isinstance(st, (ast.FunctionDef,))]
    reg = [c for c in calls_in(col, shallow=True) if last_attr(c) == "then" and f"{other}.result_promise" in src(c)]
    names = [a.id for c in reg for a in c.args if isinstance(a, ast.Name)]
    for cb in cbs:
        if cb.name in names:
            ok = any(isinstance(n, ast.Assign) and src(n.targets[0]) == "self.call_hash" and src(n.value) == f"{other}.call_hash" for n in ast.walk(cb))
            r7.check(ok, f"{m.rel}:Job.collapse.{cb.name}:call_hash", f"the `{cb.name}` callback does not take over the twin's call_hash: the duplicate records its own call node (with an empty child list) instead of sharing the twin's", m.rel, cb.lineno)
    early = [n for n in col.body if isinstance(n, ast.Assign) and src(n.targets[0]) == "self.call_hash"]
    r7.check(not early and len(names) == 2, f"{m.rel}:Job.collapse:call_hash-timing", "Job.collapse copies the twin's call_hash before the twin has settled (it is still None then), so the duplicate later computes a different call node", m.rel, col.lineno)

    r4 = ctx.rule("C20.4", "tags are attached to the entity they are computed for", floor=10)
    PAIRS = {
        "TagEntity.Job": lambda t: t.endswith(".id") and "job" in t.lower() and "execution" not in t,
        "TagEntity.Execution": lambda t: ("execution" in t.lower() and t.endswith(".id")),
        "TagEntity.Task": lambda t: t.endswith("task.hash"),
        "TagEntity.Value": lambda t: t == "value_hash",
        "TagEntity.CallNode": lambda t: t == "call_hash" or t.endswith(".call_hash"),
    }
    nsites = 0
    for mod, c in repo.all_calls(lambda c: last_attr(c) == "record_tags"):
        q = mod.enclosing_qual(c)
        nsites += 1
        et = arg_or_kw(c, 0, "entity_type")
        ei = arg_or_kw(c, 1, "entity_id")
        ets, eis = src(et), src(ei)
        construct = f"{mod.rel}:{q}:record_tags({ets}, {eis})"
        if ets in PAIRS:
            ok = PAIRS[ets](eis)
            if ets == "TagEntity.Value" and ok:
                fn = mod.enclosing_func(c)
                outer = fn
                # value_hash must come from record_value (directly, or stored in job.value_tags by apply_tags)
                ok = "value_tags" in src(outer) or "record_value" in src(outer)
            r4.check(ok, construct, f"tag for {ets} is attached to id `{eis}`", mod.rel, c.lineno)
        elif ets in ("entity_type", "delete_tag.entity_type") or ets.endswith("entity_type"):
            # pass-through: both forwarded unchanged from the same source
            ok = (ets == "entity_type" and eis in ("entity_id", "full_id")) or (ets == "delete_tag.entity_type" and eis == "delete_tag.entity_id")
            if eis == "full_id":
                fn = mod.enclosing_func(c)
                ok = any(isinstance(n, ast.Assign) and src(n.targets[0]) in ("(full_id, entity_type)", "full_id, entity_type") and "_parse_entity_info" in src(n.value) for n in ast.walk(fn))
            r4.check(ok, construct, f"pass-through site forwards ({ets}, {eis}) which do not come from one source", mod.rel, c.lineno)
        else:
            r4.violation(construct, f"entity type `{ets}` not understood", mod.rel, c.lineno)
    if nsites < 10:
        raise AnalysisError(f"only {nsites} record_tags call sites found", "record_tags")
    at = m.funcs.get("apply_tags.then")
    ok = at is not None and "value_hash = scheduler.backend.record_value(value)" in src(at) and "parent_job.value_tags.append((value_hash, tags))" in src(at) and "parent_job.job_tags.extend(job_tags)" in src(at) and "parent_job.execution_tags.extend(execution_tags)" in src(at)
    r4.check(bool(ok), f"{m.rel}:apply_tags.then", "apply_tags does not queue value/job/execution tags on the calling job with the recorded value's hash", m.rel, getattr(at, "lineno", 0))
    pe = repo.mod("redun/cli.py").func("RedunClient._parse_entity_info")
    ok = "TagEntity(type(entity).__name__)" in src(pe) and "getattr(entity, model_pks[type(entity)])" in src(pe)
    r4.check(ok, "redun/cli.py:RedunClient._parse_entity_info", "the CLI does not derive entity type and primary key from the same resolved entity", "redun/cli.py", pe.lineno)

    r5 = ctx.rule("C20.5", "job parent links, execution root and value keys mirror the run", floor=3)
    js = db.func("RedunBackendDb.record_job_start")
    t = src(js)
    ok = "parent_id=job.parent_job.id if job.parent_job else None" in t and "execution_id=job.execution.id" in t and "task_hash=task.hash" in t
    r5.check(ok, f"{db.rel}:RedunBackendDb.record_job_start:links", "the job row does not carry its parent's id, its execution's id and its task's hash", db.rel, js.lineno)
    ok = False
    for n in ast.walk(js):
        if isinstance(n, ast.If) and src(n.test) == "not job.parent_job":
            ok = any(src(b) == "current_execution.job_id = job.id" for b in n.body)
    r5.check(ok, f"{db.rel}:RedunBackendDb.record_job_start:root", "the execution's root job is not set exactly for the parentless job", db.rel, js.lineno)
    rv = db.func("RedunBackendDb.record_value")
    t = src(rv)
    ok = "value_hash = value_interface.get_hash(data=data)" in t and "data = value_interface.serialize()" in t and "Value(value_hash=value_hash" in t
    order = t.find("value_hash = value_interface.get_hash(data=data)") < t.find("data = b''")
    r5.check(ok and order, f"{db.rel}:RedunBackendDb.record_value:key", "a value row is not keyed by the hash of the data it serializes (computed before any placeholder substitution)", db.rel, rv.lineno)
    je = db.func("RedunBackendDb.record_job_end")
    ok = "db_job.call_hash = job.call_hash" in src(je) and "db_job.cached = job.was_cached" in src(je)
    r5.check(ok, f"{db.rel}:RedunBackendDb.record_job_end", "the finished job row does not point at the job's call node", db.rel, je.lineno)

    # ---- C20.8 a shared call_hash always names a recorded call node ----------------------------
    # Job.collapse makes the duplicate take over the twin's call_hash, and record_job_end writes it into job.call_hash (a foreign key to
    # call_node).  A twin that does not record provenance never records its call node, so a provenance-recording job must not be collapsed onto it.
    r8 = ctx.rule("C20.8", "a provenance-recording job is never collapsed onto a twin that records no provenance", floor=1)
    cpj = m.func("Scheduler._check_pending_job")
    c8 = CFG(cpj)
    jv8 = cpj.args.args[1].arg
    cols = [c8.node_of(c) for c in calls_in(cpj, shallow=True) if isinstance(c.func, ast.Attribute) and c.func.attr == "collapse" and src(c.func.value) == jv8]
    if not cols:
        raise AnalysisError("_check_pending_job: job.collapse(...) not found", "Scheduler._check_pending_job")
    for cn in cols:
        twin = src(next(c for c in ast.walk(cn.ast) if isinstance(c, ast.Call) and isinstance(c.func, ast.Attribute) and c.func.attr == "collapse").args[0])
        tests = [n for n in c8.nodes if n.kind == "test" and isinstance(n.ast, ast.expr) and f"{twin}.recording_provenance()" in src(n.ast)]
        ok = bool(tests) and c8.must_pass(c8.entry, tests, targets=[cn])
        r8.check(
            ok,
            f"{m.rel}:Scheduler._check_pending_job:collapse-onto-unrecorded-twin",
            f"`{src(cn.ast)}` is reached without testing {twin}.recording_provenance(): when the pending twin runs with prov=False its call node is never recorded, the collapsed job "
            "inherits that call_hash and record_job_end fails with a FOREIGN KEY error (job.call_hash -> call_node), aborting the run",
            m.rel,
            cn.lineno,
        )

    # ---- C20.9 check_cache never pairs a result with the call_hash of a different reduction ---------
    # The scheduler treats a returned call_hash as "this job's call node already exists" and records nothing.  check_cache may try ultimate
    # reduction first and then fall back to single reduction; the call_hash of the ultimate node may only be reported if that node's value was
    # the one actually loaded.
    r9 = ctx.rule("C20.9", "the call_hash returned by check_cache belongs to the reduction whose result is returned", floor=1)
    cc = db.func("RedunBackendDb.check_cache")
    c9 = CFG(cc)
    assigns = [n for n in c9.nodes if n.kind == "stmt" and isinstance(n.ast, ast.Assign) and any(src(t) == "call_hash" for t in n.ast.targets) and not (isinstance(n.ast.value, ast.Constant) and n.ast.value.value is None)]
    fallback = [n for n in c9.nodes if n.kind == "stmt" and isinstance(n.ast, ast.Assign) and "get_eval_cache" in src(n.ast.value)]
    if not fallback:
        raise AnalysisError("check_cache: single-reduction fallback (get_eval_cache) not found", "RedunBackendDb.check_cache")
    for a in assigns:
        if not any(c9.can_reach(a, f) for f in fallback):
            r9.good(f"{db.rel}:RedunBackendDb.check_cache:call_hash@{a.lineno - cc.lineno}", "no fallback after this assignment")
            continue
        loaded = ("is_cached", True) in facts_at(c9, a)
        resets = all(any(isinstance(x.ast, ast.Assign) and any(src(t) == "call_hash" for t in x.ast.targets) and c9.dominates(f, x) for x in c9.nodes if x.kind == "stmt" and x.ast is not None) for f in fallback)
        r9.check(
            loaded or resets,
            f"{db.rel}:RedunBackendDb.check_cache:call_hash-before-load",
            f"`{src(a.ast)}` is set before it is known that the node's value can be loaded; when it cannot (offloaded bytes lost, class no longer importable) the single-reduction fallback "
            "returns its expression together with this call_hash: the scheduler re-evaluates the children but records no new call node, and the job stays linked to a node whose children "
            "and result are those of the earlier run",
            db.rel,
            a.lineno,
        )
    if not assigns:
        raise AnalysisError("check_cache: no assignment of call_hash found", "RedunBackendDb.check_cache")

    # ---- C20.10 the parent's child list has one entry per child call --------------------------------
    # The parent's call hash and CallEdge rows are computed from job.child_jobs.  A duplicate child that is collapsed onto a running twin must
    # leave an entry (the twin) in its slot, otherwise the parent's call node lists one child while two child jobs carry its id as parent.
    r10 = ctx.rule("C20.10", "a collapsed duplicate keeps its slot in the parent's child list (filled by the twin)", floor=1)
    colf = m.func("Job.collapse")
    ccfg10 = CFG(colf)
    twin = colf.args.args[1].arg
    repl10 = [n for n in ccfg10.nodes if n.kind == "stmt" and isinstance(n.ast, ast.Assign) and isinstance(n.ast.targets[0], ast.Subscript) and src(n.ast.targets[0].value).endswith(".child_jobs") and src(n.ast.value) == twin]
    removes10 = [n for n in ccfg10.nodes if n.kind == "stmt" and n.ast is not None and any(isinstance(c, ast.Call) and isinstance(c.func, ast.Attribute) and c.func.attr in ("remove", "pop") and src(c.func.value).endswith(".child_jobs") for c in ast.walk(n.ast))]
    # "not in the list any more" (the parent finished and cleared its children) is the one case with nothing to fill
    absent10 = []
    for t10 in ccfg10.nodes:
        if t10.kind == "test" and isinstance(t10.ast, ast.Compare) and len(t10.ast.ops) == 1 and isinstance(t10.ast.ops[0], ast.In) and src(t10.ast.left) == "self" and src(t10.ast.comparators[0]).endswith(".child_jobs"):
            absent10 += ccfg10.edge_nodes(t10, "F")
    r10.check(
        bool(repl10) and ccfg10.must_pass(ccfg10.entry, set(repl10) | set(absent10)) and not removes10,
        f"{m.rel}:Job.collapse:child-slot",
        "Job.collapse does not, on every path, put the twin into the collapsed job's slot of parent.child_jobs (or removes an entry): the parent's call hash and child edges then "
        "count fewer children than jobs that ran under it (both job rows keep parent_id = parent)",
        m.rel,
        colf.lineno,
    )
    # Job.reject()/resolve() -> Job.clear() empties child_jobs of a finished parent while some of its children are still on their way to the
    # hand-off; such an orphan can still be collapsed onto a pending twin.  Looking its slot up with list.index() then raises ValueError out of
    # the event loop -- also when the parent's failure was caught.
    from ..cfg import facts_at as _facts10

    for c10 in calls_in(colf):
        if isinstance(c10.func, ast.Attribute) and c10.func.attr == "index" and src(c10.func.value).endswith(".child_jobs") and c10.args and src(c10.args[0]) == "self":
            lst = src(c10.func.value)
            r10.check(
                (f"self in {lst}", True) in _facts10(ccfg10, ccfg10.node_of(c10)),
                f"{m.rel}:Job.collapse:index-of-orphan",
                f"`{src(c10)}` is evaluated without `self in {lst}`: when the parent was rejected by a fast-failing sibling (and cleared) before this child is collapsed onto a pending twin, list.index raises "
                "ValueError inside Scheduler.run -- for main() = [catch(P(), ValueError, recover), Q()] the run crashes although P's error was caught",
                m.rel,
                c10.lineno,
            )
    # everything the scheduler evaluates on behalf of a call (arguments, defaults, *and* task options) must be inspected when deciding whether a
    # root wrapper is needed: an expression-valued option of the root call is otherwise evaluated with parent_job=None next to the root job
    nr = m.func("needs_root_task")
    scanned = " ".join(src(c.args[0]) for c in calls_in(nr) if call_name(c) == "iter_nested_value" and c.args)
    locs10 = {src(a.targets[0]): src(a.value) for a in ast.walk(nr) if isinstance(a, ast.Assign) and isinstance(a.targets[0], ast.Name)}
    for k10, v10 in locs10.items():
        if re.search(rf"\b{re.escape(k10)}\b", scanned):
            scanned += " " + v10
    r10.check(
        "expr._options" in scanned and "get_task_options()" in scanned,
        f"{m.rel}:needs_root_task:scans-options",
        "needs_root_task inspects the arguments and defaults of the root call but not its task options: scheduler.run(top.options(memory=mem())()) gets no root wrapper, the option expression is evaluated "
        "as a second parentless job in the same execution and record_job_start raises KeyError (one execution, two root jobs)",
        m.rel,
        nr.lineno,
    )

    # ---- C20.11 a tag's identity includes the kind of entity it is attached to -------------------------
    # Tag rows are de-duplicated by tag hash (C21.7 / record_tags).  Entity ids of different kinds can coincide -- a Task recorded as a Value has
    # value_hash == task.hash -- so a tag hash that leaves out the entity type makes `k=v on the task` and `k=v on the task value` one tag.
    r11 = ctx.rule("C20.11", "hash_tag's pre-image contains the entity type", floor=1)
    hm11 = repo.mod("redun/hashing.py")
    ht = hm11.func("hash_tag")
    params11 = [a.arg for a in ht.args.args]
    pre = [c for c in calls_in(ht) if call_name(c) == "hash_struct"]
    ok11 = bool(pre) and any("entity_type" in src(a) for c in pre for a in c.args)
    r11.check(
        ok11,
        f"{hm11.rel}:hash_tag:entity-type",
        f"hash_tag({', '.join(params11)}) hashes the entity id without the entity type: with @task(tags=[('k','v')]) on task t and apply_tags(t, tags=[('k','v')]) in the same run, the Value tag "
        "has the hash of the Task tag (a task's value hash is its task hash), record_tags takes it for a duplicate and the tag intended for the value is never attached",
        hm11.rel,
        ht.lineno,
    )

    # ---- C20.12 every job whose end is recorded has had its job tags recorded ------------------------------
    # Jobs that arrive at the resolve finaliser with a call hash (cache hits, same-execution duplicates, jobs collapsed onto a twin) skip the
    # recording arm; their task/option tags and the context Job tag are written only by the call in the common tail.
    from ..cfg import CFG

    r12 = ctx.rule("C20.12", "every path to record_job_end in the finalisers passes _record_job_tags(job)", floor=2)
    for q in ("Scheduler._resolve_job_main_thread", "Scheduler._reject_job_main_thread"):
        fn = m.func(q)
        jv = fn.args.args[1].arg
        cfg = CFG(fn)
        ends = [cfg.node_of(c) for c in calls_in(fn, shallow=True) if call_name(c) == "self.backend.record_job_end"]
        tags = [cfg.node_of(c) for c in calls_in(fn, shallow=True) if call_name(c) == "self._record_job_tags" and c.args and src(c.args[0]) == jv]
        if not ends:
            raise AnalysisError(f"{q} no longer calls backend.record_job_end", q)
        r12.check(
            bool(tags) and cfg.must_pass(cfg.entry, tags, targets=ends),
            f"{m.rel}:{q}:job-tags-before-job-end",
            "a job can have its end recorded without _record_job_tags(job): on the arm that skips call-node recording (job already has a call hash: cache hit, "
            "same-execution duplicate, collapsed twin) the tags of @task(tags=..)/.options(tags=..) and the redun.context Job tag are never attached",
            m.rel,
            fn.lineno,
        )
